#!/usr/bin/env python3
"""Regenerates MANIFEST.json from the table below (kept in one place so it stays valid)."""
import json, os, subprocess, sys
HERE = os.path.dirname(os.path.abspath(__file__))

LEVEL_NOTE = ("Trusted: Lean 4.33 kernel; axioms per theorem are audited on every run (allowed: propext, Classical.choice, Quot.sound; "
              "no sorry/admit/native_decide/bv_decide/own axioms). The theorems are about the hand-written Lean model in lean/Deltio/Model; "
              "the model is tied to /repo's current tree on every run by the correspondence streams (same ops through the real gRPC "
              "server in-process and through the compiled Lean driver, outputs diffed) and by implementation-side oracles. Trusted too: "
              "the Rust harness, the cfg(deltio_verif) hooks, tokio/tonic runtime contracts (DESIGN.md section 6).")

CHECKS = {
    "C01": ("conservation of messages per subscription actor by induction over all turn sequences (List.Perm invariant), drain and "
            "requeue theorems, system-level fan-out theorem (one post turn per attached subscription, others untouched), slice P6 "
            "(fan-out protocol under ALL interleavings, any capacity: an answered Publish has reached every subscription of its "
            "fan-out set, nothing foreign, FIFO mailboxes, progress of the publish turn); tied by seq correspondence, turn-trace "
            "validation, refinement of the hook log against slices P1 and P6 + loss/foreign oracle", "5-C01"),
    "C02": ("tracker consistency invariant and ack-finality by induction over all turn sequences; tied by tracker/seq correspondence "
            "+ ack-finality oracle", "5-C02"),
    "C03": ("lease persistence/exclusivity and ack-id freshness as inductive invariants over all turn sequences; tied by seq "
            "correspondence + lease oracle", "5-C03"),
    "C04": ("deadline value/rounding bounds (omega), not-before / at-deadline theorems over all turn sequences and all virtual times; "
            "tied by rounding + seq correspondence at sub-100ms phases + early/late oracle", "5-C04"),
    "C05": ("classification of seconds for all integers, all-or-nothing parsing by induction, replace/nack/ignore theorems on the "
            "tracker; tied by pure + seq correspondence", "5-C05"),
    "C08": ("id arithmetic (omega) and FIFO queue theorems over all turns, first-delivery order over all turn sequences, slice P6 "
            "(posts reach every subscription in accept order and ids are issued in accept order under ALL interleavings of "
            "concurrent publishers); tied by seq correspondence (incl. MiB-sized payloads), refinement of the hook log against "
            "slice P6 + order oracle", "5-C08"),
    "C09": ("payload equality by conservation, id injectivity (omega), base64 round trip by induction; tied by seq correspondence "
            "with binary/attribute payload generators + payload oracle", "5-C09"),
    "C10": ("refinement of the system model to the atomic-map specification (one theorem for all 14 request kinds, lifted to all "
            "histories), handler case analysis: create/get/delete/data-plane status and state theorems for all states and names, global invariant "
            "over all histories (SysInv), and slice P1 over all interleavings of create/delete of one name (linearization-point theorems); "
            "tied by seq correspondence over a name pool, refinement check of the hook log against slice P1, per-name linearizability "
            "oracle on concurrent histories", "5-C10"),
    "C11": ("deletion theorems on the system model (detach, frame, deleted-topic reporting, no re-attach), topic list = live subscriptions "
            "as a global invariant, slice P1 inductive invariant (no ghost at any moment, exact at quiescence, progress, pre-fix ghost "
            "witness); tied by seq correspondence, refinement check of the hook log against slice P1 + listing oracle", "5-C11"),
    "C13": ("paging theorems for all sizes/offsets/tokens: page bound, walk = identity by induction, token round trip for all u64; "
            "tied by pure token/paging streams and full list walks through gRPC", "5-C13"),
    "C15": ("closed form of the pull loop by induction, batch bound for every i32 max_messages incl. 16-bit wrap (omega), empty-response "
            "rule through the blocking-pull and timer loops of the system model (C15_blocking_pull, with fuel sufficiency of the timer "
            "loop); tied by seq correspondence incl. backlogs around 65536 + size oracle", "5-C15"),
    "C17": ("total handler model; malformed => INVALID_ARGUMENT and unchanged state for every request kind; rejected => unchanged; "
            "tied by structured malformed-request streams through gRPC (panic/hang/abort are outputs the model never has)", "5-C17"),
    "C18": ("shape, canonical re-parse and injectivity of display for all byte strings; tied by exhaustive small-alphabet + mutation "
            "streams against the real parsers + independent splitter oracle", "5-C18"),
}

CHECKS.update({
    "C06": ("token invariant of the wake-up protocol slice P2 (Notify permit / notified / queued pull) inductive over all interleavings "
            "and cancellation points, no-lost-wakeup at quiescence; tied by concurrent wake scenarios with quiescent probes + turn-trace "
            "validation of the notify flags", "5-C06"),
    "C07": ("deadlock slice P3: kernel-checked deadlock witness of the pre-fix protocol, inductive invariant, progress and strictly "
            "decreasing measure for the repaired protocol for every capacity >= 1; system model: no request but Pull takes virtual time "
            "and every Pull is answered by its 300 s wait limit (C07_zero_time, C07_pull_limit); tied by burst scenarios with shrunken "
            "mailboxes (no call may hang or take virtual time), several long-blocked pulls with late traffic (pulllimit) + turn-trace validation", "5-C07"),
    "C12": ("release after deletion in slice P2: nobody parks after DeleteEnd, progress and decreasing measure for both outcomes of "
            "the randomised select, pre-fix silent-end witness; tied by delete scenarios against open streams / blocked pulls / racers", "5-C12"),
    "C14": ("C14_until_accepted by induction over ALL push histories (publishes, rounds, arbitrary endpoint outcomes in any order, timer "
            "ticks): a posted message is still held or an accepted answer arrived for an outstanding delivery of it; dispatch-turn theorems "
            "for every endpoint outcome on top of C02/C04/C05, registry invariant over all histories, accepted status table; tied by the real "
            "push loop against a scripted HTTP endpoint (several push subscriptions per topic) + registry correspondence", "5-C14"),
    "C16": ("cancellation slice P4: pre-fix orphan witness, inductive invariant and all-or-nothing at quiescence with a cancel label at "
            "every await, abandoned-pull theorem; tied by poll-k-then-drop scenarios under saturated mailboxes", "5-C16"),
    "C19": ("flow-control slice P5 at atomic-operation granularity: inductive invariant (epoch / touched ghost), safety, no-missed-capacity "
            "and broadcast for all interleavings; tied by call-granularity correspondence with hand-polled waiter futures", "5-C19"),
})

PENDING = {
    "C06": "check under construction in this round (wake-up protocol slice + trace stream); not claimed until it runs",
    "C07": "check under construction in this round (deadlock slice + burst stream); not claimed until it runs",
    "C12": "check under construction in this round (deletion/select slice + trace stream); not claimed until it runs",
    "C14": "check under construction in this round (push round model + scripted HTTP endpoint stream); not claimed until it runs",
    "C16": "check under construction in this round (cancellation slice + poll-k-then-drop stream); not claimed until it runs",
    "C19": "check under construction in this round (flow-control slice + manual-poll stream); not claimed until it runs",
}


def main():
    m = {
        "version": 1,
        "setup_cmd": "./check setup",
        "hooks": {
            "guard": "deltio_verif",
            "enable": "RUSTFLAGS='--cfg deltio_verif --cfg tokio_unstable' (set in /verif/harness/.cargo/config.toml; the harness has a path "
                      "dependency on /repo and is rebuilt from the current working tree by every check)",
            "baseline_off_cmd": "cd /repo && cargo test --workspace --no-fail-fast --offline",
            "source_commits": subprocess.run(["git", "-C", "/repo", "log", "--format=%h %s", "--grep=^verif:"], stdout=subprocess.PIPE, text=True).stdout.strip().split("\n"),
            "add_only": True,
        },
        "engines": [
            {"name": "lean-model", "path": "lean", "serves_properties": sorted(CHECKS), "kind_free_text": "Lean 4 model + theorems (lake project, core only)"},
            {"name": "dvh", "path": "harness", "serves_properties": sorted(CHECKS), "kind_free_text": "Rust harness driving the real server in-process (pure / seq / conc / push modes, hook log)"},
            {"name": "check", "path": "check", "serves_properties": sorted(CHECKS), "kind_free_text": "Python orchestrator: build, proof gate, correspondence diff, oracles, evidence"},
        ],
        "checks": [],
        "not_applicable": [{"property_id": k, "reason": v} for k, v in sorted(PENDING.items()) if k not in CHECKS],
        "notes": "All checks: ./check <id> <quick|thorough>; replay: ./check replay <file>. See DESIGN.md.",
    }
    for pid, (tech, ref) in sorted(CHECKS.items()):
        m["checks"].append({
            "property_id": pid,
            "quick_cmd": "./check %s quick" % pid,
            "thorough_cmd": "./check %s thorough" % pid,
            "evidence_file": "/verif/evidence/%s.json" % pid,
            "replay_cmd_template": "./check replay {path}",
            "engine": "lean-model+dvh",
            "level_claimed": {"category": "proof",
                              "text": "Lean 4 theorems about an executable model, proved for all inputs/histories the property quantifies "
                                      "over; model tied to the code by a checked correspondence on every run. " + tech,
                              "design_ref": "DESIGN.md section " + ref},
            "level_note": LEVEL_NOTE,
            "technique": "Lean 4 proof: " + tech.split(";")[0],
        })
    with open(os.path.join(HERE, "MANIFEST.json"), "w") as f:
        json.dump(m, f, indent=1)
    print("MANIFEST.json: %d checks, %d not_applicable" % (len(m["checks"]), len(m["not_applicable"])))


if __name__ == "__main__":
    main()
