"""Generators for the `pure` correspondence streams (one op per line)."""
import itertools
from .common import hx, jl

PFX = b"projects/"
TOP = b"/topics/"
SUB = b"/subscriptions/"


def _strings(alpha, maxlen):
    out = [b""]
    for n in range(1, maxlen + 1):
        for t in itertools.product(alpha, repeat=n):
            out.append(b"".join(t))
    return out


def names(rng, tier):
    """C18/C17: exhaustive small space around the two fixed segments + mutations + random."""
    alpha = [b"a", b"/", b"-", "é".encode(), b"s"]
    L = 2 if tier == "quick" else 3
    xs = _strings(alpha, L)
    cands = []
    for mid in (TOP, SUB):
        for x in xs:
            for y in xs:
                cands.append(PFX + x + mid + y)
    # truncations and one-byte substitutions of the fixed parts
    base = [PFX + b"p" + TOP + b"t", PFX + b"p" + SUB + b"s", PFX + b"pr-1" + TOP + b"a/b", PFX + "é".encode() + SUB + "é/".encode()]
    for b in base:
        for i in range(len(b) + 1):
            cands.append(b[:i])
            cands.append(b[i:])
        for i in range(len(b)):
            for c in (b"/", b"x", b"S", b"T", b" "):
                cands.append(b[:i] + c + b[i + 1:])
                cands.append(b[:i] + c + b[i:])
            cands.append(b[:i] + b[i + 1:])
    # known near-misses
    cands += [b"projects/p/topics", b"projects/p/topics/", b"projects/p/subscriptions/", b"projects//topics/x",
              b"projects/p/topics//", b"projects/p/topics///x///", b"projects/p/subscriptions/x",
              b"projects/p/topics/abcdefghi", b"projects/p/topic/abcdefgh", b"projects/p/topicsX/abc",
              b"projects/p/subscriptionsX/abc", b"projects/lets-go/topics/deltio", b"projects/p//topics/t",
              b"projects/p/q/topics/t", b"Projects/p/topics/t", b" projects/p/topics/t", b"projects/p/topics/t ",
              "projects/p/topics/\U0001F600".encode(), "projects/\U0001F600/subscriptions/x".encode(),
              b"projects/p/topics/" + b"x" * 300, b"projects/" + b"p" * 300 + b"/topics/x"]
    # long malformed (and well-formed) values made of multi-byte characters, behind prefixes of both parities
    for ch in ("é", "日", "\U0001D11E"):
        for pre in (b"", b"x", b"projects/p/topic/", b"projects/p/topicz/", b"project/p", b"projects/p/topics/", b"projects/p/subscriptions/"):
            for n in (90, 129, 300):
                cands.append(pre + (ch * n).encode())
    # random longer strings
    pieces = [b"projects/", b"/topics/", b"/subscriptions/", b"/", b"a", b"b-c", "ü".encode(), "\U0001F600".encode(), b"topics", b"subscriptions", b"p", b"0"]
    n_rand = 300 if tier == "quick" else 20000
    for _ in range(n_rand):
        k = rng.range(1, 7)
        cands.append(b"".join(rng.choice(pieces) for _ in range(k)))
    seen = set()
    lines = []
    for c in cands:
        if c in seen:
            continue
        seen.add(c)
        lines.append("topic.parse " + hx(c))
        lines.append("sub.parse " + hx(c))
        if len(seen) % 7 == 0:
            lines.append("topic.parse.api " + hx(c))
            lines.append("sub.parse.api " + hx(c))
            lines.append("project.parse " + hx(c))
    # map-key identity: names that differ in project or id are different keys, also when the
    # concatenation project ++ id is the same string split elsewhere
    parts = [b"a", b"b", b"ab", b"c", b"bc", b"abc", b"p1", b"p", b"1t", b"t", "é".encode(), b"x-y", b"x", b"-y"]
    for kind, mid in (("t", TOP), ("s", SUB)):
        for _ in range(120 if tier == "quick" else 1500):
            p1, i1, p2, i2 = rng.choice(parts), rng.choice(parts), rng.choice(parts), rng.choice(parts)
            if rng.chance(1, 2):
                # force a concatenation collision: split one string at two places
                w = rng.choice([b"abc", b"p1t1", b"abcd", b"xyzw", "aéb".encode("utf8")])
                k1, k2 = rng.range(1, len(w) - 1), rng.range(1, len(w) - 1)
                p1, i1, p2, i2 = w[:k1], w[k1:], w[:k2], w[k2:]
            lines.append("name.eq %s %s %s" % (kind, hx(PFX + p1 + mid + i1), hx(PFX + p2 + mid + i2)))
    return lines


B64 = b"ABCDEFGHIJKLMNOPQRSTUVWXYZabcdefghijklmnopqrstuvwxyz0123456789+/"


def _b64_8(n):
    import base64
    return base64.b64encode(n.to_bytes(8, "little"))


def tokens(rng, tier):
    """C13/C17: page tokens and paging parameters."""
    lines = []
    offs = [0, 1, 2, 19, 20, 21, 255, 256, 999, 1000, 1001, 65535, 65536, 2 ** 31 - 1, 2 ** 31, 2 ** 32, 2 ** 63 - 1, 2 ** 63,
            2 ** 64 - 1000, 2 ** 64 - 2, 2 ** 64 - 1]
    for _ in range(20 if tier == "quick" else 500):
        offs.append(rng.below(2 ** 64))
    toks = []
    for n in offs:
        lines.append("token.encode %d" % n)
        toks.append(_b64_8(n))
    muts = []
    repl = [b"A", b"B", b"=", b"-", b"_", b" ", b"/", b"+", b"z", b"9", b"\n", "é".encode()]
    for t in toks[:8] + toks[-6:]:
        muts.append(t)
        for i in range(len(t)):
            for r in repl:
                muts.append(t[:i] + r + t[i + 1:])
            muts.append(t[:i] + t[i + 1:])
            muts.append(t[:i] + b"A" + t[i:])
    muts += [b"", b"=", b"==", b"====", b"A", b"AA==", b"AAA=", b"AAAA", b"AAAAAAAAAAA", b"AAAAAAAAAAA=", b"AAAAAAAAAAAA",
             b"AAAAAAAAAAAAAAAA", b"AAAAAAAAAAE=", b"AAAAAAAAAAB=", b"AAAAAAAAAAC=", b"AAAAAAAAAAD=", b"AQAAAAAAAAA",
             b"AQAAAAAAAAA==", b"AQAAAAAAAAA=\n", b" AQAAAAAAAAA=", b"AQAAAAAA AAA=", b"AQAAAAAAAAAAAA==", b"AQAAAAAAAAAA",
             b"AQAAAAAAAA==", b"!!!!", "\U0001F600".encode()]
    for _ in range(100 if tier == "quick" else 5000):
        k = rng.choice([0, 4, 8, 11, 12, 12, 12, 13, 16])
        s = bytes(rng.choice(B64 + b"==") for _ in range(k))
        muts.append(s)
    for m in muts:
        lines.append("token.decode " + hx(m))
    sizes = [-2 ** 31, -2, -1, 0, 1, 2, 19, 20, 21, 999, 1000, 1001, 9999, 10000, 10001, 2 ** 31 - 1]
    for sz in sizes:
        for t in [b"", toks[1], toks[5], b"x", b"AAAA", toks[-1]]:
            lines.append("paging %d %s" % (sz, hx(t)))
    for _ in range(100 if tier == "quick" else 3000):
        lines.append("paging %d %s" % (rng.choice(sizes + [rng.range(-5, 1100)]), hx(rng.choice(muts))))
    # page <n> <size> <off|none>
    ns = [0, 1, 2, 19, 20, 21, 40, 45]
    usz = [0, 1, 2, 19, 20, 21, 44, 45, 46, 999, 1000, 1001, 5000]
    for n in ns:
        for sz in usz:
            for off in ["none", 0, 1, n - 1 if n > 0 else 0, n, n + 1, 10 ** 6, 2 ** 64 - 1, 2 ** 64 - 5]:
                lines.append("page %d %d %s" % (n, sz, off))
    if tier != "quick":
        for n in (1000, 1001, 2100):
            for sz in usz:
                for off in ["none", 0, 999, 1000, 1001, 2000, 2099, 2100, 2101]:
                    lines.append("page %d %d %s" % (n, sz, off))
    return lines


def ext(rng, tier):
    """C05/C17: seconds parsing and deadline-modification lists."""
    lines = []
    vals = [-2 ** 31, -2 ** 31 + 1, -1000, -2, -1, 0, 1, 2, 9, 10, 11, 59, 60, 598, 599, 600, 601, 602, 3600, 65535, 65536, 2 ** 31 - 2, 2 ** 31 - 1]
    for _ in range(200 if tier == "quick" else 10000):
        vals.append(rng.range(-2 ** 31, 2 ** 31 - 1))
        vals.append(rng.range(-5, 700))
    for v in vals:
        lines.append("ext.parse %d" % v)
    ids_pool = [b"1", b"2", b"17", b"+3", b"007", b"18446744073709551615", b"18446744073709551616", b"", b"-1", b"x", b"1 ", b" 1", b"1.0",
                "١".encode(), b"99999999999999999999999", b"+", b"0"]
    for _ in range(300 if tier == "quick" else 10000):
        k = rng.range(0, 5)
        ids = [rng.choice(ids_pool[:6] if rng.chance(3, 4) else ids_pool) for _ in range(k)]
        k2 = k if rng.chance(4, 5) else rng.range(0, 5)
        secs = [rng.choice([0, 1, 10, 599, 600, 601, -1, 30, 2 ** 31 - 1]) if rng.chance(1, 2) else rng.range(0, 700) for _ in range(k2)]
        now = rng.choice([0, 1, 99999, 100000, 123456, 10 ** 9 + 77, rng.below(10 ** 10)])
        lines.append("mods %d %s %s" % (now, jl(hx(i) for i in ids), jl(str(s) for s in secs)))
    return lines


def rounds(rng, tier):
    """C04: AckDeadline rounding at every phase of the grid."""
    lines = []
    step = 1000 if tier == "quick" else 100
    for t in range(0, 200001, step):
        lines.append("round %d" % t)
    for _ in range(500 if tier == "quick" else 20000):
        lines.append("round %d" % rng.below(10 ** 12))
    for t in (0, 1, 49999, 50000, 50001, 99999, 100000, 100001, 10 ** 7, 10 ** 7 + 30000, 10 ** 7 + 99999, 2 ** 40):
        lines.append("round %d" % t)
    return lines


def ackids(rng, tier):
    """C17/C02: ack id parsing."""
    pool = [b"", b"0", b"1", b"42", b"+42", b"-42", b"++1", b"+", b"-", b"00000000000000000000000001", b"18446744073709551615",
            b"18446744073709551616", b"18446744073709551617", b"99999999999999999999", b"1e3", b"0x10", b" 1", b"1 ", b"1\n", b"1_000",
            b"1,2", "١٢".encode(), "1é".encode(), b"abc", b"projects/p/subscriptions/s", b"9" * 40, b"+0", b"-0", b"+18446744073709551615"]
    pool += [(ch * n).encode() for ch in ("é", "日", "\U0001D11E") for n in (90, 129, 300)] + [b"1" + ("é" * 200).encode()]
    lines = ["ackid.parse " + hx(p) for p in pool]
    chars = b"0123456789+- x"
    for _ in range(300 if tier == "quick" else 20000):
        k = rng.range(0, 22)
        s = bytes(rng.choice(chars[:11] if rng.chance(5, 6) else chars) for _ in range(k))
        lines.append("ackid.parse " + hx(s))
    return lines


def tracker(rng, tier):
    """C02/C03/C04/C05: direct operation sequences on OutstandingMessageTracker."""
    lines = []
    n_cases = 300 if tier == "quick" else 20000
    for c in range(n_cases):
        ops = []
        next_ack = 1
        live = []
        t = rng.choice([0, 50000, 1000000, rng.below(10 ** 7)])
        k = rng.range(1, 14 if tier == "quick" else 30)
        for _ in range(k):
            kind = rng.weighted([("add", 5), ("rm", 2), ("mod", 3), ("exp", 3), ("clear", 1 if rng.chance(1, 8) else 0)])
            if kind == "add":
                # ack ids are always fresh (the actor's counter); re-adding a live id makes the
                # real tracker inconsistent and its unwrap_unchecked aborts the process
                a = next_ack
                next_ack += 1
                live.append(a)
                dl = t + rng.choice([10 ** 7, 10 ** 7 + rng.below(300000), rng.below(2 * 10 ** 7), 10 ** 7])
                ops.append("add:%d:%d:%d" % (a, 1000 + a, dl))
            elif kind == "rm":
                ids = [rng.choice(live) if live and rng.chance(4, 5) else rng.range(1, next_ack + 3) for _ in range(rng.range(0, 4))]
                ops.append("rm:" + jl(str(i) for i in ids))
            elif kind == "mod":
                mods = []
                for _ in range(rng.range(0, 4)):
                    a = rng.choice(live) if live and rng.chance(4, 5) else rng.range(1, next_ack + 3)
                    if rng.chance(1, 3):
                        mods.append("%d=n" % a)
                    else:
                        mods.append("%d=%d" % (a, t + rng.below(2 * 10 ** 7)))
                ops.append("mod:" + jl(mods))
            elif kind == "exp":
                t += rng.choice([0, 1000, 100000, 5 * 10 ** 6, 10 ** 7, 10 ** 7 + 100000, rng.below(2 * 10 ** 7)])
                ops.append("exp:%d" % t)
            else:
                ops.append("clear")
        lines.append("tracker " + " ".join(ops))
    return lines


def flow(rng, tier):
    """C19: FlowControl counters at call granularity (single thread)."""
    lines = []
    for _ in range(200 if tier == "quick" else 5000):
        mb = rng.choice([0, 1, 16, 100, 2 ** 64 - 1])
        mm = rng.choice([0, 1, 5, 100, 2 ** 64 - 1])
        ops = []
        b = m = 0
        for _ in range(rng.range(1, 12)):
            if rng.chance(3, 5) or (b == 0 and m == 0):
                db, dm = rng.choice([0, 1, 8, 16, 17]), rng.choice([0, 1, 2, 5])
                b += db
                m += dm
                ops.append("inc:%d:%d" % (db, dm))
            else:
                db, dm = rng.range(0, b), rng.range(0, m)
                if rng.chance(1, 30):
                    db += 1  # wraps below zero
                    b += 2 ** 64
                b -= db
                m -= dm
                ops.append("dec:%d:%d" % (db, dm))
        lines.append("flow %d %d %s" % (mb, mm, " ".join(ops)))
    # the start of a wait racing a capacity-freeing dec on a second thread
    lines.append("flow.race %d" % (300000 if tier == "quick" else 10000000))
    return lines


def flowq(rng, tier):
    """C19: wait_for_available_space futures polled by hand against inc/dec at call granularity:
    all orders of up to 6 operations with up to 3 waiters exhaustively (thorough), random longer."""
    lines = []
    import itertools
    alpha = ["inc:8:1", "dec:8:1", "new", "poll:0", "poll:1", "drop:0"]
    L = 4 if tier == "quick" else 6
    for n in range(1, L + 1):
        for seq in itertools.product(alpha, repeat=n):
            lines.append("flowq 16 2 " + " ".join(seq))
            if tier == "quick" and len(lines) > 1500:
                break
    for _ in range(300 if tier == "quick" else 20000):
        mb = rng.choice([1, 16, 100])
        mm = rng.choice([1, 2, 5])
        ops = []
        nw = 0
        b = m = 0
        for _ in range(rng.range(3, 16)):
            c = rng.below(10)
            if c < 3:
                db, dm = rng.choice([0, 1, 8, 16]), rng.choice([0, 1, 2])
                b += db
                m += dm
                ops.append("inc:%d:%d" % (db, dm))
            elif c < 5 and (b or m):
                db, dm = rng.range(0, b), rng.range(0, m)
                b -= db
                m -= dm
                ops.append("dec:%d:%d" % (db, dm))
            elif c < 7 and nw < 4:
                ops.append("new")
                nw += 1
            elif nw:
                ops.append(("poll:%d" if rng.chance(5, 6) else "drop:%d") % rng.below(nw))
        lines.append("flowq %d %d %s" % (mb, mm, " ".join(ops)))
    # structured: fill up to a limit, park 2..4 waiters, then a random tail of capacity changes, polls and
    # drops — the situations in which several waiters depend on one another's wake-ups
    for _ in range(500 if tier == "quick" else 20000):
        mm = rng.choice([1, 2, 3])
        nw = rng.range(2, 4)
        ops = ["inc:1:1"] * mm + ["new"] * nw + ["poll:%d" % i for i in range(nw)]
        m = mm
        alive = list(range(nw))
        for _ in range(rng.range(2, 9)):
            c = rng.below(10)
            if c < 3 and m > 0:
                k = rng.range(1, m)
                m -= k
                ops.append("dec:%d:%d" % (k, k))
            elif c < 5:
                m += 1
                ops.append("inc:1:1")
            elif c < 9 and alive:
                ops.append("poll:%d" % rng.choice(alive))
            elif len(alive) > 1:
                w = rng.choice(alive)
                alive.remove(w)
                ops.append("drop:%d" % w)
        # finally free everything and poll every waiter that is left: all of them must be released
        if m:
            ops.append("dec:%d:%d" % (m, m))
        ops += ["poll:%d" % i for i in alive]
        lines.append("flowq 1000000 %d %s" % (mm, " ".join(ops)))
    return lines


def pushtable(rng, tier):
    """C14: the model's accepted-status table (compared with what the real HTTP path shows)."""
    return ["push.accepts %d" % st for st in range(100, 600)]
