"""Shared plumbing: builds, running harness/driver, splitmix PRNG, hex helpers."""
import fcntl, hashlib, json, os, subprocess, sys, time

VERIF = os.path.dirname(os.path.dirname(os.path.abspath(__file__)))
REPO = os.environ.get("VERIF_REPO", "/repo")
CACHE = os.path.join(VERIF, ".cache")
LEAN = os.path.join(VERIF, "lean")
HARNESS = os.path.join(VERIF, "harness")
DVH = os.path.join(CACHE, "target", "debug", "dvh")
DRIVER = os.path.join(LEAN, ".lake", "build", "bin", "driver")
ENV = dict(os.environ, CARGO_NET_OFFLINE="true")


class Rng:
    """splitmix64; every random choice of a run derives from one state."""

    def __init__(self, seed):
        self.s = seed & 0xFFFFFFFFFFFFFFFF

    def next(self):
        self.s = (self.s + 0x9E3779B97F4A7C15) & 0xFFFFFFFFFFFFFFFF
        z = self.s
        z = ((z ^ (z >> 30)) * 0xBF58476D1CE4E5B9) & 0xFFFFFFFFFFFFFFFF
        z = ((z ^ (z >> 27)) * 0x94D049BB133111EB) & 0xFFFFFFFFFFFFFFFF
        return z ^ (z >> 31)

    def below(self, n):
        return self.next() % n

    def range(self, a, b):
        return a + self.below(b - a + 1)

    def choice(self, xs):
        return xs[self.below(len(xs))]

    def chance(self, num, den):
        return self.below(den) < num

    def fork(self, tag):
        h = hashlib.sha256(("%d/%s" % (self.s, tag)).encode()).digest()
        return Rng(int.from_bytes(h[:8], "little"))

    def weighted(self, pairs):
        tot = sum(w for _, w in pairs)
        r = self.below(tot)
        for x, w in pairs:
            if r < w:
                return x
            r -= w
        return pairs[-1][0]


def hx(b):
    if isinstance(b, str):
        b = b.encode()
    return b.hex() if b else "-"


def unhx(s):
    return b"" if s == "-" else bytes.fromhex(s)


def jl(items, sep=","):
    items = list(items)
    return sep.join(items) if items else "-"


def sl(s, sep=","):
    return [] if s in ("-", "") else s.split(sep)


def tree_hash():
    """Hash of everything the harness binary depends on."""
    h = hashlib.sha256()
    roots = [os.path.join(REPO, "src"), os.path.join(REPO, "proto"), os.path.join(HARNESS, "src")]
    files = [os.path.join(REPO, f) for f in ("Cargo.toml", "Cargo.lock", "build.rs")]
    files += [os.path.join(HARNESS, "Cargo.toml"), os.path.join(HARNESS, ".cargo", "config.toml")]
    for r in roots:
        for d, _, fs in sorted(os.walk(r)):
            for f in sorted(fs):
                files.append(os.path.join(d, f))
    for f in files:
        try:
            with open(f, "rb") as fh:
                h.update(f.encode())
                h.update(fh.read())
        except OSError:
            h.update(b"missing:" + f.encode())
    return h.hexdigest()


class BuildError(Exception):
    pass


def build_harness(log):
    """cargo build of the harness against /repo's current working tree (hooks on)."""
    os.makedirs(CACHE, exist_ok=True)
    with open(os.path.join(CACHE, "build.lock"), "w") as lock:
        fcntl.flock(lock, fcntl.LOCK_EX)
        want = tree_hash()
        stamp = os.path.join(CACHE, "harness.stamp")
        if os.path.exists(DVH) and os.path.exists(stamp) and open(stamp).read() == want:
            return "cached"
        t0 = time.time()
        subprocess.run(["cp", os.path.join(REPO, "Cargo.lock"), os.path.join(HARNESS, "Cargo.lock")], check=True)
        p = subprocess.run(["cargo", "build", "--offline"], cwd=HARNESS, env=ENV,
                           stdout=subprocess.PIPE, stderr=subprocess.STDOUT, text=True)
        if p.returncode != 0:
            log(p.stdout[-4000:])
            raise BuildError("cargo build of the harness failed")
        with open(stamp, "w") as f:
            f.write(want)
        return "built in %.1fs" % (time.time() - t0)


def build_lean(targets, log):
    os.makedirs(CACHE, exist_ok=True)
    with open(os.path.join(CACHE, "lean.lock"), "w") as lock:
        fcntl.flock(lock, fcntl.LOCK_EX)
        p = subprocess.run(["lake", "build"] + targets, cwd=LEAN, stdout=subprocess.PIPE,
                           stderr=subprocess.STDOUT, text=True)
        return p.returncode, p.stdout


LAST_TRACE = []


def run_impl(mode, ops_text, seed=1, timeout=3600):
    """Returns (answer lines, side lines, crashed?). The actor-turn log of a seq run is left in LAST_TRACE."""
    os.makedirs(os.path.join(CACHE, "tmp"), exist_ok=True)
    side = os.path.join(CACHE, "tmp", "side.%d.%d.%d" % (os.getpid(), time.time_ns(), id(ops_text) % 100000))
    env = dict(ENV, VERIF_SEED=str(seed))
    p = subprocess.run([DVH, mode, "-", side, side + ".trace"], input=ops_text, env=env, stdout=subprocess.PIPE,
                       stderr=subprocess.PIPE, text=True, timeout=timeout)
    del LAST_TRACE[:]
    if os.path.exists(side + ".trace"):
        LAST_TRACE.extend(l for l in open(side + ".trace").read().split("\n") if l)
        os.unlink(side + ".trace")
    out = p.stdout.split("\n")
    if out and out[-1] == "":
        out.pop()
    sides = []
    if os.path.exists(side):
        sides = open(side).read().split("\n")
        os.unlink(side)
    return out, sides, p.returncode != 0, p.stderr[-2000:]


def run_model(mode, ops_text, timeout=3600):
    p = subprocess.run([DRIVER, mode], input=ops_text, stdout=subprocess.PIPE, stderr=subprocess.PIPE,
                       text=True, timeout=timeout)
    out = p.stdout.split("\n")
    if out and out[-1] == "":
        out.pop()
    return out, p.returncode != 0, p.stderr[-2000:]


def run_impl_resilient(mode, lines, seed=1):
    """Like run_impl but survives aborts of the harness process: the line (pure) or case (seq)
    that killed it is answered `ABORT` and the rest is re-run in a fresh process."""
    answers, sides = [], []
    start = 0
    aborts = 0
    while start < len(lines):
        chunk = lines[start:]
        out, sd, crashed, err = run_impl(mode, "\n".join(chunk) + "\n", seed)
        if not crashed and len(out) >= len(chunk):
            answers += out[:len(chunk)]
            sides += (sd + [""] * len(chunk))[:len(chunk)]
            break
        aborts += 1
        # the harness prints everything at the end; on a crash nothing was printed, so bisect by
        # re-running growing prefixes is too slow: run line by line (pure) / case by case (seq)
        if mode == "pure":
            units = [[l] for l in chunk]
        else:
            units, cur = [], []
            for l in chunk:
                if l.strip() == "new" and cur:
                    units.append(cur)
                    cur = []
                cur.append(l)
            if cur:
                units.append(cur)
        for u in units:
            out, sd, crashed, err = run_impl(mode, "\n".join(u) + "\n", seed)
            if crashed or len(out) < len(u):
                out = (out + ["ABORT"] * len(u))[:len(u)]
            answers += out[:len(u)]
            sides += (sd + [""] * len(u))[:len(u)]
        break
    return answers, sides, aborts


def run_impl_conc(lines, seed=1, timeout=3600):
    """conc mode: returns (answers, sides, trace lines, crashed?)."""
    os.makedirs(os.path.join(CACHE, "tmp"), exist_ok=True)
    base = os.path.join(CACHE, "tmp", "conc.%d.%d" % (os.getpid(), time.time_ns()))
    env = dict(ENV, VERIF_SEED=str(seed))
    p = subprocess.run([DVH, "conc", "-", base + ".side", base + ".trace"], input="\n".join(lines) + "\n", env=env,
                       stdout=subprocess.PIPE, stderr=subprocess.PIPE, text=True, timeout=timeout)
    out = p.stdout.split("\n")
    if out and out[-1] == "":
        out.pop()
    sides, trace = [], []
    if os.path.exists(base + ".side"):
        sides = open(base + ".side").read().split("\n")
        os.unlink(base + ".side")
    if os.path.exists(base + ".trace"):
        trace = [l for l in open(base + ".trace").read().split("\n") if l]
        os.unlink(base + ".trace")
    n = len(lines)
    out = (out + ["ABORT"] * n)[:n]
    sides = (sides + [""] * n)[:n]
    return out, sides, trace, p.returncode != 0
