"""Proof gate: build the property's theorem module, audit axioms and forbidden tokens."""
import os, re, subprocess, time
from .common import LEAN, CACHE, build_lean

ALLOWED_AXIOMS = {"propext", "Classical.choice", "Quot.sound"}
FORBIDDEN = [r"\bsorry\b", r"\badmit\b", r"^\s*axiom\s", r"\bnative_decide\b", r"\bbv_decide\b", r"implemented_by",
             r"\bunsafe\s", r"maxHeartbeats\s+0\b"]


def strip_comments(src):
    """Remove `--` line comments and (nested) `/- -/` block comments."""
    out, i, depth = [], 0, 0
    n = len(src)
    while i < n:
        if src.startswith("/-", i):
            depth += 1
            i += 2
        elif depth > 0 and src.startswith("-/", i):
            depth -= 1
            i += 2
        elif depth > 0:
            if src[i] == "\n":
                out.append("\n")
            i += 1
        elif src.startswith("--", i):
            while i < n and src[i] != "\n":
                i += 1
        else:
            out.append(src[i])
            i += 1
    return "".join(out)


def forbidden_hits():
    hits = []
    for d, _, fs in os.walk(os.path.join(LEAN, "Deltio")):
        for f in fs:
            if not f.endswith(".lean"):
                continue
            p = os.path.join(d, f)
            code = strip_comments(open(p).read())
            for ln, line in enumerate(code.split("\n"), 1):
                for pat in FORBIDDEN:
                    if re.search(pat, line):
                        hits.append("%s:%d: %s" % (os.path.relpath(p, LEAN), ln, line.strip()[:100]))
    return hits


def theorem_names(module):
    path = os.path.join(LEAN, module.replace(".", "/") + ".lean")
    code = strip_comments(open(path).read())
    return re.findall(r"^theorem\s+([A-Za-z0-9_'.?!]+)", code, re.M)


def gate(module, thorough, log):
    """Returns dict(ok, obligations, discharged, axioms{thm: [..]}, failures[..], cmd)."""
    t0 = time.time()
    res = {"ok": True, "obligations": 0, "discharged": 0, "axioms": {}, "failures": [], "theorems": []}
    rc, out = build_lean([module, "driver"], log)
    names = theorem_names(module)
    res["theorems"] = names
    res["obligations"] = len(names)
    res["cmd"] = "cd lean && lake build %s driver && lake env lean <audit: #print axioms for %d theorems>" % (module, len(names))
    if rc != 0:
        res["ok"] = False
        errs = [l for l in out.split("\n") if "error" in l][:10]
        res["failures"].append("lake build %s failed: %s" % (module, " | ".join(errs)))
        return res
    hits = forbidden_hits()
    if hits:
        res["ok"] = False
        res["failures"].append("forbidden tokens: " + "; ".join(hits[:5]))
    os.makedirs(os.path.join(CACHE, "tmp"), exist_ok=True)
    audit = os.path.join(CACHE, "tmp", "Audit_%s_%d.lean" % (module.split(".")[-1], os.getpid()))
    with open(audit, "w") as f:
        f.write("import %s\nopen Deltio\n" % module)
        for n in names:
            f.write("#print axioms Deltio.%s\n" % n)
    p = subprocess.run(["lake", "env", "lean", audit], cwd=LEAN, stdout=subprocess.PIPE, stderr=subprocess.STDOUT, text=True)
    os.unlink(audit)
    txt = p.stdout.replace("\n  ", " ")
    for n in names:
        m = re.search(r"'Deltio\.%s' (does not depend on any axioms|depends on axioms: \[([^\]]*)\])" % re.escape(n), txt)
        if not m:
            res["ok"] = False
            res["failures"].append("no axiom report for %s" % n)
            continue
        ax = [a.strip() for a in (m.group(2) or "").split(",") if a.strip()]
        res["axioms"][n] = ax
        bad = [a for a in ax if a not in ALLOWED_AXIOMS]
        if bad:
            res["ok"] = False
            res["failures"].append("%s depends on %s" % (n, bad))
        else:
            res["discharged"] += 1
    if thorough:
        p = subprocess.run(["lake", "env", "leanchecker", module], cwd=LEAN, stdout=subprocess.PIPE, stderr=subprocess.STDOUT, text=True)
        res["leanchecker_rc"] = p.returncode
        res["cmd"] += " && lake env leanchecker %s" % module
        if p.returncode != 0:
            res["ok"] = False
            res["failures"].append("leanchecker: " + p.stdout[-300:])
    res["wall_s"] = round(time.time() - t0, 2)
    return res
