"""Generators for `conc` scenarios: sequential setup, concurrent client tasks, sequential epilogue.

Line format (harness/src/conc.rs): `new cap=<n> yield=<seed>`, setup ops, then `task <name>` blocks,
`go` (runs all tasks to completion under the seeded schedule), epilogue ops.
"""
from .common import hx, jl
from .gen_seq import tname, sname


def _payload(rng, tag):
    return hx(("%s-%d" % (tag, rng.below(10 ** 6))).encode())


class ConcGen:
    def __init__(self, rng, caps=(1, 2, 16)):
        self.rng = rng
        self.lines = ["new cap=%d yield=%d" % (rng.choice(list(caps)), rng.range(0, 2 ** 32) if rng.chance(4, 5) else 0)]
        self.topics = []
        self.subs = {}     # name -> (topic, ackdl)

    def emit(self, l):
        self.lines.append(l)

    def setup(self, n_topics, n_subs, dls=(10, 10, 11, 30)):
        for i in range(n_topics):
            t = tname("p", "t%d" % i)
            self.topics.append(t)
            self.emit("ctopic " + hx(t))
        for i in range(n_subs):
            s = sname("p", "s%d" % i)
            t = self.rng.choice(self.topics)
            dl = self.rng.choice(list(dls))
            self.subs[s] = (t, dl)
            self.emit("csub %s %s %d -" % (hx(s), hx(t), dl))

    def pause(self):
        r = self.rng
        c = r.below(6)
        if c == 0:
            self.emit("sleep %d" % r.choice([1000, 50000, 1000000, 9999000, 10000000, 10100000, 10200000]))
        elif c == 1:
            self.emit("yield %d" % r.range(1, 6))

    def acks(self, k):
        r = self.rng
        return jl(hx(str(r.range(1, 12))) for _ in range(k))

    def epilogue(self, drain=True):
        for s in sorted(self.subs):
            self.emit("stats " + hx(s))
        for t in self.topics:
            self.emit("wtsubs %s 1000" % hx(t))
        if drain and self.subs:
            longest = max([600] + [dl for (_, dl) in self.subs.values()])
            self.emit("# drain")
            self.emit("adv %d" % ((longest + 101) * 10 ** 6))
            for s in sorted(self.subs):
                self.emit("pull %s 1000 1" % hx(s))
                self.emit("pull %s 1000 1" % hx(s))
                self.emit("stats " + hx(s))


def mix(rng):
    """Publishers, unary and streaming consumers, ackers, nackers on shared subscriptions."""
    g = ConcGen(rng)
    g.setup(rng.range(1, 2), rng.range(1, 3))
    subs = sorted(g.subs)
    k = 1
    for ti in range(rng.range(2, 6)):
        g.emit("task t%d" % ti)
        role = rng.weighted([("pub", 4), ("pull", 4), ("stream", 2), ("ack", 2), ("mod", 2), ("probe", 1)])
        for _ in range(rng.range(1, 5)):
            g.pause()
            s = rng.choice(subs)
            if role == "pub":
                t = rng.choice(g.topics)
                g.emit("pub %s %s" % (hx(t), jl(_payload(rng, "m") for _ in range(rng.choice([1, 1, 2, 3, 5])))))
            elif role == "pull":
                g.emit("pull %s %d %d" % (hx(s), rng.choice([1, 1, 2, 10, 1000]), rng.choice([0, 0, 1])))
            elif role == "stream":
                g.emit("sopen %d %s %d 0" % (k, hx(s), rng.choice([0, 1, 2, 10])))
                g.emit("sleep %d" % rng.choice([1000, 1000000, 10100000]))
                g.emit("sread %d" % k)
                if rng.chance(1, 2):
                    g.emit("ssend %d - %s - - 0 0" % (k, g.acks(rng.range(1, 3))))
                    g.emit("sleep 1000")
                    g.emit("sread %d" % k)
                g.emit("sdrop %d" % k)
                k += 1
                break
            elif role == "ack":
                g.emit("ack %s %s" % (hx(s), g.acks(rng.range(1, 3))))
            elif role == "mod":
                g.emit("mod %s %d %s" % (hx(s), rng.choice([0, 0, 1, 10, 30]), g.acks(rng.range(1, 3))))
            else:
                g.emit("sleep %d" % rng.choice([1000, 2000, 10200000]))
                g.emit("probe " + hx(s))
    g.emit("go")
    g.epilogue()
    return g.lines


def wake(rng):
    """C06: consumers are parked first; messages become available later (publish, nack, expiry);
    a probe task observes the subscription at quiescent instants."""
    g = ConcGen(rng)
    g.setup(1, 1, dls=(10,))
    s = sorted(g.subs)[0]
    t = g.topics[0]
    n_cons = rng.range(1, 4)
    k = 1
    pre = rng.choice([0, 0, 1, 2])
    if pre:
        g.emit("pub %s %s" % (hx(t), jl(_payload(rng, "pre") for _ in range(pre))))
        g.emit("pull %s %d 1" % (hx(s), pre))          # leased now; expires at +10 s
    for c in range(n_cons):
        g.emit("task c%d" % c)
        if rng.chance(2, 3):
            g.emit("pull %s %d 0" % (hx(s), rng.choice([1, 1, 2, 10])))
            if rng.chance(1, 3):
                g.emit("pull %s %d 0" % (hx(s), rng.choice([1, 2])))
        else:
            g.emit("sopen %d %s %d 0" % (k, hx(s), rng.choice([1, 2, 10])))
            g.emit("sleep %d" % rng.choice([2000000, 11000000, 21000000]))
            g.emit("sread %d" % k)
            g.emit("sdrop %d" % k)
            k += 1
    g.emit("task producer")
    for _ in range(rng.range(1, 3)):
        if rng.chance(1, 3):
            g.emit("yield %d" % rng.range(0, 4))       # race with the consumers' check-then-wait step
        else:
            g.emit("sleep %d" % rng.choice([1000, 500000, 1000000, 3000000]))
        kind = rng.below(4)
        if kind <= 1:
            g.emit("pub %s %s" % (hx(t), jl(_payload(rng, "m") for _ in range(rng.choice([1, 2, 3, 6])))))
        elif kind == 2 and pre:
            g.emit("mod %s 0 %s" % (hx(s), jl(hx(str(i + 1)) for i in range(pre))))
        else:
            g.emit("pub %s %s" % (hx(t), _payload(rng, "one")))
    g.emit("task probe")
    for d in sorted(rng.choice([1000, 501000, 1001000, 3001000, 10201000, 10301000]) for _ in range(rng.range(2, 4))):
        g.emit("sleep %d" % d)
        g.emit("probe " + hx(s))
    g.emit("go")
    g.epilogue()
    return g.lines


def delete(rng):
    """C12: DeleteSubscription against open streams (request half open or closed), blocked pulls
    and in-flight ack / modify / pull requests."""
    g = ConcGen(rng, caps=(1, 1, 2, 4, 16))
    g.setup(1, 1, dls=(10,))
    s = sorted(g.subs)[0]
    t = g.topics[0]
    if rng.chance(1, 2):
        g.emit("pub %s %s" % (hx(t), jl(_payload(rng, "pre") for _ in range(rng.range(1, 3)))))
        if rng.chance(1, 2):
            g.emit("pull %s 10 1" % hx(s))
    topic_gone = rng.chance(1, 4)
    if topic_gone:
        g.emit("dtopic " + hx(t))        # the subscription outlives its topic, then is deleted
    k = 1
    for c in range(rng.range(1, 4)):
        g.emit("task w%d" % c)
        kind = rng.below(3)
        if kind == 0:
            g.emit("pull %s %d 0" % (hx(s), rng.choice([1, 10])))
        else:
            g.emit("sopen %d %s %d 0" % (k, hx(s), rng.choice([0, 1, 10])))
            if kind == 2:
                g.emit("sclose %d" % k)
            g.emit("sleep 5000000")
            g.emit("sread %d" % k)
            k += 1
    # a third of the cases: many requests at the very instant of the deletion, so that the
    # subscription's mailbox stays full while the deletion is in progress
    loaded = rng.chance(1, 3)
    for c in range(rng.range(4, 10) if loaded else rng.range(0, 3)):
        g.emit("task r%d" % c)
        g.emit("sleep %d" % (1000000 if loaded else rng.choice([999000, 1000000, 1000000, 1001000])))
        if loaded:
            if rng.chance(1, 2):
                g.emit("yield %d" % rng.range(1, 4))
        else:
            g.pause()
        op = rng.below(5)
        if op == 0:
            g.emit("ack %s %s" % (hx(s), g.acks(2)))
        elif op == 1:
            g.emit("mod %s %d %s" % (hx(s), rng.choice([0, 10]), g.acks(2)))
        elif op == 2:
            g.emit("pull %s 5 %d" % (hx(s), rng.choice([0, 1])))
        elif op == 3:
            g.emit("pub %s %s" % (hx(t), _payload(rng, "late")))
        else:
            g.emit("gsub " + hx(s))
    g.emit("task deleter")
    g.emit("sleep 1000000")
    g.pause()
    if rng.chance(1, 4):
        # the deleting caller gives up part-way; a retry follows
        g.emit("drop%d dsub %s" % (rng.range(0, 7), hx(s)))
        g.emit("dsub " + hx(s))
    else:
        g.emit("dsub " + hx(s))
    g.emit("go")
    g.subs = {}
    g.emit("gsub " + hx(s))
    g.emit("wtsubs %s 1000" % hx(t))
    return g.lines


def burst(rng):
    """C07: more concurrent requests than an actor mailbox holds, against one topic and one
    subscription, with publish and delete in the mix."""
    g = ConcGen(rng, caps=(1, 2, 4, 16))
    g.setup(1, rng.range(1, 2), dls=(10,))
    subs = sorted(g.subs)
    t = g.topics[0]
    n = rng.choice([6, 12, 24, 40, 70])
    with_delete = rng.chance(1, 2)
    for i in range(n):
        g.emit("task b%d" % i)
        s = rng.choice(subs)
        op = rng.weighted([("pub", 5), ("pull", 3), ("ack", 2), ("mod", 2), ("stats", 2), ("gsub", 2), ("ltsubs", 1), ("dsub", 1 if with_delete else 0)])
        if rng.chance(1, 4):
            g.emit("yield %d" % rng.range(1, 5))
        if op == "pub":
            g.emit("pub %s %s" % (hx(t), jl(_payload(rng, "b") for _ in range(rng.choice([1, 2])))))
        elif op == "pull":
            g.emit("pull %s %d 1" % (hx(s), rng.choice([1, 5])))
        elif op == "ack":
            g.emit("ack %s %s" % (hx(s), g.acks(2)))
        elif op == "mod":
            g.emit("mod %s %d %s" % (hx(s), rng.choice([0, 10]), g.acks(2)))
        elif op == "stats":
            g.emit("stats " + hx(s))
        elif op == "gsub":
            g.emit("gsub " + hx(s))
        elif op == "ltsubs":
            g.emit("ltsubs %s 1000 -" % hx(t))
        else:
            g.emit("dsub " + hx(s))
    if rng.chance(1, 3):
        # one request carrying tens of thousands of ack ids (none of them outstanding): it is still one request
        g.emit("task huge")
        ids = jl(hx(str(10 ** 6 + i)) for i in range(rng.choice([9000, 20000])))
        g.emit(("ack %s %s" if rng.chance(1, 2) else "mod %s 10 %s") % (hx(rng.choice(subs)), ids))
    g.emit("go")
    g.emit("pub %s %s" % (hx(t), _payload(rng, "after")))
    for s in subs:
        g.emit("gsub " + hx(s))
    g.emit("wtsubs %s 1000" % hx(t))
    return g.lines


def cancel(rng):
    """C16: every request kind abandoned after k polls of its handler future, under empty and
    saturated mailboxes (fillers keep the topic / subscription mailbox full)."""
    g = ConcGen(rng, caps=(1, 2, 16))
    g.setup(1, 2, dls=(10,))
    s = sorted(g.subs)[0]
    s_other = sorted(g.subs)[1]          # a second subscription of the topic that nobody saturates
    t = g.topics[0]
    s_new = sname("p", "fresh")
    g.emit("pub %s %s" % (hx(t), jl(_payload(rng, "pre") for _ in range(2))))
    n_fill = rng.choice([0, 0, 3, 20, 40])
    for i in range(n_fill):
        g.emit("task f%d" % i)
        g.emit(rng.choice(["ltsubs %s 1000 -" % hx(t), "stats " + hx(s), "gsub " + hx(s), "pub %s %s" % (hx(t), _payload(rng, "f"))]))
    g.emit("task victim")
    if rng.chance(1, 2):
        g.emit("yield %d" % rng.range(1, 4))
    k = rng.range(0, 8)
    big = False
    op = rng.weighted([("csub", 6), ("dsub", 2), ("pub", 3), ("pull", 3), ("ack", 1), ("mod", 1), ("dtopic", 1), ("gsub", 1)])
    if op == "csub":
        g.emit("drop%d csub %s %s 10 -" % (k, hx(s_new), hx(t)))
    elif op == "dsub":
        g.emit("drop%d dsub %s" % (k, hx(s)))
    elif op == "pub":
        if rng.chance(1, 3):
            # a big request: whatever the server does with it internally, it is one Publish
            big = True
            base = rng.below(10 ** 6)
            g.emit("drop%d pub %s %s" % (k, hx(t), jl(hx("v%d-%d" % (base, i)) for i in range(rng.choice([1001, 1500, 2500])))))
        else:
            g.emit("drop%d pub %s %s" % (k, hx(t), _payload(rng, "v")))
    elif op == "pull":
        g.emit("drop%d pull %s 5 %d" % (k, hx(s), rng.choice([0, 1])))
    elif op == "ack":
        g.emit("drop%d ack %s %s" % (k, hx(s), g.acks(1)))
    elif op == "mod":
        g.emit("drop%d mod %s 0 %s" % (k, hx(s), g.acks(1)))
    elif op == "dtopic":
        g.emit("drop%d dtopic %s" % (k, hx(t)))
    else:
        g.emit("drop%d gsub %s" % (k, hx(s)))
    g.emit("go")
    # probes: every subscription that exists is attached and receives; nothing wedged
    g.emit("gsub " + hx(s_new))
    g.emit("gsub " + hx(s))
    g.emit("wsubs %s 1000" % hx(b"projects/p"))
    g.emit("wtsubs %s 1000" % hx(t))
    g.emit("pub %s %s" % (hx(t), _payload(rng, "probe")))
    for _ in range(4 if big else 1):
        # (a big backlog takes several pulls of at most 1000 before the probe message comes out)
        g.emit("pull %s 1000 1" % hx(s_new))
        g.emit("pull %s 1000 1" % hx(s))
        g.emit("pull %s 1000 1" % hx(s_other))
    g.emit("stats " + hx(s))
    g.emit("# drain")
    g.emit("adv 711000000")
    g.emit("pull %s 1000 1" % hx(s))
    g.emit("pull %s 1000 1" % hx(s_other))
    g.emit("pull %s 1000 1" % hx(s_new))
    # whatever was abandoned, everything that exists can still be deleted (and is then gone)
    g.emit("dsub " + hx(s_new))
    g.emit("dsub " + hx(s))
    g.emit("dsub " + hx(s_other))
    g.emit("gsub " + hx(s_new))
    g.emit("gsub " + hx(s))
    g.emit("wtsubs %s 1000" % hx(t))
    return g.lines


def swallow(rng):
    """C06 corner: a consumer that has been woken is abandoned while its next pull request waits for
    room in a full subscription mailbox; another consumer keeps waiting."""
    g = ConcGen(rng, caps=(1, 1, 2))
    g.setup(1, 1, dls=(10,))
    s = sorted(g.subs)[0]
    t = g.topics[0]
    g.emit("task victim")
    g.emit("dropat%d %d pull %s 1 0" % (rng.range(0, 12), rng.choice([1000, 1000, 2000]), hx(s)))
    g.emit("task waiter")
    if rng.chance(1, 2):
        g.emit("yield %d" % rng.range(1, 4))
    g.emit("pull %s 1 0" % hx(s))
    for i in range(rng.choice([2, 4, 8, 20])):
        g.emit("task f%d" % i)
        g.emit("sleep %d" % rng.choice([1000, 1000, 2000]))
        if rng.chance(1, 2):
            g.emit("yield %d" % rng.range(1, 4))
        for _ in range(rng.range(1, 3)):
            g.emit(rng.choice(["stats " + hx(s), "gsub " + hx(s), "ack %s %s" % (hx(s), hx("99"))]))
    g.emit("task producer")
    g.emit("sleep %d" % rng.choice([1000, 1000, 2000]))
    if rng.chance(1, 2):
        g.emit("yield %d" % rng.range(1, 4))
    g.emit("pub %s %s" % (hx(t), _payload(rng, "one")))
    g.emit("task probe")
    g.emit("sleep 3000")
    g.emit("probe " + hx(s))
    g.emit("sleep 5000000")
    g.emit("probe " + hx(s))
    g.emit("go")
    g.epilogue()
    return g.lines


def race(rng):
    """C06: the availability event (publish / nack) races with the consumer's check-then-wait step:
    both are issued at the same virtual instant with 0..4 scheduler yields of relative offset."""
    g = ConcGen(rng)
    if rng.chance(1, 2):
        g.lines[0] = "new cap=%d yield=0" % rng.choice([1, 2, 16])
    g.setup(1, 1, dls=(10,))
    s = sorted(g.subs)[0]
    t = g.topics[0]
    pre = rng.choice([0, 1, 1, 2])
    if pre:
        g.emit("pub %s %s" % (hx(t), jl(_payload(rng, "pre") for _ in range(pre))))
        g.emit("pull %s %d 1" % (hx(s), pre))
    for c in range(rng.choice([1, 1, 2, 3])):
        g.emit("task c%d" % c)
        a = rng.range(0, 4)
        if a:
            g.emit("yield %d" % a)
        g.emit("pull %s %d 0" % (hx(s), rng.choice([1, 1, 5])))
    g.emit("task producer")
    b = rng.range(0, 6)
    if b:
        g.emit("yield %d" % b)
    if pre and rng.chance(2, 3):
        g.emit("mod %s 0 %s" % (hx(s), jl(hx(str(i + 1)) for i in range(rng.range(1, pre)))))
    else:
        g.emit("pub %s %s" % (hx(t), jl(_payload(rng, "m") for _ in range(rng.choice([1, 1, 2])))))
    g.emit("task probe")
    g.emit("sleep 1000")
    g.emit("probe " + hx(s))
    g.emit("sleep 5000000")
    g.emit("probe " + hx(s))
    g.emit("go")
    g.epilogue()
    return g.lines


def namerace(rng):
    """C10 / C11: creates and deletes of the same topic / subscription names racing each other
    (racing creates of one name, create racing delete, delete racing delete), then the final state
    is observed sequentially."""
    g = ConcGen(rng)
    if rng.chance(1, 3):
        g.lines[0] = "new cap=%d yield=0" % rng.choice([1, 2, 16])
    t = tname("p", "t0")
    t2 = tname("p", "t1")
    s = sname("p", "s0")
    g.emit("ctopic " + hx(t))
    # a quarter of the cases: CreateSubscription racing DeleteTopic / CreateTopic of its own topic
    topicrace = rng.chance(1, 4)
    if topicrace or rng.chance(1, 2):
        g.emit("ctopic " + hx(t2))
    exists = rng.chance(3, 4) and not topicrace
    if exists:
        g.emit("csub %s %s 10 -" % (hx(s), hx(t)))
    g.topics = [t]
    n = rng.range(2, 4)
    for i in range(n):
        g.emit("task n%d" % i)
        for _ in range(rng.range(1, 2)):
            y = rng.range(0, 8)
            if y:
                g.emit("yield %d" % y)
            if topicrace:
                op = rng.weighted([("csub2", 6), ("dtopic", 5), ("ctopic", 2), ("gsub", 2), ("dsub", 2)])
            else:
                op = rng.weighted([("dsub", 4), ("csub", 5), ("gsub", 2), ("csub2", 1), ("pub", 1), ("dtopic", 1), ("ctopic", 1)])
            if op == "dsub":
                g.emit("dsub " + hx(s))
            elif op == "csub":
                g.emit("csub %s %s 10 -" % (hx(s), hx(t)))
            elif op == "csub2":
                g.emit("csub %s %s 10 -" % (hx(s), hx(t2)))
            elif op == "gsub":
                g.emit("gsub " + hx(s))
            elif op == "pub":
                g.emit("pub %s %s" % (hx(t), _payload(rng, "r")))
            elif op == "dtopic":
                g.emit("dtopic " + hx(t2))
            else:
                g.emit("ctopic " + hx(t2))
    g.emit("go")
    g.emit("gsub " + hx(s))
    g.emit("wsubs %s 1000" % hx(b"projects/p"))
    g.emit("wtsubs %s 1000" % hx(t))
    g.emit("wtsubs %s 1000" % hx(t2))
    g.emit("pub %s %s" % (hx(t), _payload(rng, "probe")))
    g.emit("pub %s %s" % (hx(t2), _payload(rng, "probe2")))
    g.emit("pull %s 1000 1" % hx(s))
    return g.lines


def wakecancel(rng):
    """C06 corner: a delivery expires while several consumers wait (one wake-up); the consumer that
    is woken gets its pull into the mailbox and is abandoned before the actor takes it out. Nobody
    sends another request: the remaining consumers must still get the message (at the latest when
    the abandoned pull's lease expires)."""
    g = ConcGen(rng, caps=(1, 2, 16))
    g.setup(1, 1, dls=(10,))
    s = sorted(g.subs)[0]
    t = g.topics[0]
    g.emit("pub %s %s" % (hx(t), _payload(rng, "w")))
    g.emit("pull %s 1 1" % hx(s))                       # leased; expires at +10 s on a whole tick
    order = ["victim"] + ["waiter%d" % i for i in range(rng.range(1, 2))]
    if rng.chance(1, 3):
        order.reverse()
    for name in order:
        g.emit("task " + name)
        if name == "victim":
            # the abort is scheduled on the very tick of the expiry, k scheduler steps later
            if rng.chance(2, 3):
                # parked, woken by the expiry, polled k times with nobody else running, abandoned
                g.emit("dropw%d %d pull %s 1 0" % (rng.choice([1, 1, 1, 2, 3]), rng.choice([10000500, 10000500, 10001500]), hx(s)))
            else:
                g.emit("dropat%d %d pull %s 1 0" % (rng.range(0, 7), rng.choice([10000000, 10000000, 10001000]), hx(s)))
        else:
            g.emit("pull %s 1 0" % hx(s))
    g.emit("task probe")
    for d in (10002000, 10205000, 10410000):
        g.emit("sleep %d" % d)
        g.emit("probe " + hx(s))
    g.emit("go")
    g.epilogue()
    return g.lines


def pubdel(rng):
    """C08 / C09: publishes racing DeleteTopic (and re-creation) of their topic: a publisher that
    resolved the topic before the deletion may be served by the deleted topic's actor after it."""
    g = ConcGen(rng, caps=(1, 2, 16))
    g.setup(1, 1, dls=(10,))
    s = sorted(g.subs)[0]
    t = g.topics[0]
    g.emit("pub %s %s" % (hx(t), jl(_payload(rng, "pre") for _ in range(rng.range(1, 3)))))
    for i in range(rng.range(2, 4)):
        g.emit("task p%d" % i)
        if rng.chance(1, 2):
            g.emit("yield %d" % rng.range(0, 5))
        g.emit("pub %s %s" % (hx(t), jl(_payload(rng, "r%d" % i) for _ in range(rng.range(1, 3)))))
    g.emit("task d")
    if rng.chance(1, 2):
        g.emit("yield %d" % rng.range(0, 5))
    g.emit("dtopic " + hx(t))
    if rng.chance(1, 2):
        g.emit("ctopic " + hx(t))
        g.emit("pub %s %s" % (hx(t), _payload(rng, "again")))
    g.emit("go")
    g.emit("pull %s 1000 1" % hx(s))
    g.emit("stats " + hx(s))
    return g.lines


def multicreate(rng):
    """C11 / C13: several DIFFERENT subscriptions created on one topic at the same time (their attach
    requests may reach the topic out of id order), then deleted one by one; after every step the
    topic's list must be exactly the live subscriptions."""
    g = ConcGen(rng, caps=(1, 2, 16))
    t = tname("p", "t0")
    g.emit("ctopic " + hx(t))
    g.topics = [t]
    names = [sname("p", "m%d" % i) for i in range(rng.range(2, 5))]
    for i, n in enumerate(names):
        g.emit("task c%d" % i)
        if rng.chance(2, 3):
            g.emit("yield %d" % rng.range(0, 6))
        g.emit("csub %s %s 10 -" % (hx(n), hx(t)))
    g.emit("go")
    g.emit("wsubs %s 1000" % hx(b"projects/p"))
    g.emit("wtsubs %s 1000" % hx(t))
    order = list(names)
    if rng.chance(2, 3):
        order.reverse()
    if rng.chance(1, 3):
        order = order[1:] + order[:1]
    for n in order[:rng.range(1, len(order))]:
        g.emit("dsub " + hx(n))
        g.emit("wsubs %s 1000" % hx(b"projects/p"))
        g.emit("wtsubs %s 1000" % hx(t))
    if rng.chance(1, 2):
        g.emit("csub %s %s 10 -" % (hx(order[0]), hx(t)))
        g.emit("wsubs %s 1000" % hx(b"projects/p"))
        g.emit("wtsubs %s 1000" % hx(t))
    g.emit("pub %s %s" % (hx(t), _payload(rng, "probe")))
    for n in names:
        g.emit("pull %s 1000 1" % hx(n))
    return g.lines



def pulllimit(rng):
    """C07: several blocking Pulls wait on one subscription; fewer messages than waiters arrive well
    into their wait (so that some waiters are woken and find nothing); every blocking Pull must
    still return no later than the server-side wait limit counted from ITS OWN start."""
    g = ConcGen(rng, caps=(2, 16))
    g.setup(1, 1, dls=(10, 30))
    s = sorted(g.subs)[0]
    t = g.topics[0]
    n_cons = rng.range(2, 4)
    for c in range(n_cons):
        g.emit("task c%d" % c)
        d = rng.choice([0, 0, 1000000, 5000000, 60000000])
        if d:
            g.emit("sleep %d" % d)
        g.emit("pull %s %d 0" % (hx(s), rng.choice([1, 1, 5])))
    g.emit("task producer")
    for _ in range(rng.range(1, 3)):
        g.emit("sleep %d" % rng.choice([30000000, 120000000, 240000000, 100000000, 299000000]))
        kind = rng.below(3)
        if kind == 0:
            g.emit("pub %s %s" % (hx(t), _payload(rng, "late")))
        elif kind == 1:
            g.emit("pub %s %s" % (hx(t), _payload(rng, "late")))
            g.emit("stats " + hx(s))
        else:
            g.emit("stats " + hx(s))      # a request that carries no message: nobody may be disturbed
    g.emit("go")
    g.epilogue()
    return g.lines


def abandonpull(rng):
    """C03 / C04 / C16: a Pull is abandoned around the moment its request is handled; later another
    consumer pulls, and the leases are probed just before / after every deadline involved."""
    g = ConcGen(rng, caps=(1, 2, 16))
    dl = rng.choice([10, 10, 12])
    g.setup(1, 1, dls=(dl,))
    s = sorted(g.subs)[0]
    t = g.topics[0]
    g.emit("pub %s %s" % (hx(t), jl(_payload(rng, "a") for _ in range(rng.choice([1, 2, 3, 6, 8])))))
    n_fill = rng.choice([0, 0, 2, 20])
    for i in range(n_fill):
        g.emit("task f%d" % i)
        g.emit(rng.choice(["stats " + hx(s), "gsub " + hx(s)]))
    g.emit("task victim")
    if rng.chance(1, 2):
        g.emit("yield %d" % rng.range(1, 4))
    g.emit("drop%d pull %s %d %d" % (rng.range(0, 6), hx(s), rng.choice([1, 5, 1000]), rng.choice([0, 1])))
    g.emit("go")
    gap = rng.choice([1000000, 4000000, 7000000, 9500000])
    g.emit("adv %d" % gap)
    g.emit("pull %s %d 1" % (hx(s), rng.choice([1000, 1000, 1, 2])))
    # just after the abandoned delivery's deadline, well before the second one's
    g.emit("adv %d" % (dl * 1000000 - gap + rng.choice([150000, 300000, 900000])))
    g.emit("pull %s 1000 1" % hx(s))
    g.emit("stats " + hx(s))
    if rng.chance(1, 2):
        # the client acknowledges what it has just been given (and only that): those messages are never
        # delivered again, whatever the abandoned request left behind
        g.emit("acklast " + hx(s))
        g.emit("stats " + hx(s))
    g.emit("adv %d" % (gap + 200000))
    g.emit("pull %s 1000 1" % hx(s))
    g.epilogue()
    return g.lines


def limitwake(rng):
    """C06 at the edge of the server-side wait limit: a lease runs out in the very tick in which a
    blocking Pull's 5-minute limit ends, with another consumer queued behind that Pull."""
    g = ConcGen(rng, caps=(2, 16))
    g.lines[0] = "new cap=%d yield=%d" % (rng.choice([2, 16]), rng.range(0, 2 ** 32) if rng.chance(1, 2) else 0)
    g.setup(1, 1, dls=(300,))
    s = sorted(g.subs)[0]
    t = g.topics[0]
    g.emit("pub %s %s" % (hx(t), _payload(rng, "edge")))
    g.emit("pull %s 1 1" % hx(s))                      # leased for 300 s from this instant
    off = rng.choice([0, 0, 0, 1000, 100000])
    order = ["limit", "behind"] if rng.chance(3, 4) else ["behind", "limit"]
    k = 1
    for name in order:
        g.emit("task " + name)
        if name == "limit":
            if off:
                g.emit("sleep %d" % off)
            g.emit("pull %s 1 0" % hx(s))              # its wait limit ends when (or just after) the lease does
        elif rng.chance(1, 2):
            g.emit("sopen %d %s 10 0" % (k, hx(s)))
            g.emit("sleep 330000000")
            g.emit("sread %d" % k)
            g.emit("sdrop %d" % k)
        else:
            g.emit("sleep 1000")
            g.emit("pull %s 1 0" % hx(s))
    g.emit("task probe")
    g.emit("sleep 300500000")
    g.emit("probe " + hx(s))
    g.emit("sleep 10000000")
    g.emit("probe " + hx(s))
    g.emit("go")
    g.epilogue()
    return g.lines


def bigpub(rng):
    """C08: one Publish request with more than 1000 messages racing small publishes to the same topic:
    ids in accept order, every request's messages contiguous, first deliveries in that order."""
    g = ConcGen(rng, caps=(1, 2, 16))
    g.setup(1, 1, dls=(10,))
    s = sorted(g.subs)[0]
    t = g.topics[0]
    n_big = rng.choice([1001, 1500, 2500])
    base = rng.below(10 ** 6)
    g.emit("task big")
    if rng.chance(1, 2):
        g.emit("yield %d" % rng.range(0, 3))
    g.emit("pub %s %s" % (hx(t), jl(hx("b%d-%d" % (base, i)) for i in range(n_big))))
    for i in range(rng.range(1, 3)):
        g.emit("task small%d" % i)
        g.emit("yield %d" % rng.range(0, 6))
        g.emit("pub %s %s" % (hx(t), jl(_payload(rng, "s%d" % i) for _ in range(rng.choice([1, 1, 2])))))
    g.emit("go")
    g.emit("# drain")
    for _ in range(n_big // 1000 + 2):
        g.emit("pull %s 1000 1" % hx(s))
    g.emit("stats " + hx(s))
    return g.lines

PROFILES = {"bigpub": bigpub, "limitwake": limitwake, "abandonpull": abandonpull, "pulllimit": pulllimit, "multicreate": multicreate, "wakecancel": wakecancel, "pubdel": pubdel, "namerace": namerace, "race": race, "swallow": swallow, "mix": mix, "wake": wake, "delete": delete, "burst": burst, "cancel": cancel}


def cases(rng, profile, n):
    return [PROFILES[profile](rng.fork("%s/%d" % (profile, i))) for i in range(n)]
