"""C14: one real-time scenario: several push subscriptions (own topic each), scripted endpoint."""
from .common import hx, jl
from .gen_seq import tname, sname

ACCEPTED = [200, 201, 202, 204]
REJECTED = [203, 205, 206, 300, 301, 304, 400, 401, 403, 404, 408, 409, 410, 418, 429, 499, 500, 501, 502, 503, 504, 599]


def scenario(rng, tier):
    lines = ["interval 10"]
    meta = {"subs": {}, "msgs": {}, "deleted": [], "after_delete": [], "twins": {}}
    n_subs = 3 if tier == "quick" else 6
    n_msgs = 6 if tier == "quick" else 14
    for i in range(n_subs):
        t = tname("p", "t%d" % i)
        s = sname("p", "push%d" % i)
        lines.append("ctopic " + hx(t))
        lines.append("csub %s %s tag%d" % (hx(s), hx(t), i))
        plain = sname("p", "plain%d" % i)
        lines.append("csub %s %s -" % (hx(plain), hx(t)))
        meta["subs"]["tag%d" % i] = dict(sub=s, topic=t, plain=plain)
        if i >= 1:
            # a second push subscription on the SAME topic with its own endpoint path: every message of the
            # topic is POSTed to both endpoints, each POST naming the subscription it is delivered on
            s2 = sname("p", "twin%d" % i)
            lines.append("csub %s %s twin%d" % (hx(s2), hx(t), i))
            meta["subs"]["twin%d" % i] = dict(sub=s2, topic=t, plain=None)
            meta["twins"]["tag%d" % i] = "twin%d" % i
    maxlen = 0
    for i in range(n_subs):
        t = meta["subs"]["tag%d" % i]["topic"]
        batch = []
        for j in range(n_msgs):
            data = ("s%d-m%d-%d" % (i, j, rng.below(10 ** 6))).encode()
            if j % 3 == 1:
                # bytes whose base64 uses both alphabet-specific characters ('+' and '/')
                data = b"\xfb\xef\xbe\xff\xfe\x3e\x3f" + data
            k = rng.choice([0, 0, 1, 1, 2, 3])
            outcomes = []
            for _ in range(k):
                c = rng.below(10)
                outcomes.append("close" if c < 2 else str(rng.choice(REJECTED)))
            if j == 0:
                # always: a connection that is accepted and closed without an answer counts as a failure
                outcomes.insert(0, "close")
            outcomes.append(str(rng.choice(ACCEPTED)))
            maxlen = max(maxlen, len(outcomes))
            attrs = {}
            if rng.chance(1, 2):
                attrs[b"k"] = ("v%d" % j).encode()
            if rng.chance(1, 4):
                attrs["ключ".encode()] = b""
            lines.append("script tag%d:%s %s" % (i, hx(data), ",".join(outcomes)))
            a = jl(("%s=%s" % (hx(k_), hx(v)) for k_, v in sorted(attrs.items())), ";")
            batch.append(hx(data) + (";" + a if attrs else ""))
            meta["msgs"][hx(data)] = dict(tag="tag%d" % i, outcomes=outcomes, attrs=a if attrs else "-")
        # publish in two requests so that ids are spread over batches
        half = len(batch) // 2
        lines.append("pub %s %s" % (hx(t), jl(batch[:half])))
        lines.append("pub %s %s" % (hx(t), jl(batch[half:])))
    lines.append("wait %d" % (250 + 40 * maxlen + 6 * n_msgs * n_subs))
    lines.append("posts")
    # pushing stops when the subscription is deleted
    lines.append("dsub " + hx(meta["subs"]["tag0"]["sub"]))
    meta["deleted"].append("tag0")
    late = ("late-%d" % rng.below(10 ** 6)).encode()
    meta["after_delete"].append(hx(late))
    lines.append("pub %s %s" % (hx(meta["subs"]["tag0"]["topic"]), hx(late)))
    lines.append("wait 150")
    lines.append("posts")
    for i in range(n_subs):
        lines.append("pull " + hx(meta["subs"]["tag%d" % i]["plain"]))
    lines.append("turnlog")
    return lines, meta


def slow_102(rng):
    """Thorough only: the endpoint answers 102 (listed as accepted); 12 s of real time."""
    t, s = tname("p", "t102"), sname("p", "push102")
    data = b"answer-102"
    lines = ["interval 10", "ctopic " + hx(t), "csub %s %s tag102" % (hx(s), hx(t)), "script %s 102" % hx(data),
             "pub %s %s" % (hx(t), hx(data)), "wait 11500", "posts"]
    meta = {"subs": {"tag102": dict(sub=s, topic=t, plain=None)}, "msgs": {hx(data): dict(tag="tag102", outcomes=["102"], attrs="-")},
            "deleted": [], "after_delete": []}
    return lines, meta


def slow_sibling(rng):
    """Two messages of one push round: one is accepted at once, the other one's request is never
    answered. The accepted one must not be POSTed again when the other's lease runs out (12 s of
    real time)."""
    t, s = tname("p", "tsib"), sname("p", "pushsib")
    a = ("fast-%d" % rng.below(10 ** 6)).encode()
    b = ("slow-%d" % rng.below(10 ** 6)).encode()
    lines = ["interval 10", "ctopic " + hx(t), "csub %s %s tagsib" % (hx(s), hx(t)), "script %s 200" % hx(a),
             "script %s hang,200" % hx(b), "pub %s %s" % (hx(t), jl([hx(a), hx(b)])), "wait 11500", "posts", "turnlog"]
    meta = {"subs": {"tagsib": dict(sub=s, topic=t, plain=None)},
            "msgs": {hx(a): dict(tag="tagsib", outcomes=["200"], attrs="-"), hx(b): dict(tag="tagsib", outcomes=["hang", "200"], attrs="-")},
            "deleted": [], "after_delete": []}
    return lines, meta


def midround_delete(rng):
    """A push round that is still handing out its messages (one POST every few milliseconds, none of
    them answered) when the subscription is deleted: pushing stops with the deletion."""
    t, s = tname("p", "tmid"), sname("p", "pushmid")
    n = 150
    lines = ["interval 10", "ctopic " + hx(t), "csub %s %s tagmid" % (hx(s), hx(t))]
    msgs = {}
    batch = []
    for j in range(n):
        data = ("mid-%d-%d" % (j, rng.below(10 ** 6))).encode()
        lines.append("script tagmid:%s hang" % hx(data))
        batch.append(hx(data))
        msgs[hx(data)] = dict(tag="tagmid", outcomes=["hang"], attrs="-")
    lines.append("pub %s %s" % (hx(t), jl(batch)))
    lines += ["wait 120", "posts", "dsub " + hx(s), "posts", "wait 500", "posts"]
    meta = {"subs": {"tagmid": dict(sub=s, topic=t, plain=None)}, "msgs": {}, "deleted": ["tagmid"], "after_delete": [],
            "midround": {"tag": "tagmid", "n": n}, "extra_known": [("tagmid", d) for d in msgs]}
    return lines, meta
