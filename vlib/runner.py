"""Check orchestration: build, proof gate, correspondence streams, oracles, decision, evidence."""
import hashlib, json, os, sys, time
from concurrent.futures import ThreadPoolExecutor
from . import gen_conc, gen_pure, gen_push, gen_seq, oracles, prover
from .common import (VERIF, CACHE, DVH, ENV, Rng, build_harness, BuildError, run_impl_resilient, run_impl_conc, run_model, unhx)
import subprocess

ALL_SEQ_OPS = {"ctopic", "gtopic", "dtopic", "ltopics", "ltsubs", "csub", "gsub", "lsubs", "dsub", "pub", "pull", "ack", "mod",
               "sopen", "ssend", "sread", "sclose", "sdrop", "stats", "registry", "adv", "clock", "wtopics", "wsubs", "wtsubs", "unimpl", "new"}

# property -> configuration.  seq: (profile, quick cases, thorough cases, max history length)
PROPS = {
    "C01": dict(module="Deltio.Props.C01", p1=True, p6=True, no_oracle={"namerace"}, conc=[("mix", 120, 5000), ("cancel", 60, 2000), ("namerace", 200, 5000), ("bigpub", 10, 150)], trace_kinds={"post", "publish", "publish.fanout", "pull", "ack", "modify", "expire", "end"}, seq=[("general", 150, 6000, 40), ("data", 150, 6000, 50)], pure=[],
                relevant={"pub", "pull", "sread", "stats", "sopen"}),
    "C02": dict(module="Deltio.Props.C02", conc=[("mix", 120, 5000), ("abandonpull", 80, 2000)], trace_kinds={"ack", "expire"}, seq=[("data", 250, 10000, 50), ("futureack", 150, 5000, 40)], pure=["tracker", "ackids"],
                relevant={"ack", "ssend", "pull", "sread", "stats"}),
    "C03": dict(module="Deltio.Props.C03", conc=[("mix", 120, 5000), ("cancel", 80, 3000), ("abandonpull", 60, 2000)], trace_kinds={"pull", "expire", "modify", "ack"}, seq=[("data", 250, 10000, 50), ("batches", 40, 1500, 40), ("bigmsg", 1, 6, 0)], pure=["tracker"],
                relevant={"pull", "sread"}),
    "C04": dict(module="Deltio.Props.C04", conc=[("mix", 60, 3000), ("abandonpull", 100, 3000)], trace_kinds={"pull", "expire"}, seq=[("deadlines", 300, 12000, 50), ("general", 200, 6000, 40)], pure=["rounds", "tracker"],
                relevant={"pull", "sread", "stats", "adv", "clock", "csub"}),
    "C05": dict(module="Deltio.Props.C05", conc=[("mix", 60, 3000)], trace_kinds={"modify"}, seq=[("deadlines", 300, 12000, 50)], pure=["ext", "tracker"],
                relevant={"mod", "ssend", "pull", "sread", "stats"}),
    "C08": dict(module="Deltio.Props.C08", p6=True, conc=[("mix", 120, 5000), ("pubdel", 150, 4000), ("bigpub", 12, 200)], trace_kinds={"publish", "publish.ids", "post", "post.order", "pull"}, seq=[("data", 200, 8000, 50), ("general", 100, 4000, 40), ("bigmsg", 1, 6, 0)], pure=[],
                relevant={"pub", "pull", "sread"}),
    "C09": dict(module="Deltio.Props.C09", push=True, conc=[("mix", 60, 3000), ("pubdel", 200, 5000)], trace_kinds={"publish", "publish.ids", "pull"}, seq=[("general", 200, 8000, 40), ("data", 100, 4000, 50)], pure=[],
                relevant={"pub", "pull", "sread"}),
    "C10": dict(module="Deltio.Props.C10", p1=True, conc=[("namerace", 600, 20000)], trace_kinds={"attach", "remove", "delete", "delete.begin", "delete.end"}, seq=[("namespace", 300, 12000, 50)], pure=[],
                relevant={"ctopic", "gtopic", "dtopic", "csub", "gsub", "dsub", "pub", "pull", "ack", "mod", "lsubs", "ltopics", "ltsubs"}),
    "C11": dict(module="Deltio.Props.C11", p1=True, conc=[("namerace", 600, 20000), ("delete", 100, 3000), ("multicreate", 200, 5000), ("cancel", 100, 3000)], trace_kinds={"attach", "remove", "delete", "delete.begin", "delete.end"}, seq=[("namespace", 300, 12000, 50), ("general", 100, 4000, 40)], pure=[],
                relevant={"dsub", "dtopic", "ltsubs", "wtsubs", "gsub", "lsubs", "wsubs", "stats", "ctopic", "csub", "pub", "pull"}),
    "C13": dict(module="Deltio.Props.C13", trace_kinds={"attach", "remove"}, seq=[("namespace", 250, 10000, 50), ("listing", 150, 6000, 60)], pure=["tokens"],
                relevant={"ltopics", "lsubs", "ltsubs", "wtopics", "wsubs", "wtsubs"}),
    "C15": dict(module="Deltio.Props.C15", conc=[("mix", 60, 3000), ("wake", 60, 3000), ("abandonpull", 80, 2000), ("pulllimit", 60, 2000)], trace_kinds={"pull", "pull.count"}, seq=[("batches", 80, 3000, 40), ("data", 100, 4000, 50), ("general", 100, 4000, 40), ("bigbacklog", 2, 12, 0)], pure=[],
                relevant={"pull", "sread", "sopen"}),
    "C17": dict(module="Deltio.Props.C17", trace_kinds=set(), seq=[("malformed", 300, 12000, 50)], pure=["names", "tokens", "ext", "ackids"],
                relevant=ALL_SEQ_OPS),
    "C06": dict(module="Deltio.Props.C06", seq=[], pure=[], conc=[("race", 1500, 40000), ("wake", 400, 10000), ("swallow", 300, 8000), ("wakecancel", 300, 6000), ("mix", 100, 4000), ("limitwake", 60, 1500)],
                relevant={"pull", "probe", "sread", "stats"}, trace_kinds={"pull", "post", "modify", "expire"}),
    "C07": dict(module="Deltio.Props.C07", seq=[], pure=[], conc=[("burst", 150, 4000), ("delete", 150, 4000), ("cancel", 150, 4000), ("namerace", 200, 5000), ("pulllimit", 60, 2000)],
                relevant=ALL_SEQ_OPS, trace_kinds={"delete.begin", "delete.end", "remove"}),
    "C12": dict(module="Deltio.Props.C12", seq=[], pure=[], conc=[("delete", 600, 20000)],
                relevant={"pull", "sread", "dsub", "ack", "mod", "gsub", "pub"}, trace_kinds={"delete.begin", "delete.end"}),
    "C14": dict(module="Deltio.Props.C14", seq=[("namespace", 80, 3000, 40)], pure=[], conc=[], push=True,
                relevant={"registry", "csub", "dsub"}, trace_kinds=set()),
    "C16": dict(module="Deltio.Props.C16", p1=True, seq=[], pure=[], conc=[("cancel", 600, 20000), ("swallow", 300, 6000), ("wakecancel", 100, 3000)],
                relevant=ALL_SEQ_OPS, trace_kinds={"attach", "remove", "pull"}),
    "C19": dict(module="Deltio.Props.C19", seq=[], pure=["flow", "flowq"], conc=[], relevant=set(), trace_kinds=set()),
    "C18": dict(module="Deltio.Props.C18", trace_kinds=set(), seq=[("namespace", 60, 2000, 30)], pure=["names"],
                relevant={"ctopic", "gtopic", "csub", "gsub", "dtopic", "dsub", "pub"}),
}

TRUSTED_BASE = [
    "Lean 4.33.0 kernel (thorough tier: leanchecker re-check of the property module)",
    "axioms actually used are listed per theorem in coverage.axioms (allowed: propext, Classical.choice, Quot.sound)",
    "hand-written Lean model of deltio (lean/Deltio/Model); tied to /repo only by the correspondence streams of this run",
    "Rust harness /verif/harness (in-process gRPC over tokio duplex, paused clock), cfg(deltio_verif) hooks in /repo",
    "Lean driver's line-protocol parsing and the Python orchestrator's diff / oracles",
    "tokio runtime contracts (mpsc FIFO, oneshot, Notify, select!, timers at 1 ms ticks), tonic/prost/h2 transport",
]


def log(msg):
    sys.stderr.write(msg + "\n")
    sys.stderr.flush()


def case_hash(lines):
    return hashlib.sha256("\n".join(lines).encode()).hexdigest()[:16]


def split_cases(all_lines):
    cases, cur = [], []
    for l in all_lines:
        if l.strip() == "new" and cur:
            cases.append(cur)
            cur = []
        cur.append(l)
    if cur:
        cases.append(cur)
    return cases


def run_seq_cases(cases, seed=1, workers=1):
    """Runs the cases through implementation and model. Returns per case (impl, sides, model)."""
    if not cases:
        return []
    if workers > 1 and len(cases) > 64:
        chunks = [cases[i::workers] for i in range(workers)]
        with ThreadPoolExecutor(max_workers=workers) as ex:
            parts = list(ex.map(lambda c: run_seq_cases(c, seed, 1), chunks))
        out = [None] * len(cases)
        for w, part in enumerate(parts):
            for j, r in enumerate(part):
                out[w + j * workers] = r
        return out
    lines = [l for c in cases for l in c]
    impl, sides, aborts = run_impl_resilient("seq", lines, seed)
    model, mcrash, merr = run_model("seq", "\n".join(lines) + "\n")
    res, i = [], 0
    for c in cases:
        n = len(c)
        im = (impl[i:i + n] + ["MISSING"] * n)[:n]
        sd = (sides[i:i + n] + [""] * n)[:n]
        mo = (model[i:i + n] + ["MODEL-MISSING"] * n)[:n]
        res.append((im, sd, mo))
        i += n
    return res


def mismatch_kind(trace, idx, verdict=""):
    """Kind of the deviating turn: for a `state` digest mismatch, the turn of the same actor that
    produced that state (the closest earlier non-state event of the same actor). Publish / post
    mismatches are split by what deviates (ids, fan-out set, order), so that each goes to the
    property that is about it."""
    if "MISMATCH pull model=[" in verdict:
        import re
        m = re.search(r"model=\[(.*?)\] impl=\[(.*?)\]", verdict)
        if m:
            a, b = [[x for x in g.split(" | ")[0].split(",") if x and x != "-"] for g in (m.group(1), m.group(2))]
            k = min(len(a), len(b))
            if a[:k] == b[:k] and len(a) != len(b):
                return "pull.count"      # same deliveries, a different number of them: C15's business
    if "posts-out-of-order" in verdict:
        return "post.order"
    if "publish fan-out set" in verdict:
        return "publish.fanout"
    if "publish ids" in verdict:
        return "publish.ids"
    toks = trace[idx].split() if idx < len(trace) else []
    if len(toks) <= 3:
        return "end"
    if toks[3] != "state":
        return toks[3]
    for j in range(idx - 1, -1, -1):
        t = trace[j].split()
        if len(t) > 3 and t[0] == toks[0] and t[1] == toks[1] and t[2] == toks[2] and t[3] not in ("state", "post.enq"):
            return t[3]           # (`post.enq` is logged by the sender's task, it is not a turn of this actor)
    return "state"


def project(prop, op, ans):
    """Which part of a control-plane answer a property depends on (the rest belongs to other properties)."""
    if op == "pub" and prop in ("C10", "C11", "C13", "C14", "C17", "C18"):
        return ans.split(" ")[0]          # only the status: message ids belong to C08 / C09
    if op not in ("csub", "gsub", "lsubs", "wsubs"):
        return ans
    fields = {"C11": (0, 1), "C14": (0, 3), "C18": (0, 1), "C13": (0,), "C04": (2,), "C17": ()}.get(prop)
    if fields is None:
        return ans
    out = []
    for page in ans.split(" | "):
        parts = page.split(" ")
        status = parts[0]
        proj = [status]
        if len(parts) > 1 and status == "ok":
            for res in parts[1].split(","):
                fs = res.split("/", 3)
                proj.append("/".join(fs[i] for i in fields if i < len(fs)))
        if op in ("lsubs",) and prop == "C13" and len(parts) > 2:
            proj.append(parts[2])
        out.append(" ".join(proj))
    return " | ".join(out)


def pure_accepts(ans):
    """Accept / reject decision of a parser answer in the pure streams."""
    first = ans.split(" ")[0]
    return not (first == "none" or first in oracles.GRPC_ERRORS)


def first_diff(impl, model):
    for j, (a, b) in enumerate(zip(impl, model)):
        if a != b:
            return j
    return None


def shrink_seq(prop, case, pred, budget=150):
    """Greedy delta debugging over the op list (keeps `new`); `pred(lines)` -> bool still failing."""
    cur = list(case)
    n = 8
    runs = 0
    while len(cur) > 2 and runs < budget:
        chunk = max(1, len(cur) // n)
        reduced = False
        i = 1
        while i < len(cur) and runs < budget:
            cand = cur[:i] + cur[i + chunk:]
            runs += 1
            if len(cand) >= 1 and pred(cand):
                cur = cand
                reduced = True
            else:
                i += chunk
        if not reduced:
            if chunk == 1:
                break
            n = min(n * 2, len(cur))
    return cur


def own_signature(prop, sig):
    """Oracle signatures are prefixed with the property they belong to (`c13:…`). Of the generic
    ones, panics / aborts / transport failures belong to every property (nothing can be observed
    any more); a request that never returns (`hang:`) belongs to the properties that are about
    termination and release: C06, C07, C12, C16."""
    import re
    m = re.match(r"^c(\d\d):", sig)
    if m is not None:
        return ("C" + m.group(1)) == prop
    if sig.startswith("hang:"):
        return prop in ("C06", "C07", "C12", "C16")
    return True


class Check:
    def __init__(self, prop, tier, seed):
        self.prop, self.tier, self.seed = prop, tier, seed
        self.cfg = PROPS[prop]
        self.t0 = time.time()
        self.evaluations = 0
        self.distinct = set()
        self.samples = []
        self.hist = {}
        self.oracle_fail = []       # (sig, msg, replay dict)
        self.disagree = []          # replay dicts
        self.unattributed = 0
        self.traces = 0
        self.streams_run = []
        self.known = json.load(open(os.path.join(VERIF, "known_findings.json"))) if os.path.exists(os.path.join(VERIF, "known_findings.json")) else []

    # -- streams ---------------------------------------------------------------------------
    def pure_stream(self, name, rng):
        lines = getattr(gen_pure, name)(rng.fork("pure/" + name), self.tier)
        impl, _, aborts = run_impl_resilient("pure", lines, self.seed)
        model, mcrash, merr = run_model("pure", "\n".join(lines) + "\n")
        if mcrash:
            model = (model + ["MODEL-CRASH"] * len(lines))[:len(lines)]
        orc = oracles.PURE_ORACLES.get(name)
        nd = 0
        for l, a, b in zip(lines, impl, model + ["MODEL-MISSING"] * len(lines)):
            self.evaluations += 1
            if a != "skip":
                self.distinct.add(l)
            k = l.split()[0]
            self.hist[k] = self.hist.get(k, 0) + 1
            fails = oracles.pure_generic(l, a)
            if orc and self.stream_serves(name):
                fails += orc(l, a)
            for sig, msg in fails:
                if own_signature(self.prop, sig):
                    self.oracle_fail.append((sig, msg, dict(mode="pure", stream=name, ops=[l], impl=[a], model=[b])))
            if a != b and self.prop == "C17" and pure_accepts(a) == pure_accepts(b):
                self.unattributed += 1     # C17 is about WHICH inputs are rejected, not about the parsed value
                continue
            if a != b:
                if name == "tracker" and not self.tracker_relevant(l, a, b):
                    self.unattributed += 1
                    continue
                nd += 1
                self.disagree.append(dict(mode="pure", stream=name, ops=[l], impl=[a], model=[b], first_diff=0))
        if len(self.samples) < 6 and lines:
            j = rng.below(len(lines))
            self.samples.append({"stream": name, "op": lines[j][:240], "impl": (impl[j][:240] if j < len(impl) else None)})
        self.streams_run.append({"stream": "pure/" + name, "cases": len(lines), "disagreements": nd})

    def tracker_relevant(self, line, a, b):
        """A tracker-stream disagreement belongs to the property whose operation deviates first."""
        ops = line.split()[1:]
        pa, pb = a.split(" | "), b.split(" | ")
        for k, op in enumerate(ops):
            if k >= len(pa) or k >= len(pb) or pa[k] != pb[k]:
                kind = op.split(":")[0]
                owners = {"add": ("C03", "C04"), "rm": ("C02",), "mod": ("C05",), "exp": ("C04", "C03"), "clear": ("C12", "C02")}
                return self.prop in owners.get(kind, (self.prop,))
        return True

    def stream_serves(self, name):
        # which pure oracle belongs to which property
        return {"names": ("C18", "C17"), "ext": ("C05", "C17"), "tokens": ("C13", "C17"), "rounds": ("C04",)}.get(name, ()).__contains__(self.prop)

    def seq_stream(self, profile, n_cases, max_len, rng, tag=""):
        cases = self.corpus_cases(profile) + gen_seq.cases(rng.fork("seq/" + profile + tag), profile, n_cases, max_len)
        workers = 1 if self.tier == "quick" else 12
        results = run_seq_cases(cases, self.seed, workers)
        nd = 0
        for c, (impl, sides, model) in zip(cases, results):
            self.evaluations += 1
            self.traces += 1
            for l in c:
                k = l.split()[0]
                self.hist[k] = self.hist.get(k, 0) + 1
            nontrivial = any(l.split()[0] in self.cfg["relevant"] and a.startswith(("ok", "msgs")) for l, a in zip(c, impl) if l != "new")
            if nontrivial:
                self.distinct.add(case_hash(c))
            for sig, msg in oracles.run_seq_oracle(self.prop, c, impl, sides):
                if own_signature(self.prop, sig):
                    self.oracle_fail.append((sig, msg, dict(mode="seq", stream=profile, ops=c, impl=impl, model=model)))
            j = first_diff(impl, model)
            if j is not None:
                op = c[j].split()[0] if c[j].split() else ""
                kind = self.root_cause(c)
                if kind is not None:
                    # an actor turn deviates from the model: attribute by the kind of turn
                    hit = kind in self.cfg.get("trace_kinds", set())
                else:
                    hit = op in self.cfg["relevant"] and project(self.prop, op, impl[j]) != project(self.prop, op, model[j])
                if hit or impl[j].startswith(("PANIC", "ABORT", "HANG", "MISSING")):
                    nd += 1
                    self.disagree.append(dict(mode="seq", stream=profile, ops=c, impl=impl, model=model, first_diff=j, turn_kind=kind))
                else:
                    self.unattributed += 1
        if len(self.samples) < 6 and cases:
            c = cases[-1]
            self.samples.append({"stream": "seq/" + profile, "ops": [o[:240] for o in c[:12]], "n_ops": len(c)})
        self.streams_run.append({"stream": "seq/" + profile + tag, "cases": len(cases), "disagreements": nd})

    def conc_stream(self, profile, n_cases, rng):
        """Concurrent scenarios: implementation-side oracles on the call/return history, and
        validation of the implementation's actor-turn log against the model's turn functions."""
        cases = gen_conc.cases(rng.fork("conc/" + profile), profile, n_cases)
        if not getattr(self, "_in_corpus", False):
            for ops, seed in self.corpus_cases(profile, "conc"):
                self._in_corpus = True
                try:
                    self.conc_cases("corpus/" + profile, [ops], seed)
                finally:
                    self._in_corpus = False
        self.conc_cases(profile, cases, self.seed)

    def conc_cases(self, profile, cases, seed):
        lines = [l for c in cases for l in c]
        out, sides, trace, crashed = run_impl_conc(lines, seed)
        verdicts, _, _ = run_model("trace", "\n".join(trace) + "\n")
        nd = 0
        kinds = self.cfg.get("trace_kinds", set())
        diverged = set()
        for idx, (tl, v) in enumerate(zip(trace + ["end"], verdicts)):
            if v != "ok":
                toks = tl.split()
                case_no = toks[0] if toks else "?"
                if case_no in diverged:
                    continue          # only the first deviating turn of a case is a root cause
                diverged.add(case_no)
                kind = mismatch_kind(trace, idx, v)
                # an event the validator cannot interpret means the log format and the driver have drifted
                # apart: that is a broken tie for every property, never something to skip silently
                if "unparsed" in v or kind in kinds or (kind == "end" and "post" in kinds):
                    nd += 1
                    self.disagree.append(dict(mode="trace", stream="conc/" + profile, ops=[tl], impl=[tl], model=[v], first_diff=0))
                else:
                    self.unattributed += 1
        if self.cfg.get("p1"):
            # slice P1: the life-cycle events of every subscription name must be a run of the
            # (repaired) create/delete protocol proved in Deltio/Proto/Attach.lean
            pv, _, _ = run_model("p1", "\n".join(trace) + "\n")
            seen = set()
            for tl, v in zip(trace, pv):
                if v != "ok":
                    case_no = tl.split()[0] if tl.split() else "?"
                    if case_no in seen:
                        continue
                    seen.add(case_no)
                    nd += 1
                    self.p1_fail = getattr(self, "p1_fail", 0) + 1
                    self.disagree.append(dict(mode="trace", stream="conc/" + profile + "/p1", ops=[tl], impl=[tl], model=[v], first_diff=0))
            self.p1_events = getattr(self, "p1_events", 0) + sum(1 for tl in trace if (" attach " in tl or " remove " in tl or " new " in tl or "delete." in tl))
        if self.cfg.get("p6"):
            # slice P6: per topic, publish turns, post enqueues, replies and post turns must be a run of
            # the fan-out protocol proved in Deltio/Proto/Fanout.lean (C01_schedules, C08_posts_in_order)
            pv, _, _ = run_model("p6", "\n".join(trace) + "\n")
            seen = set()
            for tl, v in zip(trace, pv):
                if v != "ok":
                    case_no = tl.split()[0] if tl.split() else "?"
                    if case_no in seen:
                        continue
                    seen.add(case_no)
                    nd += 1
                    self.p6_fail = getattr(self, "p6_fail", 0) + 1
                    self.disagree.append(dict(mode="trace", stream="conc/" + profile + "/p6", ops=[tl], impl=[tl], model=[v], first_diff=0))
            self.p6_events = getattr(self, "p6_events", 0) + sum(1 for tl in trace if (" publish" in tl or " post" in tl))
            # one Publish request = ONE publish turn of the topic actor (what slice P6 assumes): the ids a Publish
            # was answered with are exactly the ids of one logged publish turn
            turns = {}
            for tl in trace:
                t = tl.split()
                if len(t) >= 7 and t[1] == "topic" and t[3] == "publish" and t[5] == "->":
                    ids = [x for x in t[6].split(",") if x and x != "-"]
                    if ids:
                        turns[(t[0], ids[0])] = ids
            case_no = 0
            flagged = set()
            for l, a in zip(lines, out):
                tk = l.split()
                if tk and tk[0] == "new":
                    case_no += 1
                if tk and tk[0] == "pub" and a.startswith("ok ") and case_no not in flagged:
                    try:
                        ids = [bytes.fromhex(h).decode() for h in a[3:].strip().split(",") if h and h != "-"]
                    except ValueError:
                        continue
                    if ids and turns.get((str(case_no), ids[0])) != ids:
                        flagged.add(case_no)
                        nd += 1
                        self.p6_fail = getattr(self, "p6_fail", 0) + 1
                        self.disagree.append(dict(mode="trace", stream="conc/" + profile + "/p6", ops=[l[:300]], impl=[a[:300]],
                                                  model=["p6:publish-request-is-not-one-publish-turn"], first_diff=0))
        i = 0
        for c in cases:
            n = len(c)
            self.evaluations += 1
            self.traces += 1
            ans, sd = out[i:i + n], sides[i:i + n]
            i += n
            for l in c:
                k = l.split()[0] if l.split() else ""
                self.hist[k] = self.hist.get(k, 0) + 1
            if any(a.startswith(("ok", "msgs")) for l, a in zip(c, ans) if l.split() and l.split()[0] in self.cfg["relevant"]):
                self.distinct.add(case_hash(c + sd))
            if profile.split("/")[-1] in self.cfg.get("no_oracle", ()):
                continue          # this property's oracle is not defined for histories of this profile (trace / slice validation only)
            for sig, msg in oracles.run_seq_oracle(self.prop, c, ans, sd, conc=True):
                if own_signature(self.prop, sig):
                    self.oracle_fail.append((sig, msg, dict(mode="conc", stream=profile, ops=c, impl=ans, model=[], seed=seed)))
        if crashed:
            self.oracle_fail.append(("abort:conc", "the harness process died while running conc/%s" % profile,
                                     dict(mode="conc", stream=profile, ops=lines[:50], impl=[], model=[])))
        if len(self.samples) < 6 and cases:
            self.samples.append({"stream": "conc/" + profile, "ops": [o[:240] for o in cases[-1][:14]], "n_ops": len(cases[-1]), "trace_events": len(trace)})
        self.streams_run.append({"stream": "conc/" + profile, "cases": len(cases), "trace_events": len(trace), "disagreements": nd})

    def push_stream(self, rng):
        """C14: the real push loop against a scripted HTTP endpoint (real clock)."""
        table, _, _ = run_model("pure", "\n".join("push.accepts %d" % st for st in range(100, 600)) + "\n")
        accepts = {100 + i: v == "1" for i, v in enumerate(table)}
        dtab, _, _ = run_model("pure", "\n".join("push.dispatch %s" % o for o in ["close", "hang"] + [str(st) for st in range(100, 600)]) + "\n")
        dispatch = dict(zip(["close", "hang"] + [str(st) for st in range(100, 600)], dtab))
        scen = [gen_push.scenario(rng.fork("push/%d" % i), self.tier) for i in range(1 if self.tier == "quick" else 4)]
        if self.prop == "C14":
            scen.append(gen_push.slow_sibling(rng))
            scen.append(gen_push.midround_delete(rng.fork("push/mid")))
        if self.tier != "quick" and self.prop == "C14":
            scen.append(gen_push.slow_102(rng))
        nd = 0
        from concurrent.futures import ThreadPoolExecutor
        def run_one(sc):
            return subprocess.run([DVH, "push", "-"], input="\n".join(sc[0]) + "\n", env=ENV, stdout=subprocess.PIPE,
                                  stderr=subprocess.PIPE, text=True, timeout=600)
        with ThreadPoolExecutor(max_workers=len(scen)) as ex:
            procs = list(ex.map(run_one, scen))
        for (lines, meta), p in zip(scen, procs):
            answers = p.stdout.split("\n")
            self.evaluations += len(meta["msgs"])
            self.traces += 1
            fails, corr = oracles.c14_push(lines, answers, meta, lambda st: accepts.get(st, False))
            fails = fails + oracles.c14_midround(lines, answers, meta)
            if self.prop == "C14":
                corr = corr + oracles.c14_dispatch(lines, answers, meta, lambda o: dispatch.get(o, "?"))
            for d in meta["msgs"]:
                self.distinct.add("push/" + d)
            for sig, msg in fails:
                if sig.startswith(self.prop.lower() + ":") or not sig.startswith(("c09:", "c14:")):
                    self.oracle_fail.append((sig, msg, dict(mode="push", stream="push", ops=lines, impl=answers, model=[])))
            for c in corr:
                if c.startswith("status ") and self.prop != "C14":
                    continue          # the accepted-status table is C14's; C09 is about the payload
                if c.startswith("status 102:") and self.is_known("c14:accepted-status-reposted:102"):
                    continue          # same root cause as the listed finding
                nd += 1
                self.disagree.append(dict(mode="push", stream="push", ops=lines[:5], impl=[c], model=["pushAccepts"], first_diff=0))
            if p.returncode != 0:
                self.oracle_fail.append(("abort:push", "push harness died: " + p.stderr[-300:], dict(mode="push", stream="push", ops=lines, impl=answers, model=[])))
        if len(self.samples) < 6:
            self.samples.append({"stream": "push", "ops": [o[:240] for o in scen[0][0][:12]], "messages": len(scen[0][1]["msgs"])})
        self.streams_run.append({"stream": "push", "cases": len(scen), "disagreements": nd})

    def root_cause(self, case):
        """Re-run one disagreeing sequential case alone and validate its actor-turn log against the
        model: returns the kind of the first deviating turn (post / pull / ack / modify / expire / publish /
        attach / remove / delete…) or None when every turn agrees (the deviation is above the actors)."""
        from . import common
        try:
            common.run_impl("seq", "\n".join(case) + "\n", self.seed)
            trace = list(common.LAST_TRACE)
            verdicts, _, _ = run_model("trace", "\n".join(trace) + "\n")
            for idx, v in enumerate(verdicts):
                if v != "ok":
                    return mismatch_kind(trace, idx, v)
        except Exception:
            return None
        return None

    def corpus_cases(self, profile, mode="seq"):
        """Minimised past failures (of the model, of a generator, of a seeded change) kept under
        corpus/<property>/<profile>-*.json; they run before the generated cases."""
        d = os.path.join(VERIF, "corpus", self.prop)
        out = []
        if os.path.isdir(d):
            for f in sorted(os.listdir(d)):
                if f.endswith(".ops") and f.startswith(profile) and mode == "seq":
                    out += split_cases([l.rstrip("\n") for l in open(os.path.join(d, f)) if l.strip()])
                elif f.endswith(".json") and f.startswith(profile + "-"):
                    c = json.load(open(os.path.join(d, f)))
                    if c.get("mode") == mode:
                        out.append(c["ops"] if mode == "seq" else (c["ops"], c.get("seed", 1)))
        return out

    # -- decision ----------------------------------------------------------------------------
    def is_known(self, sig):
        for k in self.known:
            if k.get("property") == self.prop and k.get("status") == "known" and sig.startswith(k["signature"]):
                return k
        return None

    def write_replay(self, kind, rep, sig="", msg=""):
        d = os.path.join(VERIF, "replays")
        os.makedirs(d, exist_ok=True)
        body = dict(property=self.prop, kind=kind, signature=sig, message=msg, seed=self.seed, tier=self.tier)
        body.update(rep)
        h = hashlib.sha256(json.dumps(body, sort_keys=True).encode()).hexdigest()[:12]
        path = os.path.join(d, "%s-%s.json" % (self.prop, h))
        with open(path, "w") as f:
            json.dump(body, f, indent=1)
        return path

    def shrink(self, sig, rep):
        if rep["mode"] != "seq" or len(rep["ops"]) <= 3:
            return rep          # concurrent / push scenarios are kept whole (the schedule seed is part of them)

        def pred(lines):
            r = run_seq_cases([lines], self.seed)[0]
            return any(s == sig for s, _ in oracles.run_seq_oracle(self.prop, lines, r[0], r[1]))
        small = shrink_seq(self.prop, rep["ops"], pred)
        r = run_seq_cases([small], self.seed)[0]
        return dict(mode="seq", stream=rep["stream"], ops=small, impl=r[0], model=r[2])

    def search_more(self, rng):
        """A proof obligation or the correspondence broke but no oracle fired: look harder for a
        concrete failing input (more seeds of the property's own streams)."""
        before = len(self.oracle_fail)
        for (profile, q, t, ml) in self.cfg["seq"]:
            for extra in range(3):
                self.seq_stream(profile, q, ml, rng, tag="/search%d" % extra)
                if len(self.oracle_fail) > before:
                    return
        for (profile, q, t) in self.cfg.get("conc", []):
            for extra in range(3):
                self.conc_stream(profile, q * 2, rng.fork("search%d" % extra))
                if len(self.oracle_fail) > before:
                    return

    def finish(self, gate):
        violations = 0
        lines_out = []
        reported = set()
        known_reported = set()
        new_fail = []
        for sig, msg, rep in self.oracle_fail:
            k = self.is_known(sig)
            if k:
                if k["signature"] not in known_reported:
                    known_reported.add(k["signature"])
                    lines_out.append("KNOWN-FINDING: property=%s %s" % (self.prop, k["what"]))
            else:
                new_fail.append((sig, msg, rep))
        if new_fail:
            sig, msg, rep = new_fail[0]
            rep = self.shrink(sig, rep)
            path = self.write_replay("oracle", rep, sig, msg)
            lines_out.append("VIOLATION property=%s replay=%s" % (self.prop, path))
            log("oracle failure [%s]: %s" % (sig, msg))
            violations = len(set(s for s, _, _ in new_fail))
        elif self.disagree or not gate["ok"]:
            before = len(self.oracle_fail)
            self.search_more(Rng(self.seed).fork("search"))
            fresh = [(s, m, r) for (s, m, r) in self.oracle_fail[before:] if not self.is_known(s)]
            if fresh:
                sig, msg, rep = fresh[0]
                rep = self.shrink(sig, rep)
                path = self.write_replay("oracle", rep, sig, msg)
                lines_out.append("VIOLATION property=%s replay=%s" % (self.prop, path))
                violations = 1
            else:
                if self.disagree:
                    rep = self.disagree[0]
                    j = rep.get("first_diff", 0)
                    msg = "model/implementation disagreement in stream %s at op #%d `%s`: impl=%r model=%r" % (
                        rep["stream"], j, rep["ops"][j][:100], rep["impl"][j][:200], rep["model"][j][:200])
                    path = self.write_replay("correspondence", rep, "correspondence:" + rep["stream"], msg)
                else:
                    msg = "proof obligation no longer checks: " + "; ".join(gate["failures"])
                    path = self.write_replay("proof", dict(mode="proof", stream="lean", ops=[], impl=[], model=[]), "proof:" + self.cfg["module"], msg)
                log(msg)
                lines_out.append("VIOLATION property=%s replay=%s no-failing-input-found" % (self.prop, path))
                violations = 1
        self.write_evidence(gate, violations)
        for l in lines_out:
            print(l)
        sys.stdout.flush()
        return 1 if violations else 0

    def write_evidence(self, gate, violations):
        cov = {
            "obligations": gate["obligations"], "discharged": gate["discharged"], "checker_cmd": gate.get("cmd", ""),
            "trusted_base": TRUSTED_BASE, "theorems": gate.get("theorems", []), "axioms": gate.get("axioms", {}),
            "proof_gate_failures": gate.get("failures", []),
            "evaluations": self.evaluations, "distinct_nontrivial": len(self.distinct),
            "rule": "correspondence cases: pure streams count distinct input lines; seq streams count distinct histories (sha256 of the op "
                    "list) containing at least one successful op of a kind relevant to this property; generators are seeded (splitmix64) "
                    "from VERIF_SEED, corpus cases run first",
            "samples": self.samples, "traces_validated_against_impl": self.traces, "streams": self.streams_run,
            "op_histogram": dict(sorted(self.hist.items())), "disagreements": len(self.disagree),
            "unattributed_disagreements": self.unattributed, "oracle_failures": len(self.oracle_fail),
            "disagreement_samples": [dict(stream=d.get("stream"), at=(d.get("ops") or [""])[d.get("first_diff", 0)][:120],
                                          model=(d.get("model") or [""])[min(d.get("first_diff", 0), max(len(d.get("model") or [""]) - 1, 0))][:120])
                                     for d in self.disagree[:5]],
        }
        if getattr(self, "const_records", None):
            cov["source_constants"] = self.const_records
        if self.cfg.get("p6"):
            cov["slice_p6_refinement"] = {"fan_out_events_validated": getattr(self, "p6_events", 0),
                                          "cases_not_a_run_of_the_model": getattr(self, "p6_fail", 0)}
        if self.cfg.get("p1"):
            cov["slice_p1_refinement"] = {"life_cycle_events_validated": getattr(self, "p1_events", 0),
                                          "cases_not_a_run_of_the_model": getattr(self, "p1_fail", 0)}
        ev = {"property_id": self.prop, "tier": self.tier, "seed": self.seed, "level": "proof", "coverage": cov,
              "assumptions": ["sequential histories: each request completes before the next is issued (concurrency is covered by the L2 "
                              "slices and trace streams where claimed)", "virtual time via tokio's paused clock"],
              "wall_s": round(time.time() - self.t0, 2), "violations": violations}
        os.makedirs(os.path.join(VERIF, "evidence"), exist_ok=True)
        with open(os.path.join(VERIF, "evidence", "%s.json" % self.prop), "w") as f:
            json.dump(ev, f, indent=1)


def main_check(prop, tier):
    seed = int(os.environ.get("VERIF_SEED", "1") or "1")
    chk = Check(prop, tier, seed)
    try:
        st = build_harness(log)
        log("harness: " + st)
    except BuildError as e:
        log(str(e))
        gate = dict(ok=False, obligations=1, discharged=0, failures=["harness does not build against /repo: %s" % e], cmd="cargo build")
        path = chk.write_replay("build", dict(mode="build", stream="cargo", ops=[], impl=[], model=[]), "build", str(e))
        chk.write_evidence(gate, 1)
        print("VIOLATION property=%s replay=%s no-failing-input-found" % (prop, path))
        return 1
    gate = prover.gate(chk.cfg["module"], tier == "thorough", log)
    log("proof gate: %d/%d theorems, ok=%s %s" % (gate["discharged"], gate["obligations"], gate["ok"], gate["failures"]))
    # source literals the model depends on (secondary tie, DESIGN 3.4)
    try:
        from . import consts
        chk.const_records, cdis = consts.check(prop)
        for d in cdis:
            chk.disagree.append(dict(mode="const", stream="source-constants", ops=[d], impl=[d], model=["model constant"], first_diff=0))
    except Exception as ex:      # the extractor must never take a check down
        chk.const_records = [{"error": repr(ex)[:200]}]
    # every stream derives its cases from (seed, stream name) alone: a stream's cases do not depend on which
    # other streams the property runs or on how much randomness they consumed, and the same profile gives the
    # same cases to every property that uses it
    for name in chk.cfg["pure"]:
        chk.pure_stream(name, Rng(seed))
    for (profile, q, t, ml) in chk.cfg["seq"]:
        chk.seq_stream(profile, q if tier == "quick" else t, ml, Rng(seed))
    for (profile, q, t) in chk.cfg.get("conc", []):
        chk.conc_stream(profile, q if tier == "quick" else t, Rng(seed))
    if chk.cfg.get("push"):
        chk.push_stream(Rng(seed))
    for extra in chk.cfg.get("extra", []):
        extra(chk, Rng(seed))
    return chk.finish(gate)
