"""Implementation-side oracles: the properties evaluated directly on what the real server
answered (ops + impl answers + impl side channel), independently of the Lean model.

Each oracle returns a list of (signature, message). A signature is structural (which clause,
which call site / input class) so that known findings can be matched without hiding others.
"""
import re
from .common import unhx, sl

US = 10 ** 6
MAXU64 = 2 ** 64


def split_name(raw, kind):
    """Independent splitter for `projects/<p>/<kind>/<id>` per the statement of C18.
    Returns (project, id) or None."""
    pfx = b"projects/"
    if not raw.startswith(pfx):
        return None
    rest = raw[len(pfx):]
    i = rest.find(b"/")
    if i < 0:
        return None
    proj, tail = rest[:i], rest[i:]
    mid = b"/" + kind + b"/"
    if not tail.startswith(mid):
        return None
    return (proj, tail[len(mid):].strip(b"/"))


def ackid_ok(b):
    s = b[1:] if b[:1] == b"+" else b
    return len(s) > 0 and all(48 <= c <= 57 for c in s) and int(s) < MAXU64


def parse_delivs(s):
    out = []
    for it in sl(s, ","):
        a, m, d, at = it.split(":")
        out.append((int(unhx(a)), int(unhx(m)), d, at))
    return out


class Ev:
    __slots__ = ("i", "op", "args", "ans", "t0", "t1", "side", "line", "b", "e", "dropped")

    def __repr__(self):
        return "%s@%d" % (self.op, self.t1)


def history(ops, answers, sides, conc=False):
    evs = []
    timed = []
    t_prev = 0
    for i, (l, a) in enumerate(zip(ops, answers)):
        toks = l.split()
        e = Ev()
        e.i, e.line = i, l
        e.op, e.args = (toks[0], toks[1:]) if toks else ("", [])
        e.dropped = False
        if toks and ((toks[0].startswith("dropat") and toks[0][6:].isdigit()) or (toks[0].startswith("dropw") and toks[0][5:].isdigit())) and len(toks) > 2:
            e.op, e.args = toks[2], toks[3:]
            e.dropped = a == "dropped"
        elif toks and (toks[0] == "direct" or (toks[0].startswith("drop") and toks[0][4:].isdigit())) and len(toks) > 1:
            e.op, e.args = toks[1], toks[2:]
            e.dropped = a == "dropped"
            if e.op == "csub" and len(e.args) == 3:
                e.args = e.args + ["-"]
        if e.op == "acklast" and e.args:
            # acknowledges exactly what the client's last Pull returned; the answer names the ids
            e.op = "ack"
            e.args = [e.args[0], (a[3:].strip() or "-") if a.startswith("ok") else "-"]
            a = "ok" if a.startswith("ok") else a
        e.ans = a
        sd = sides[i] if i < len(sides) else ""
        e.b = e.e = i
        if conc:
            parts = sd.split(" ", 3)
            try:
                e.t1, e.b, e.e = int(parts[0]), int(parts[1]), int(parts[2])
                timed.append(e)
            except (ValueError, IndexError):
                e.t1 = t_prev
            e.side = parts[3] if len(parts) > 3 else ""
        else:
            parts = sd.split(" ", 1)
            try:
                e.t1 = int(parts[0])
            except ValueError:
                e.t1 = t_prev
            e.side = parts[1] if len(parts) > 1 else ""
        e.t0 = t_prev
        if e.op == "new":
            e.t0 = e.t1 = 0
        t_prev = e.t1
        evs.append(e)
    if conc:
        # begin time of an op inside a task: the end time of the previous op of the same task is
        # not known per line; use the latest end time among ops that certainly ended before it began
        ends = sorted((x.e, x.t1) for x in timed)
        import bisect
        keys = [k for k, _ in ends]
        best = []
        m = 0
        for _, t in ends:
            m = max(m, t)
            best.append(m)
        for x in timed:
            j = bisect.bisect_left(keys, x.b) - 1
            x.t0 = best[j] if j >= 0 else 0
            if x.t0 > x.t1:
                x.t0 = x.t1
    return evs


class World:
    """What the oracle itself can infer from the history (its own bookkeeping, not the model)."""

    def __init__(self, evs):
        self.evs = evs
        self.topic_inc = {}      # canonical topic name -> incarnation number (live) or absent
        self.inc_counter = 0
        self.subs = {}           # canonical sub name -> dict(inc, topic_inc, topic, effdl, created_at, push)
        self.sub_counter = 0
        self.pubs = []           # (t, topic_inc, ids, payloads, ev index)
        self.delivs = []         # dict(sub_inc, sub, t0, t1, items, via, ev)
        self.acks = []           # dict(sub_inc, t0, t1, ids(raw bytes), ev)
        self.mods = []           # dict(sub_inc, t0, t1, ids, secs list, ev)
        self.dead_subs = []      # deleted incarnations: dict(inc, deleted_at)
        self.streams = {}        # k -> dict(sub_inc, sub, max, last_read)
        self.topic_order = []    # (inc, name) creation order, live only
        self.sub_order = []      # (inc, name)
        self.failures = []
        self.build()

    def fail(self, sig, msg):
        self.failures.append((sig, msg))

    def build(self):
        for e in self.evs:
            a = e.args
            ok = e.ans.startswith("ok")
            if e.op == "ctopic" and ok:
                n = split_name(unhx(a[0]), b"topics")
                if n is not None:
                    self.inc_counter += 1
                    self.topic_inc[n] = self.inc_counter
                    self.topic_order.append((self.inc_counter, n))
            elif e.op == "dtopic" and ok:
                n = split_name(unhx(a[0]), b"topics")
                if n in self.topic_inc:
                    inc = self.topic_inc.pop(n)
                    self.topic_order = [x for x in self.topic_order if x[0] != inc]
            elif e.op == "csub" and ok:
                n = split_name(unhx(a[0]), b"subscriptions")
                t = split_name(unhx(a[1]), b"topics")
                if n is not None:
                    self.sub_counter += 1
                    dl = int(a[2])
                    self.subs[n] = dict(inc=self.sub_counter, topic_inc=self.topic_inc.get(t), topic=t,
                                        effdl=max(dl, 10) * US, created_at=e.t0, push=a[3], ev=e.i, b=e.b, e=e.e)
                    self.sub_order.append((self.sub_counter, n))
            elif e.op == "dsub" and ok:
                n = split_name(unhx(a[0]), b"subscriptions")
                if n in self.subs:
                    s = self.subs.pop(n)
                    self.dead_subs.append(dict(inc=s["inc"], deleted_at=e.t1, name=n, topic_inc=s["topic_inc"], ev=e.i, b=e.b, e=e.e))
                    self.sub_order = [x for x in self.sub_order if x[0] != s["inc"]]
            elif e.op == "pub" and ok:
                t = split_name(unhx(a[0]), b"topics")
                ids = [int(unhx(x)) for x in sl(e.ans[3:].strip(), ",")]
                payloads = []
                for m in sl(a[1], ","):
                    parts = m.split(";", 1)
                    payloads.append((parts[0], parts[1] if len(parts) > 1 else "-"))
                self.pubs.append(dict(t0=e.t0, t1=e.t1, topic_inc=self.topic_inc.get(t), ids=ids, payloads=payloads, ev=e.i, b=e.b, e=e.e))
            elif e.op == "pull" and ok:
                n = split_name(unhx(a[0]), b"subscriptions")
                s = self.subs.get(n)
                items = parse_delivs(e.ans[3:].strip())
                self.delivs.append(dict(sub_inc=s["inc"] if s else None, sub=n, t0=e.t0, t1=e.t1, items=items, via="pull",
                                        ev=e.i, ev0=e.i, b=e.b, e=e.e, max=int(a[1]), ri=a[2] == "1", times=e.side))
            elif e.op == "sopen" and ok:
                n = split_name(unhx(a[1]), b"subscriptions")
                s = self.subs.get(n)
                self.streams[int(a[0])] = dict(sub_inc=s["inc"] if s else None, sub=n, max=int(a[2]), last_read=e.t0, last_ev=e.i, last_b=e.b)
            elif e.op == "sread":
                st = self.streams.get(int(a[0]))
                if st:
                    for k, it in enumerate(e.ans.split(" ")):
                        if it.startswith("msgs:"):
                            items = parse_delivs(it[5:])
                            self.delivs.append(dict(sub_inc=st["sub_inc"], sub=st["sub"], t0=st["last_read"], t1=e.t1, items=items,
                                                    via="stream", ev=e.i, ev0=st["last_ev"], b=st["last_b"], e=e.e, max=st["max"], ri=True, times=""))
                    st["last_read"] = e.t1
                    st["last_ev"] = e.i
                    st["last_b"] = e.b
            elif e.op == "ack" and ok:
                n = split_name(unhx(a[0]), b"subscriptions")
                s = self.subs.get(n)
                self.acks.append(dict(sub_inc=s["inc"] if s else None, t0=e.t0, t1=e.t1, ids=[unhx(x) for x in sl(a[1], ",")], ev=e.i, b=e.b, e=e.e))
            elif e.op == "mod" and ok:
                n = split_name(unhx(a[0]), b"subscriptions")
                s = self.subs.get(n)
                ids = [unhx(x) for x in sl(a[2], ",")]
                self.mods.append(dict(sub_inc=s["inc"] if s else None, t0=e.t0, t1=e.t1, ids=ids, secs=[int(a[1])] * len(ids), ev=e.i, b=e.b, e=e.e))
            elif e.op == "ssend" and e.ans == "ok":
                st = self.streams.get(int(a[0]))
                if st and a[1] == "-" and int(a[5]) <= 0 and int(a[6]) <= 0:
                    acks = [unhx(x) for x in sl(a[2], ",")]
                    mids = [unhx(x) for x in sl(a[3], ",")]
                    secs = [int(x) for x in sl(a[4], ",")]
                    valid = len(mids) == len(secs) and all(ackid_ok(x) for x in acks + mids) and all(x >= 0 for x in secs)
                    if valid:
                        if acks:
                            self.acks.append(dict(sub_inc=st["sub_inc"], t0=e.t0, t1=e.t1, ids=acks, ev=e.i, b=e.b, e=e.e + 1000000))
                        if mids:
                            self.mods.append(dict(sub_inc=st["sub_inc"], t0=e.t0, t1=e.t1, ids=mids, secs=secs, ev=e.i, b=e.b, e=e.e + 1000000))


# ---------------------------------------------------------------------------------------------

def generic(evs):
    """Outputs the model never produces: panic, abort, hang, misaligned clock (all properties)."""
    f = []
    for e in evs:
        for bad in ("PANIC", "ABORT", "HANG", "CLOCK-MISALIGNED", "INCONSISTENT"):
            if e.ans.startswith(bad):
                f.append(("%s:%s" % (bad.lower(), e.op), "%s answered to `%s`" % (bad, e.line[:120])))
        if e.ans in ("unknown", "unavailable", "cancelled", "data_loss", "deadline_exceeded") and e.op != "sopen":
            f.append(("transport:%s:%s" % (e.ans, e.op), "transport-level status %s for `%s`" % (e.ans, e.line[:120])))
    return f


def _names(ids, ack):
    return any(ackid_ok(i) and int(i[1:] if i[:1] == b"+" else i) == ack for i in ids)


def _lease_end_lower(w, d, ack, upto_ev, skip=None):
    """Earliest instant at which the lease of delivery d / ack id `ack` may have ended, given the
    successful modifications issued after the delivery could have happened and before event
    `upto_ev`. None = possibly ended by a nack (or an ack) at any time."""
    effdl = 10 * US                           # the minimum applies whatever the subscription says
    for x in list(w.subs.values()):
        if x["inc"] == d["sub_inc"]:
            effdl = x["effdl"]
    end = d["t0"] + effdl
    for m in w.mods:
        if m["sub_inc"] != d["sub_inc"] or m["e"] <= d["b"] or m["b"] >= upto_ev:
            continue
        for i, s_ in zip(m["ids"], m["secs"]):
            if _names([i], ack):
                if s_ == 0 or m["t1"] >= end:
                    return None           # nacked, or the lease may have been over when modified
                end = min(end, m["t0"] + min(s_, 600) * US) if m["b"] <= d["e"] else m["t0"] + min(s_, 600) * US
    for x in w.acks:
        if x is skip:
            continue
        if x["sub_inc"] == d["sub_inc"] and d["b"] < x["e"] and x["b"] < upto_ev and _names(x["ids"], ack):
            return None
    return end


def c03(w):
    """Exclusive lease, fresh ack ids, no duplicate in a response."""
    f = []
    seen_acks = {}
    last = {}      # (sub_inc, msg) -> (deliv, ack)
    for d in w.delivs:
        if d["sub_inc"] is None:
            continue
        ids = [m for (_, m, _, _) in d["items"]]
        if len(ids) != len(set(ids)):
            f.append(("c03:dup-in-response", "one response on %r carries a message twice (op #%d)" % (d["sub"], d["ev"])))
        for (a, m, _, _) in d["items"]:
            key = (d["sub_inc"], a)
            if key in seen_acks:
                f.append(("c03:ack-id-reused", "ack id %d issued twice on %r (ops #%d, #%d)" % (a, d["sub"], seen_acks[key], d["ev"])))
            seen_acks[key] = d["ev"]
            k2 = (d["sub_inc"], m)
            if k2 in last:
                pd, pa = last[k2]
                end = _lease_end_lower(w, pd, pa, d["e"])
                if pd["e"] < d["b"] and end is not None and d["t1"] < end:
                    f.append(("c03:lease-broken:%s" % d["via"],
                              "message %d delivered again on %r at t<=%d while its lease (ack id %d, handed out at >=%d) runs until >=%d (op #%d)"
                              % (m, d["sub"], d["t1"], pa, pd["t0"], end, d["ev"])))
            last[k2] = (d, a)
    return f


def c02(w):
    """Acknowledgement is final: a message acked while its lease was certainly live never comes back."""
    f = []
    by_ack = {}
    for d in w.delivs:
        for (a, m, _, _) in d["items"]:
            by_ack[(d["sub_inc"], a)] = (d, m)
    for x in w.acks:
        for raw in x["ids"]:
            if not ackid_ok(raw):
                continue
            a = int(raw.lstrip(b"+"))
            hit = by_ack.get((x["sub_inc"], a))
            if not hit:
                continue
            d, m = hit
            if d["e"] >= x["b"]:
                continue                      # not certainly delivered before the ack was issued
            # every modification / other ack that may have taken effect before this ack returned counts; the ack
            # itself is not "something that ended the lease earlier"
            end = _lease_end_lower(w, d, a, x["e"], skip=x)
            if end is None or x["t1"] >= end:
                continue                      # the lease may already have ended: no claim
            for d2 in w.delivs:
                if d2["sub_inc"] == x["sub_inc"] and d2 is not d and d2["b"] > x["e"] and any(mm == m for (_, mm, _, _) in d2["items"]):
                    f.append(("c02:redelivered-after-ack:%s" % d2["via"],
                              "message %d acknowledged (ack id %d, op #%d) at t=%d while leased until >=%d, delivered again at op #%d"
                              % (m, a, x["ev"], x["t1"], end, d2["ev"])))
                    break
    return f


def c04(w):
    """Never redelivered before handout + effective deadline (no modification); and available by
    handout + deadline + 100 ms rounding + 1 ms timer tick for a pull that had room."""
    f = []
    last = {}
    for d in w.delivs:
        if d["sub_inc"] is None:
            continue
        sub = [x for x in w.subs.values() if x["inc"] == d["sub_inc"]]
        # --- too late: everything whose lease certainly ended must be in a pull that had room
        if not getattr(w, "conc", False) and d["via"] == "pull" and d["ri"] and sub and 1 <= d["max"] <= 1000 and len(d["items"]) < d["max"]:
            have = set(m for (_, m, _, _) in d["items"])
            for (sinc, m), (pd, pa) in list(last.items()):
                if sinc != d["sub_inc"] or m in have:
                    continue
                modified = any(x["sub_inc"] == sinc and x["e"] > pd["b"] and _names(x["ids"], pa) for x in w.mods)
                acked = any(x["sub_inc"] == sinc and x["e"] > pd["b"] and _names(x["ids"], pa) for x in w.acks)
                open_stream = any(st["sub_inc"] == sinc for st in w.streams.values())
                if modified or acked or open_stream:
                    continue
                if d["t0"] >= pd["t1"] + sub[0]["effdl"] + 101000:
                    f.append(("c04:late", "message %d (ack id %d handed out by t=%d, deadline %d us) still not redelivered by a pull with room at t=%d (op #%d)"
                              % (m, pa, pd["t1"], sub[0]["effdl"], d["t0"], d["ev"])))
        for (a, m, _, _) in d["items"]:
            k2 = (d["sub_inc"], m)
            if k2 in last:
                # --- too early: a delivery that was neither acknowledged nor modified is not handed out
                # again before hand-out + effective deadline
                pd, pa = last[k2]
                touched = any(x["sub_inc"] == d["sub_inc"] and x["e"] > pd["b"] and x["b"] < d["e"] and _names(x["ids"], pa) for x in w.mods) or \
                    any(x["sub_inc"] == d["sub_inc"] and x["e"] > pd["b"] and x["b"] < d["e"] and _names(x["ids"], pa) for x in w.acks)
                effdl = sub[0]["effdl"] if sub else 10 * US
                if not touched and pd["e"] < d["b"] and d["t1"] < pd["t0"] + effdl:
                    f.append(("c04:early:%s" % d["via"],
                              "message %d redelivered on %r at t<=%d although its unmodified delivery (ack id %d, handed out at >=%d) has a deadline of %d us (op #%d)"
                              % (m, d["sub"], d["t1"], pa, pd["t0"], effdl, d["ev"])))
            last[k2] = (d, a)
    return f


def c01(w):
    """No loss, no foreign message (intervals: b = begin, e = end sequence number of a call)."""
    f = []
    # incarnations of topics and subscriptions with the calls that created / (maybe) deleted them
    topics = {}      # name -> current incarnation dict
    subs = {}
    all_subs = []
    counter = 0
    unknown_pub = set()       # topic names with an abandoned / hung publish: unknown ids may exist
    for e in w.evs:
        ok = e.ans.startswith("ok")
        maybe = ok or e.dropped or e.ans.startswith("HANG")
        if e.op == "ctopic" and maybe:
            n = split_name(unhx(e.args[0]), b"topics")
            if n is not None and (ok or n not in topics):
                counter += 1
                topics[n] = dict(inc=counter, b=e.b, e=e.e, del_b=None)
        elif e.op == "dtopic" and maybe:
            n = split_name(unhx(e.args[0]), b"topics")
            if n in topics and topics[n]["del_b"] is None:
                topics[n]["del_b"] = e.b
                if ok:
                    topics[n] = dict(topics[n])
                    topics.pop(n)
        elif e.op == "csub" and ok:
            n = split_name(unhx(e.args[0]), b"subscriptions")
            t = split_name(unhx(e.args[1]), b"topics")
            if n is not None:
                ent = dict(name=n, topic=t, tinc=topics.get(t, {}).get("inc"), trec=topics.get(t), b=e.b, e=e.e, del_b=None, deleted=False)
                subs[n] = ent
                all_subs.append(ent)
        elif e.op == "dsub" and maybe:
            n = split_name(unhx(e.args[0]), b"subscriptions")
            if n in subs and subs[n]["del_b"] is None:
                subs[n]["del_b"] = e.b
            if n in subs and ok:
                subs[n]["deleted"] = True
                subs.pop(n)
        elif e.op == "pub" and not ok and (e.dropped or e.ans.startswith("HANG")):
            unknown_pub.add(split_name(unhx(e.args[0]), b"topics"))
    # publishes with their topic incarnation at call time: recompute by replaying creation order
    pubs = []
    tcur = {}
    cnt = 0
    for e in w.evs:
        ok = e.ans.startswith("ok")
        if e.op == "ctopic" and ok:
            n = split_name(unhx(e.args[0]), b"topics")
            if n is not None:
                cnt += 1
                tcur[n] = cnt
        elif e.op == "pub" and ok:
            n = split_name(unhx(e.args[0]), b"topics")
            ids = [int(unhx(x)) for x in sl(e.ans[3:].strip(), ",")]
            pubs.append(dict(topic=n, ids=ids, b=e.b, e=e.e))
    by_name_delivs = {}
    for d in w.delivs:
        by_name_delivs.setdefault(d["sub"], []).append(d)
    acked_by_sub = {}
    by_ack = {}
    for d in w.delivs:
        for (a_, m, _, _) in d["items"]:
            by_ack[(d["sub"], d["sub_inc"], a_)] = m
    for x in w.acks:
        for d in w.delivs:
            pass
    final_stats = {}
    for e in w.evs:
        if e.op in ("stats", "probe") and e.ans not in ("none", "closed") and not e.ans.startswith(("HANG", "PANIC")):
            n = split_name(unhx(e.args[0]), b"subscriptions")
            parts = e.ans.split()
            final_stats[n] = (int(parts[0]), int(parts[1]), e.i)
    drained = hasattr(w, "drain_from")
    for ent in all_subs:
        n = ent["name"]
        trec = ent["trec"]
        if trec is None:
            continue
        allowed, must = set(), set()
        for p in pubs:
            if p["topic"] != ent["topic"]:
                continue
            # not foreign: the publish had not completed before the creation began
            if p["e"] > ent["b"]:
                allowed.update(p["ids"])
            # owed: created before the publish began; neither subscription nor topic deletion began before it ended
            if ent["e"] < p["b"] and (ent["del_b"] is None or ent["del_b"] > p["e"]) and (trec["del_b"] is None or trec["del_b"] > p["e"]) \
                    and trec["e"] < p["b"]:
                must.update(p["ids"])
        got = set()
        for d in by_name_delivs.get(n, []):
            if d["b"] < ent["b"]:
                continue
            if ent["del_b"] is not None and ent["deleted"] and d["b"] > ent["del_b"] and False:
                continue
            for (_, m, _, _) in d["items"]:
                got.add(m)
                if m not in allowed and ent["topic"] not in unknown_pub and not ent["deleted"]:
                    f.append(("c01:foreign", "subscription %r received message %d which was not published to its topic while it was attached (op #%d)"
                              % (n, m, d["ev"])))
        if ent["deleted"] or ent["del_b"] is not None or not drained:
            continue
        st = final_stats.get(n)
        if st is None or st[1] != 0:
            continue
        missing = must - got
        if missing:
            f.append(("c01:lost", "subscription %r never received message(s) %s whose Publish returned while it was attached (backlog empty at the end)"
                      % (n, sorted(missing)[:5])))
        acked = set()
        for x in w.acks:
            for raw in x["ids"]:
                if ackid_ok(raw):
                    for d in by_name_delivs.get(n, []):
                        for (a_, m, _, _) in d["items"]:
                            if a_ == int(raw.lstrip(b"+")) and x["sub_inc"] == d["sub_inc"]:
                                acked.add(m)
        final_seen = set()
        for d in by_name_delivs.get(n, []):
            if d["ev"] >= w.drain_from:
                final_seen.update(m for (_, m, _, _) in d["items"])
        lost = must - acked - final_seen
        if lost:
            f.append(("c01:not-redelivered", "unacknowledged message(s) %s of %r are neither redelivered after all leases ended nor in the backlog"
                      % (sorted(lost)[:5], n)))
    return f


def c08(w):
    f = []
    for p in w.pubs:
        if len(p["ids"]) != len(p["payloads"]):
            f.append(("c08:id-count", "Publish of %d messages returned %d ids (op #%d)" % (len(p["payloads"]), len(p["ids"]), p["ev"])))
        if any(b <= a for a, b in zip(p["ids"], p["ids"][1:])):
            f.append(("c08:ids-not-increasing", "message ids within one response do not increase strictly: %s (op #%d)" % (p["ids"][:6], p["ev"])))
    for p in w.pubs:
        for q in w.pubs:
            if p["topic_inc"] == q["topic_inc"] and p["e"] < q["b"] and p["ids"] and q["ids"] and not (max(p["ids"]) < min(q["ids"])):
                f.append(("c08:ids-not-increasing", "a publish that completed (op #%d) before another began (op #%d) got larger ids: %s vs %s"
                          % (p["ev"], q["ev"], p["ids"][:3], q["ids"][:3])))
    # the messages of one Publish request stay contiguous: no other request's id falls inside its id range
    # (first deliveries are in id order, so an id in between is a message delivered in between)
    for p in w.pubs:
        if len(p["ids"]) < 2:
            continue
        lo, hi = min(p["ids"]), max(p["ids"])
        for q in w.pubs:
            if q is p or q["topic_inc"] != p["topic_inc"]:
                continue
            inside = [i for i in q["ids"] if lo < i < hi]
            if inside:
                f.append(("c08:request-not-contiguous", "message %d of another Publish (op #%d) lies inside the id range %d..%d of one Publish request (op #%d)"
                          % (inside[0], q["ev"], lo, hi, p["ev"])))
                break
    # first deliveries in id order: within a response, and between responses ordered in real time
    firsts = {}
    seen = {}
    # deliveries to a stream that was dropped before being read are invisible to the client: the
    # client-side order check is only sound for subscriptions that never had a stream
    streamed = set(st["sub_inc"] for st in w.streams.values())
    by_e = sorted([d for d in w.delivs if d["sub_inc"] is not None and d["sub_inc"] not in streamed], key=lambda d: d["e"])
    for d in by_e:
        fresh = [m for (_, m, _, _) in d["items"] if not any(m in dd for (ee, dd) in seen.get(d["sub_inc"], []) if ee < d["b"])]
        # `fresh`: not delivered by any response that certainly finished before this one began
        really = [m for m in fresh if not any(m in dd for (_, dd) in seen.get(d["sub_inc"], []))]
        if any(b <= a for a, b in zip(really, really[1:])):
            f.append(("c08:first-delivery-order:%s" % d["via"], "first deliveries inside one response on %r are out of id order: %s (op #%d)" % (d["sub"], really[:6], d["ev"])))
        for (ee, bb, prev) in firsts.get(d["sub_inc"], []):
            if ee < d["b"] and prev and really and max(prev) > min(really):
                f.append(("c08:first-delivery-order:%s" % d["via"], "on %r message %d is first delivered after a later one (%d) was first delivered by a response that had finished (op #%d)"
                          % (d["sub"], min(really), max(prev), d["ev"])))
                break
        firsts.setdefault(d["sub_inc"], []).append((d["e"], d["b"], really))
        seen.setdefault(d["sub_inc"], []).append((d["e"], set(m for (_, m, _, _) in d["items"])))
    return f


def c09(w):
    f = []
    payload = {}
    for p in w.pubs:
        for i, pl in zip(p["ids"], p["payloads"]):
            if i in payload:
                f.append(("c09:id-reused", "message id %d returned by two publishes (op #%d)" % (i, p["ev"])))
            payload[i] = pl
    times = {}
    for d in w.delivs:
        for (_, m, data, attrs) in d["items"]:
            if m in payload and (data, attrs) != payload[m]:
                f.append(("c09:payload:%s" % d["via"], "delivery of %d carries data/attributes %s, published %s (op #%d)" % (m, (data[:40], attrs[:40]), (payload[m][0][:40], payload[m][1][:40]), d["ev"])))
        for it in sl(d.get("times", ""), ","):
            if "@" in it:
                mid, t = it.split("@")
                if mid in times and times[mid] != t:
                    f.append(("c09:publish-time", "publish time of %s changed between deliveries" % mid))
                times[mid] = t
    return f


def c15(w):
    f = []
    for d in w.delivs:
        if d["via"] == "pull" and d["max"] >= 1 and len(d["items"]) > d["max"]:
            f.append(("c15:pull-over-limit", "Pull max_messages=%d returned %d (op #%d)" % (d["max"], len(d["items"]), d["ev"])))
        if d["via"] == "stream" and d["max"] >= 1 and len(d["items"]) > d["max"]:
            f.append(("c15:stream-over-limit", "StreamingPull max_outstanding_messages=%d response has %d (op #%d)" % (d["max"], len(d["items"]), d["ev"])))
        if d["via"] == "pull" and not d["ri"] and not d["items"] and d["t1"] - d["t0"] < 300 * US:
            f.append(("c15:empty-early", "blocking Pull returned empty after %d us (op #%d)" % (d["t1"] - d["t0"], d["ev"])))
    return f


def c10(w):
    """Sequential map semantics of the two namespaces, for well-formed requests."""
    f = []
    topics, subs = {}, {}
    for e in w.evs:
        a = e.args
        code = e.ans.split(" ")[0]
        if e.op in ("ctopic", "gtopic", "dtopic"):
            n = split_name(unhx(a[0]), b"topics")
            if n is None:
                continue
            exp = {"ctopic": "already_exists" if n in topics else "ok", "gtopic": "ok" if n in topics else "not_found",
                   "dtopic": "ok" if n in topics else "not_found"}[e.op]
            if code != exp:
                f.append(("c10:%s:%s-instead-of-%s" % (e.op, code, exp), "`%s` answered %s, expected %s (op #%d)" % (e.line[:80], code, exp, e.i)))
            if e.op == "ctopic" and code == "ok":
                topics[n] = True
            if e.op == "dtopic" and code == "ok":
                topics.pop(n, None)
        elif e.op == "csub":
            n = split_name(unhx(a[0]), b"subscriptions")
            t = split_name(unhx(a[1]), b"topics")
            if n is None or t is None:
                continue
            push_bad = a[3] != "-" and not unhx(a[3].split("|")[0]).strip().startswith(b"http")
            if push_bad:
                continue
            if t not in topics:
                exp = "not_found"
            elif t[0] != n[0]:
                exp = "invalid_argument"
            elif n in subs:
                exp = "already_exists"
            else:
                exp = "ok"
            if code != exp:
                f.append(("c10:csub:%s-instead-of-%s" % (code, exp), "`%s` answered %s, expected %s (op #%d)" % (e.line[:80], code, exp, e.i)))
            if code == "ok":
                subs[n] = (t, max(int(a[2]), 10), a[3])
                res = e.ans.split(" ")[1].split("/", 3)
                if int(res[2]) != max(int(a[2]), 10):
                    f.append(("c10:readback:ackdl", "created with %s, reports %s (op #%d)" % (a[2], res[2], e.i)))
        elif e.op in ("gsub", "dsub", "pull", "ack", "mod"):
            n = split_name(unhx(a[0]), b"subscriptions")
            if n is None:
                continue
            if e.op == "ack" and not all(ackid_ok(unhx(x)) for x in sl(a[1], ",")):
                continue
            if e.op == "mod" and (not all(ackid_ok(unhx(x)) for x in sl(a[2], ",")) or (int(a[1]) < 0 and sl(a[2], ","))):
                continue
            present = n in subs
            if not present and code != "not_found":
                f.append(("c10:%s:%s-on-absent" % (e.op, code), "`%s` on an absent subscription answered %s (op #%d)" % (e.line[:80], code, e.i)))
            if present and code == "not_found":
                f.append(("c10:%s:not_found-on-present" % e.op, "`%s` on an existing subscription answered not_found (op #%d)" % (e.line[:80], e.i)))
            if e.op == "gsub" and present and code == "ok":
                t, dl, push = subs[n]
                res = e.ans.split(" ")[1].split("/", 3)
                if int(res[2]) != dl:
                    f.append(("c10:readback:ackdl", "gsub reports ack deadline %s, created with %d (op #%d)" % (res[2], dl, e.i)))
                exp_topic = b"projects/" + t[0] + b"/topics/" + t[1]
                if unhx(res[1]) not in (exp_topic, b"_deleted_topic_"):
                    f.append(("c10:readback:topic", "gsub reports topic %r, created on %r (op #%d)" % (unhx(res[1]), exp_topic, e.i)))
                if (push == "-") != (res[3] == "-"):
                    f.append(("c10:readback:push", "gsub reports push %s, created with %s (op #%d)" % (res[3][:40], push[:40], e.i)))
            if e.op == "dsub" and code == "ok":
                subs.pop(n, None)
        elif e.op == "pub":
            n = split_name(unhx(a[0]), b"topics")
            if n is None:
                continue
            if (n in topics) != (code == "ok") and code in ("ok", "not_found"):
                f.append(("c10:pub:%s" % code, "`pub` on %s topic answered %s (op #%d)" % ("an existing" if n in topics else "an absent", code, e.i)))
    return f


def c11(w):
    f = []
    # replay: after OK dsub, the next ltsubs of its topic must not list it; deliveries never after delete
    live_subs = {}      # canonical sub -> (topic canonical, topic_inc)
    tinc = {}
    cnt = 0
    for e in w.evs:
        a = e.args
        ok = e.ans.startswith("ok")
        if e.op == "ctopic" and ok:
            n = split_name(unhx(a[0]), b"topics")
            if n:
                cnt += 1
                tinc[n] = cnt
        elif e.op == "dtopic" and ok:
            tinc.pop(split_name(unhx(a[0]), b"topics"), None)
        elif e.op == "csub" and ok:
            n = split_name(unhx(a[0]), b"subscriptions")
            t = split_name(unhx(a[1]), b"topics")
            if n:
                live_subs[n] = (t, tinc.get(t))
        elif e.op == "dsub" and ok:
            live_subs.pop(split_name(unhx(a[0]), b"subscriptions"), None)
        elif e.op in ("ltsubs", "wtsubs") and ok:
            t = split_name(unhx(a[0]), b"topics")
            if t is None or t not in tinc:
                continue
            listed = []
            complete = e.op == "wtsubs"
            for pg in e.ans.split(" | "):
                parts = pg.split(" ")
                if parts[0] != "ok":
                    complete = False
                    continue
                listed += [split_name(unhx(x), b"subscriptions") for x in sl(parts[1], ",")]
            if e.op == "ltsubs":
                parts = e.ans.split(" ")
                complete = len(parts) > 2 and parts[2] == "-" or (len(parts) > 2 and len(sl(parts[1], ",")) < 1000 and a[2] == "-" and int(a[1]) >= 1000)
            expect = [n for n, (tt, ti) in live_subs.items() if tt == t and ti == tinc[t]]
            extra = [x for x in listed if x not in expect]
            if extra:
                f.append(("c11:listed-not-live", "ListTopicSubscriptions lists %r which is not a live subscription created on this topic (op #%d)" % (extra[:3], e.i)))
            if complete and e.op == "wtsubs" and int(a[1]) >= 0:
                missing = [x for x in expect if x not in listed]
                if missing:
                    f.append(("c11:live-not-listed", "ListTopicSubscriptions misses live subscription(s) %r (op #%d)" % (missing[:3], e.i)))
        elif e.op == "gsub" and ok:
            n = split_name(unhx(a[0]), b"subscriptions")
            if n in live_subs:
                t, ti = live_subs[n]
                res = e.ans.split(" ")[1].split("/", 3)
                alive = t in tinc and tinc[t] == ti
                rep = unhx(res[1])
                if alive and rep == b"_deleted_topic_":
                    f.append(("c11:reports-deleted-but-alive", "gsub reports a deleted topic while the topic is alive (op #%d)" % e.i))
                if not alive and rep != b"_deleted_topic_":
                    f.append(("c11:deleted-topic-not-reported", "gsub reports %r although its topic was deleted (op #%d)" % (rep, e.i)))
    for x in w.dead_subs:
        for d in w.delivs:
            if d["sub_inc"] == x["inc"] and d["b"] > x["e"] and d["items"]:
                f.append(("c11:delivery-after-delete", "deleted subscription %r still delivers (op #%d)" % (x["name"], d["ev"])))
    return f


def c13(w):
    f = []
    topics, subs = [], []        # creation order, live
    for e in w.evs:
        a = e.args
        ok = e.ans.startswith("ok")
        if e.op == "ctopic" and ok:
            n = split_name(unhx(a[0]), b"topics")
            if n:
                topics.append(n)
        elif e.op == "dtopic" and ok:
            n = split_name(unhx(a[0]), b"topics")
            topics = [x for x in topics if x != n]
        elif e.op == "csub" and ok:
            n = split_name(unhx(a[0]), b"subscriptions")
            if n:
                subs.append(n)
        elif e.op == "dsub" and ok:
            n = split_name(unhx(a[0]), b"subscriptions")
            subs = [x for x in subs if x != n]
        elif e.op in ("ltopics", "lsubs", "ltsubs"):
            size = int(a[1])
            code = e.ans.split(" ")[0]
            if size < 0 and code != "invalid_argument":
                f.append(("c13:negative-size-accepted", "`%s` with page size %d answered %s (op #%d)" % (e.op, size, code, e.i)))
            if ok:
                eff = 20 if size == 0 else min(size, 1000)
                n_items = len(sl(e.ans.split(" ")[1], ","))
                if n_items > eff:
                    f.append(("c13:page-too-long", "`%s` page size %d returned %d items (op #%d)" % (e.op, size, n_items, e.i)))
        elif e.op in ("wtopics", "wsubs"):
            size = int(a[1])
            proj = unhx(a[0])
            if not proj.startswith(b"projects/") or size < 0:
                continue
            p = proj[len(b"projects/"):]
            pages = e.ans.split(" | ")
            if not all(pg.startswith("ok") for pg in pages):
                f.append(("c13:walk-error", "walk of `%s` failed: %s (op #%d)" % (e.op, e.ans[:80], e.i)))
                continue
            eff = 20 if size == 0 else min(size, 1000)
            got = []
            for pg in pages:
                items = sl(pg.split(" ")[1], ",")
                if len(items) > eff:
                    f.append(("c13:page-too-long", "walk page has %d items, limit %d (op #%d)" % (len(items), eff, e.i)))
                for it in items:
                    if e.op == "wtopics":
                        got.append(split_name(unhx(it), b"topics"))
                    else:
                        got.append(split_name(unhx(it.split("/")[0]), b"subscriptions"))
            exp = [x for x in (topics if e.op == "wtopics" else subs) if x[0] == p]
            if got != exp:
                f.append(("c13:walk-mismatch:%s" % e.op, "walk yields %r, expected creation order %r (op #%d)" % (got[:4], exp[:4], e.i)))
    return f


def c17(w):
    """Malformed field => INVALID_ARGUMENT (the predicate is re-implemented from the statement)."""
    f = []
    for e in w.evs:
        a = e.args
        code = e.ans.split(" ")[0]
        mal = None
        if e.op in ("ctopic", "gtopic", "dtopic", "pub", "ltsubs") and split_name(unhx(a[0]), b"topics") is None:
            mal = "topic name"
        elif e.op in ("gsub", "dsub", "pull") and split_name(unhx(a[0]), b"subscriptions") is None:
            mal = "subscription name"
        elif e.op == "csub" and (split_name(unhx(a[0]), b"subscriptions") is None or split_name(unhx(a[1]), b"topics") is None):
            mal = "name"
        elif e.op == "ack" and (not all(ackid_ok(unhx(x)) for x in sl(a[1], ",")) or split_name(unhx(a[0]), b"subscriptions") is None):
            mal = "ack id / name"
        elif e.op == "mod" and ((sl(a[2], ",") and (int(a[1]) < 0 or not all(ackid_ok(unhx(x)) for x in sl(a[2], ","))))
                                or split_name(unhx(a[0]), b"subscriptions") is None):
            mal = "modify fields"
        elif e.op in ("ltopics", "lsubs", "ltsubs") and int(a[1]) < 0:
            mal = "page size"
        elif e.op in ("ltopics", "lsubs") and not unhx(a[0]).startswith(b"projects/"):
            mal = "project"
        if mal and code != "invalid_argument":
            f.append(("c17:%s:%s" % (e.op, code), "malformed %s in `%s` answered %s (op #%d)" % (mal, e.line[:80], code, e.i)))
    # a rejected StreamingPull control message changes nothing: stats / ssend / sread(end:invalid_argument) / stats
    for i in range(len(w.evs) - 3):
        a, b, c, d = w.evs[i:i + 4]
        if a.op == "stats" and b.op == "ssend" and c.op == "sread" and d.op == "stats" and a.args == d.args \
                and "end:invalid_argument" in c.ans and b.ans == "ok" and a.ans != d.ans:
            f.append(("c17:stream-ctl-partial", "a StreamingPull control message answered INVALID_ARGUMENT changed the subscription: stats %s -> %s (op #%d)"
                      % (a.ans, d.ans, d.i)))
    # a rejected request changes nothing: stats immediately before and after must agree
    prev = None
    for i, e in enumerate(w.evs):
        if e.op == "stats":
            if prev is not None and prev[0] == e.args[0] and prev[2] and prev[1] != e.ans:
                f.append(("c17:rejected-changed-state", "stats of %s changed across rejected request(s): %s -> %s (op #%d)" % (e.args[0][:20], prev[1], e.ans, e.i)))
            prev = [e.args[0], e.ans, True]
        elif prev is not None:
            code = e.ans.split(" ")[0]
            if code in ("ok", "open", "closed", "nostream") or e.op in ("sread", "adv", "ssend", "sdrop", "sclose"):
                prev[2] = False
    return f


def _consumers_across(w, sub, b, e):
    """Consumers of `sub` that are waiting during the whole interval [b, e]."""
    out = []
    for x in w.evs:
        if x.op == "pull" and len(x.args) >= 3 and x.args[2] == "0" and split_name(unhx(x.args[0]), b"subscriptions") == sub \
                and x.b < b and x.e > e:
            out.append("blocking Pull (op #%d)" % x.i)
    opened = {}
    for x in w.evs:
        if x.op == "sopen" and x.ans == "ok" and split_name(unhx(x.args[1]), b"subscriptions") == sub:
            opened[(x.args[0], x.i)] = [x.e, None]
    for (k, i0), iv in opened.items():
        for x in w.evs:
            if x.i > i0 and x.op in ("sdrop", "ssend") and x.args[0] == k and iv[1] is None:
                iv[1] = x.b
            if x.i > i0 and x.op == "sread" and x.args[0] == k and "end:" in x.ans and iv[1] is None:
                iv[1] = x.b
        if iv[0] < b and (iv[1] is None or iv[1] > e):
            out.append("open StreamingPull %s (op #%d)" % (k, i0))
    return out


def c06(w):
    """At a quiescent instant no message is queued while a consumer of that subscription waits."""
    f = []
    for x in w.evs:
        if x.op == "probe" and x.ans not in ("none", "closed") and not x.ans.startswith(("HANG", "PANIC")):
            parts = x.ans.split()
            backlog = int(parts[1])
            sub = split_name(unhx(x.args[0]), b"subscriptions")
            if backlog > 0:
                waiting = _consumers_across(w, sub, x.b, x.e)
                if waiting:
                    kinds = "+".join(sorted(set(wt.split(" (")[0].replace(" ", "-") for wt in waiting)))
                    f.append(("c06:parked-with-backlog:%s" % kinds, "%d message(s) queued on %r at a quiescent instant (t=%d) while %s wait(s) (op #%d)"
                              % (backlog, sub, x.t1, ", ".join(waiting), x.i)))
    return f


NONBLOCKING = {"ctopic", "gtopic", "dtopic", "ltopics", "ltsubs", "csub", "gsub", "lsubs", "dsub", "pub", "ack", "mod", "stats",
               "wtopics", "wsubs", "wtsubs"}


def c07(w):
    """Every request terminates; nothing but a blocking Pull takes virtual time."""
    f = []
    for x in w.evs:
        if x.ans.startswith("HANG") or (x.op.startswith("drop") and x.ans == "HANG"):
            f.append(("c07:hang:%s" % x.op, "`%s` still pending after one virtual hour (op #%d)" % (x.line[:80], x.i)))
        elif (x.op in NONBLOCKING or (x.op == "pull" and len(x.args) >= 3 and x.args[2] == "1")) and x.t1 - x.t0 > 0:
            f.append(("c07:waited:%s" % x.op, "`%s` took %d us of virtual time (op #%d)" % (x.line[:80], x.t1 - x.t0, x.i)))
        elif x.op == "pull" and len(x.args) >= 3 and x.args[2] == "0" and x.t1 - x.t0 > 300 * US + 1000:
            f.append(("c07:pull-limit", "blocking Pull returned after %d us (> 300 s) (op #%d)" % (x.t1 - x.t0, x.i)))
    return f


def c12(w):
    """Deleting a subscription releases its consumers at once; racers never hang."""
    f = []
    for x in w.evs:
        if x.ans.startswith("HANG"):
            f.append(("c12:hang:%s" % x.op, "`%s` hangs (op #%d)" % (x.line[:80], x.i)))
    # a DeleteSubscription answered with an error other than NOT_FOUND / INVALID_ARGUMENT has (partly)
    # happened or lost against one that has: by the end of the scenario nobody may still be waiting
    attempted = {}
    for dx in w.evs:
        if dx.op == "dsub":
            code = dx.ans.split(" ")[0]
            sub = split_name(unhx(dx.args[0]), b"subscriptions")
            if code in GRPC_ERRORS and code not in ("not_found", "invalid_argument"):
                attempted.setdefault(sub, dx)
    for sub, dx in attempted.items():
        for x in w.evs:
            if x.op == "pull" and len(x.args) >= 3 and x.args[2] == "0" and split_name(unhx(x.args[0]), b"subscriptions") == sub and x.b < dx.b and x.e > dx.e:
                if x.ans.strip() == "ok -" and x.t1 - dx.t1 > 250 * 10 ** 6:
                    f.append(("c12:not-released:pull-after-failed-delete", "DeleteSubscription answered %s; the Pull blocked on the subscription waited out its limit (op #%d)" % (dx.ans.split(" ")[0], x.i)))
        opened = {}
        for x in w.evs:
            if x.op == "sopen" and x.ans == "ok" and split_name(unhx(x.args[1]), b"subscriptions") == sub and x.e < dx.b:
                opened[x.args[0]] = x.i
        for k, i0 in opened.items():
            reads = [x for x in w.evs if x.op == "sread" and x.args[0] == k and x.b > dx.e]
            dropped = [x for x in w.evs if x.op in ("sdrop",) and x.args[0] == k and x.b < dx.e]
            if reads and not dropped and reads[-1].ans.endswith("open") and "end:" not in reads[-1].ans:
                f.append(("c12:not-released:stream:open-after-failed-delete", "DeleteSubscription answered %s; StreamingPull %s is still open at the end of the scenario (op #%d)" % (dx.ans.split(" ")[0], k, reads[-1].i)))
    for dx in w.evs:
        if dx.op != "dsub" or not dx.ans.startswith("ok"):
            continue
        sub = split_name(unhx(dx.args[0]), b"subscriptions")
        for x in w.evs:
            if x.op == "pull" and len(x.args) >= 3 and x.args[2] == "0" and split_name(unhx(x.args[0]), b"subscriptions") == sub and x.b < dx.b and x.e > dx.e:
                # blocked across the whole delete call
                if x.t1 > dx.t1:
                    f.append(("c12:not-released:pull", "Pull blocked on the deleted subscription returned %d us after the deletion (op #%d)" % (x.t1 - dx.t1, x.i)))
                elif x.ans.startswith("ok") and x.ans.strip() == "ok -":
                    f.append(("c12:not-released:pull-empty-ok", "Pull blocked on the deleted subscription returned an empty OK response (op #%d)" % x.i))
        # streams opened before the delete: the first read after the delete must show the end
        opened = {}
        for x in w.evs:
            if x.op == "sopen" and x.ans == "ok" and split_name(unhx(x.args[1]), b"subscriptions") == sub and x.e < dx.b:
                opened[x.args[0]] = x.i
        for k, i0 in opened.items():
            reads = [x for x in w.evs if x.op == "sread" and x.args[0] == k and x.b > dx.e]
            dropped = [x for x in w.evs if x.op in ("sdrop",) and x.args[0] == k and x.b < dx.e]
            if reads and not dropped:
                r = reads[0]
                if "end:not_found" not in r.ans:
                    f.append(("c12:not-released:stream:%s" % ("silent-end" if "end:ok" in r.ans else "still-open" if r.ans.endswith("open") else "other"),
                              "StreamingPull %s read after the deletion shows %r, expected termination with NOT_FOUND (op #%d)" % (k, r.ans[-60:], r.i)))
    return f


def c16(w):
    """After an abandoned request the server is in a state reachable without it or with it
    completed: every existing subscription is attached to its (live) topic and receives."""
    f = []
    # a subscription wedged by an abandoned consumer: at a quiescent instant messages are queued while
    # other consumers wait (the state no completed or never-received request could have produced)
    if any(getattr(x, "dropped", False) for x in w.evs):
        for sig, msg in c06(w):
            f.append((sig.replace("c06:", "c16:wedged-after-abandon:", 1), msg))
    for x in w.evs:
        if x.ans.startswith("HANG"):
            f.append(("c16:hang:%s" % x.op, "`%s` hangs after an abandoned request (op #%d)" % (x.line[:80], x.i)))
    go = [x.i for x in w.evs if x.op == "go"]
    if not go:
        return f
    after = [x for x in w.evs if x.i > go[-1]]
    # the probe block ends where the epilogue starts deleting
    first_del = [x.i for x in after if x.op in ("dsub", "dtopic")]
    if first_del:
        after = [x for x in after if x.i < first_del[0]]
    listed = None
    existing = None
    topic_alive = True
    for x in after:
        if x.op == "wtsubs":
            if x.ans.startswith("ok"):
                listed = set()
                for pg in x.ans.split(" | "):
                    listed.update(split_name(unhx(n), b"subscriptions") for n in sl(pg.split(" ")[1], ","))
            else:
                topic_alive = False
        if x.op == "wsubs" and x.ans.startswith("ok"):
            existing = set()
            for pg in x.ans.split(" | "):
                existing.update(split_name(unhx(it.split("/")[0]), b"subscriptions") for it in sl(pg.split(" ")[1], ","))
    if listed is not None and existing is not None and topic_alive:
        orphan = existing - listed
        if orphan:
            f.append(("c16:orphan-subscription", "subscription(s) %r exist but are not attached to their topic" % sorted(orphan)))
        ghost = listed - existing
        if ghost:
            f.append(("c16:ghost-attachment", "topic lists subscription(s) %r that do not exist" % sorted(ghost)))
    # whatever was abandoned, every subscription that exists can still be deleted, and is then gone
    if existing is not None and go:
        ep = [x for x in w.evs if x.i > go[-1]]
        for k, x in enumerate(ep):
            if x.op == "dsub" and not getattr(x, "dropped", False):
                n = split_name(unhx(x.args[0]), b"subscriptions")
                if n in existing and not x.ans.startswith("ok") and not x.ans.startswith(("HANG", "PANIC")):
                    f.append(("c16:undeletable-after-abandon", "subscription %r exists but DeleteSubscription answers %s after an abandoned request (op #%d)" % (n, x.ans[:40], x.i)))
                if x.ans.startswith("ok"):
                    later = [y for y in ep[k + 1:] if y.op == "gsub" and split_name(unhx(y.args[0]), b"subscriptions") == n]
                    if later and later[0].ans.startswith("ok"):
                        f.append(("c16:deleted-but-still-there", "subscription %r was deleted (op #%d) and GetSubscription still finds it (op #%d)" % (n, x.i, later[0].i)))
    # an abandoned Publish is all-or-nothing across the subscriptions that were attached all along:
    # its message reaches every one of them or none
    dropped_pubs = [x for x in w.evs if x.op == "pub" and getattr(x, "dropped", False) and x.i < go[-1]]
    if dropped_pubs:
        setup_subs = {}
        for x in w.evs:
            if x.op == "csub" and x.ans.startswith("ok") and x.i < dropped_pubs[0].i and not getattr(x, "dropped", False):
                setup_subs[split_name(unhx(x.args[0]), b"subscriptions")] = unhx(x.args[1])
        deleted = set(split_name(unhx(x.args[0]), b"subscriptions") for x in w.evs if x.op == "dsub" and x.i < go[-1])
        for dp in dropped_pubs:
            topic_raw = unhx(dp.args[0])
            payloads = [m.split(";")[0] for m in sl(dp.args[1], ",")]
            subs_t = [n for n, t in setup_subs.items() if t == topic_raw and n not in deleted]
            if len(subs_t) < 2 or any(x.op == "dtopic" for x in w.evs):
                continue
            got = {n: set() for n in subs_t}
            for x in w.evs:
                if x.op == "pull" and x.i > dp.i and x.ans.startswith("ok"):
                    n = split_name(unhx(x.args[0]), b"subscriptions")
                    if n in got:
                        got[n].update(d for (_, _, d, _) in parse_delivs(x.ans[3:].strip()))
            for pl in payloads[:3] + payloads[-3:]:
                have = [n for n in subs_t if pl in got[n]]
                if have and len(have) != len(subs_t):
                    f.append(("c16:partial-publish", "the abandoned Publish of %s reached %r but not %r" % (pl[:40], sorted(have), sorted(set(subs_t) - set(have)))))
            # ... and across its messages: a subscription holds all of them or none
            for n in subs_t:
                k = sum(1 for pl in set(payloads) if pl in got[n])
                if 0 < k < len(set(payloads)):
                    f.append(("c16:partial-publish:messages", "of the %d messages of an abandoned Publish, %d reached %r" % (len(set(payloads)), k, n)))
    # the probe publish after the scenario must reach every existing subscription
    probe_ids = None
    for x in after:
        if x.op == "pub" and x.ans.startswith("ok"):
            probe_ids = set(int(unhx(i)) for i in sl(x.ans[3:].strip(), ","))
            probe_i = x.i
    if probe_ids and existing is not None and topic_alive:
        for sname_ in existing:
            got = set()
            for x in after:
                if x.op == "pull" and x.i > probe_i and split_name(unhx(x.args[0]), b"subscriptions") == sname_ and x.ans.startswith("ok"):
                    got.update(m for (_, m, _, _) in parse_delivs(x.ans[3:].strip()))
            if not probe_ids <= got:
                f.append(("c16:existing-subscription-receives-nothing", "subscription %r exists but a publish to its topic never reaches it" % (sname_,)))
    return f


GRPC_ERRORS = {"invalid_argument", "not_found", "failed_precondition", "aborted", "internal", "unknown", "unavailable",
               "unimplemented", "deadline_exceeded", "resource_exhausted", "out_of_range", "permission_denied",
               "unauthenticated", "data_loss", "cancelled"}


def _linearizable(ops, present0):
    """Wing-Gong search for one name: ops = [(b, e, kind, result)], kind in create/delete/get,
    result True = OK, False = ALREADY_EXISTS (create) / NOT_FOUND (delete, get). Any other result
    (error statuses of racing calls) is treated as "may or may not have taken effect"."""
    n = len(ops)
    if n > 9:
        return True
    import itertools

    def ok_order(order):
        # calls answered with some other error status may or may not have taken effect
        unknown = [i for i in order if ops[i][3] is None and ops[i][2] != "get"]
        for mask in range(1 << len(unknown)):
            took = {i: bool(mask >> k & 1) for k, i in enumerate(unknown)}
            present = present0
            good = True
            for i in order:
                b, e, kind, res = ops[i]
                if res == "noeffect":
                    continue
                if res is None:
                    if kind == "create" and took.get(i):
                        if present:
                            good = False
                            break
                        present = True
                    elif kind == "delete" and took.get(i):
                        if not present:
                            good = False
                            break
                        present = False
                    continue
                if kind == "create":
                    if res and present or (not res and not present):
                        good = False
                        break
                    if res:
                        present = True
                elif kind == "delete":
                    if res and not present or (not res and present):
                        good = False
                        break
                    if res:
                        present = False
                else:
                    if res != present:
                        good = False
                        break
            if good:
                return True
        return False
    for order in itertools.permutations(range(n)):
        pos = {i: k for k, i in enumerate(order)}
        if any(ops[i][1] < ops[j][0] and pos[i] > pos[j] for i in range(n) for j in range(n) if i != j):
            continue
        if ok_order(order):
            return True
    return False


def c10_conc(w):
    """Per-name linearizability of create / delete / get on the concurrent call/return history."""
    f = []
    names = {}
    for e in w.evs:
        if e.op in ("csub", "dsub", "gsub"):
            n = split_name(unhx(e.args[0]), b"subscriptions")
            key = ("sub", n)
        elif e.op in ("ctopic", "dtopic", "gtopic"):
            n = split_name(unhx(e.args[0]), b"topics")
            key = ("topic", n)
        else:
            continue
        if n is None:
            continue
        code = e.ans.split(" ")[0]
        kind = {"c": "create", "d": "delete", "g": "get"}[e.op[0]]
        if code == "ok":
            res = True
        elif (kind == "create" and code == "already_exists") or (kind != "create" and code == "not_found"):
            res = False
        elif kind == "create" and code in GRPC_ERRORS:
            # "create succeeds exactly when ... (else an error), with nothing created": a create
            # that was ANSWERED with an error status must not have taken effect
            res = "noeffect"
        else:
            res = None            # dropped / hung calls, failed deletes: may or may not have taken effect
        if e.op == "csub" and code == "not_found":
            res = "noeffect"      # topic missing: nothing created
        names.setdefault(key, []).append((e.b, e.e, kind, res))
    for key, ops in names.items():
        if not _linearizable(ops, False):
            f.append(("c10:not-linearizable:%s" % key[0], "the calls on %s name %r admit no sequential order: %s" % (key[0], key[1], [(k, r) for (_, _, k, r) in ops])))
    return f


def c11_conc(w):
    """At the quiescent moments after the concurrent part: ListTopicSubscriptions of each live topic =
    the live subscriptions created on it (each topic listing is compared with the latest listing of
    the project's subscriptions before it; nothing runs concurrently there)."""
    f = []
    go = [x.i for x in w.evs if x.op == "go"]
    if not go:
        return f
    after = [x for x in w.evs if x.i > go[-1]]
    existing = None
    for x in after:
        if x.op == "wsubs" and x.ans.startswith("ok"):
            existing = {}
            for pg in x.ans.split(" | "):
                for it in sl(pg.split(" ")[1], ","):
                    fs = it.split("/")
                    existing[split_name(unhx(fs[0]), b"subscriptions")] = unhx(fs[1])
        elif x.op in ("csub", "dsub", "dtopic", "ctopic"):
            existing = None if x.op != "ctopic" else existing     # stale until the next project listing
        elif x.op == "wtsubs" and x.ans.startswith("ok") and existing is not None:
            topic_raw = unhx(x.args[0])
            listed_l = []
            for pg in x.ans.split(" | "):
                listed_l += [split_name(unhx(n), b"subscriptions") for n in sl(pg.split(" ")[1], ",")]
            listed = set(listed_l)
            on_topic = set(n for n, t in existing.items() if t == topic_raw)
            if len(listed_l) != len(listed):
                f.append(("c11:listed-twice", "topic %r lists a subscription twice: %r" % (topic_raw, sorted(listed_l))))
            if listed - set(existing):
                f.append(("c11:listed-not-live", "topic %r lists %r which does not exist" % (topic_raw, sorted(listed - set(existing)))))
            if on_topic - listed:
                f.append(("c11:live-not-listed", "topic %r does not list its live subscription(s) %r" % (topic_raw, sorted(on_topic - listed))))
            if (listed & set(existing)) - on_topic:
                f.append(("c11:listed-on-wrong-topic", "topic %r lists %r which report another topic" % (topic_raw, sorted((listed & set(existing)) - on_topic))))
    return f


SEQ_ORACLES = {"C01": c01, "C02": c02, "C03": c03, "C04": c04, "C08": c08, "C09": c09, "C10": c10, "C11": c11,
               "C13": c13, "C15": c15, "C17": c17,
               "C06": c06, "C07": c07, "C12": c12, "C16": c16}


def run_seq_oracle(prop, ops, answers, sides, conc=False):
    evs = history(ops, answers, sides, conc)
    fails = generic(evs)
    fn = SEQ_ORACLES.get(prop)
    if conc and prop == "C10":
        fn = c10_conc
    if conc and prop == "C11":
        fn = c11_conc
    if fn is not None:
        w = World(evs)
        w.conc = conc
        for i, l in enumerate(ops):
            if l.startswith("# drain"):
                w.drain_from = i
        try:
            fails += fn(w)
        except Exception as ex:      # an oracle that cannot parse an answer reports it, never hides it
            fails.append(("oracle-error:%s" % type(ex).__name__, "oracle could not interpret the history: %r" % (ex,)))
    return fails


# ---- pure streams ----------------------------------------------------------------------------

def pure_names(line, ans):
    toks = line.split()
    if toks[0] == "name.eq" and ans not in ("skip", "rejected"):
        kind = b"topics" if toks[1] == "t" else b"subscriptions"
        a, b = split_name(unhx(toks[2]), kind), split_name(unhx(toks[3]), kind)
        if a is None or b is None:
            return []
        parts = ans.split(" ")
        f = []
        if (parts[0] == "eq") != (a == b):
            f.append(("c18:distinct-names-equal" if a != b else "c18:same-name-unequal",
                      "%r and %r compare as %s" % (unhx(toks[2])[:60], unhx(toks[3])[:60], parts[0])))
        if len(parts) > 1 and parts[1] == "hash-differs":
            f.append(("c18:equal-names-hash-differently", "%r and %r are equal but hash differently" % (unhx(toks[2])[:60], unhx(toks[3])[:60])))
        return f
    if toks[0] not in ("topic.parse", "sub.parse") or ans in ("skip",):
        return []
    raw = unhx(toks[1])
    kind = b"topics" if toks[0] == "topic.parse" else b"subscriptions"
    exp = split_name(raw, kind)
    if ans == "none":
        # rejection of a well-formed name is not forbidden by C18 clause 1, but clause 2 needs
        # canonical names of accepted names accepted; checked on the accepted side.
        return []
    parts = ans.split(" ")
    if parts[0] != "some" or len(parts) < 5:
        return [("c18:unparseable-answer", "answer %r" % ans[:60])]
    p, i, disp, same = unhx(parts[1]), unhx(parts[2]), unhx(parts[3]), parts[4]
    f = []
    if exp is None:
        f.append(("c18:accepted-malformed:%s" % toks[0], "%r accepted as (%r, %r)" % (raw[:60], p[:30], i[:30])))
    elif (p, i) != exp:
        f.append(("c18:wrong-split:%s" % toks[0], "%r parsed as (%r, %r), expected %r" % (raw[:60], p[:30], i[:30], exp)))
    if same != "1":
        f.append(("c18:canonical-not-accepted:%s" % toks[0], "canonical form %r of accepted %r does not parse back to the same name" % (disp[:60], raw[:60])))
    return f


def pure_generic(line, ans):
    if ans.startswith(("PANIC", "ABORT", "INCONSISTENT")):
        return [("%s:%s" % (ans.split()[0].lower(), line.split()[0]), "`%s` -> %s" % (line[:100], ans[:40]))]
    return []


def pure_ext(line, ans):
    toks = line.split()
    if toks[0] != "ext.parse":
        return []
    n = int(toks[1])
    exp = "invalid_argument" if n < 0 else "nack" if n == 0 else "secs %d" % min(n, 600)
    return [] if ans == exp else [("c05:ext-parse", "seconds=%d parsed as %r, expected %r" % (n, ans, exp))]


def pure_paging(line, ans):
    toks = line.split()
    f = []
    if toks[0] == "paging":
        sz = int(toks[1])
        if sz < 0 and ans != "invalid_argument":
            f.append(("c13:negative-size-accepted", "page_size %d -> %s" % (sz, ans)))
            f.append(("c17:negative-size-accepted", "page_size %d -> %s" % (sz, ans)))
        if ans.startswith("ok"):
            eff = int(ans.split()[1])
            exp = 20 if sz == 0 else min(sz, 1000)
            if eff != exp:
                f.append(("c13:effective-size", "page_size %d -> effective %d, expected %d" % (sz, eff, exp)))
    elif toks[0] == "page" and not ans.startswith("PANIC"):
        n, sz = int(toks[1]), int(toks[2])
        first, ln, nxt = ans.split()
        eff = 20 if sz == 0 else min(sz, 1000)
        if int(ln) > eff:
            f.append(("c13:page-too-long", "%s -> %s" % (line, ans)))
        off = 0 if toks[3] == "none" else int(toks[3])
        exp_len = max(0, min(eff, n - off))
        if int(ln) != exp_len or (exp_len > 0 and int(first) != off):
            f.append(("c13:wrong-page", "%s -> %s (expected %d items from %d)" % (line, ans, exp_len, off)))
        if exp_len > 0 and nxt != str(off + exp_len):
            f.append(("c13:wrong-next-offset", "%s -> %s" % (line, ans)))
    elif toks[0] == "token.decode":
        raw = unhx(toks[1])
        import base64, binascii
        exp = None
        try:
            if re.fullmatch(rb"[A-Za-z0-9+/]{11}=", raw):
                b = base64.b64decode(raw, validate=True)
                if len(b) == 8 and base64.b64encode(b) == raw:
                    exp = int.from_bytes(b, "little")
        except (binascii.Error, ValueError):
            exp = None
        got = None if ans == "none" else int(ans.split()[1]) if ans.startswith("some") else "?"
        if got != exp:
            f.append(("c13:token-decode", "token %r decodes to %r, expected %r" % (raw[:30], got, exp)))
    return f


def pure_round(line, ans):
    toks = line.split()
    if toks[0] != "round":
        return []
    t = int(toks[1])
    r = int(ans)
    f = []
    if r < t:
        f.append(("c04:deadline-rounded-down", "deadline %d rounded to %d" % (t, r)))
    if r >= t + 100000:
        f.append(("c04:rounding-slack", "deadline %d rounded to %d (>= 100 ms late)" % (t, r)))
    return f


PURE_ORACLES = {"names": pure_names, "ext": pure_ext, "tokens": pure_paging, "rounds": pure_round}


def c14_dispatch(lines, answers, meta, model_dispatch):
    """Dispatch correspondence: per message and push subscription, the subscription actor saw exactly
    the turns the Lean model's `dispatchTurn` issues for the endpoint's behaviours (one ack turn per
    accepted answer, one nack per other status / broken connection, nothing for an unanswered POST).
    Returns correspondence failures (strings)."""
    tl = [a for l, a in zip(lines, answers) if l.strip() == "turnlog"]
    posts_l = [a for l, a in zip(lines, answers) if l.strip() == "posts"]
    if not tl or not posts_l:
        return []
    sid_name, ack_msg, acks, nacks = {}, {}, {}, {}
    for ev in tl[-1].split(" ~~ "):
        t = ev.split(" ")
        if len(t) < 3 or t[0] != "sub":
            continue
        sid = t[1]
        if t[2] == "new":
            sid_name[sid] = t[4].encode()
        elif t[2] == "pull" and "->" in t:
            for tr in sl(t[t.index("->") + 1], ","):
                a, m, _ = tr.split("/")
                ack_msg[(sid, a)] = m
        elif t[2] == "ack":
            for a in sl(t[3], ","):
                m = ack_msg.get((sid, a))
                if m is not None:
                    acks[(sid, m)] = acks.get((sid, m), 0) + 1
        elif t[2] == "modify":
            for md in sl(t[3], ","):
                a, v = md.split("=")
                m = ack_msg.get((sid, a))
                if m is not None and v == "n":
                    nacks[(sid, m)] = nacks.get((sid, m), 0) + 1
    name_sid = {v: k for k, v in sid_name.items()}
    out = []
    exp_ack, exp_nack = {}, {}
    for it in sl(posts_l[-1], " "):
        parts = it.split("|")
        if len(parts) != 7:
            continue
        tag, mid, outcome = parts[0].lstrip("/"), parts[2], parts[6]
        if tag not in meta["subs"] or outcome == "102":
            continue          # 102 never reaches the dispatcher (listed finding)
        sid = name_sid.get(meta["subs"][tag]["sub"])
        if sid is None:
            continue
        d = model_dispatch(outcome)
        if d == "ack":
            exp_ack[(sid, mid)] = exp_ack.get((sid, mid), 0) + 1
        elif d == "nack":
            exp_nack[(sid, mid)] = exp_nack.get((sid, mid), 0) + 1
    for key in sorted(set(exp_ack) | set(acks) | set(exp_nack) | set(nacks)):
        if name_sid and key[0] not in name_sid.values():
            continue
        if exp_ack.get(key, 0) != acks.get(key, 0):
            out.append("dispatch: message %s on subscription #%s: model issues %d ack turn(s) for the endpoint's answers, the actor saw %d"
                       % (key[1], key[0], exp_ack.get(key, 0), acks.get(key, 0)))
        if exp_nack.get(key, 0) != nacks.get(key, 0):
            out.append("dispatch: message %s on subscription #%s: model issues %d nack turn(s) for the endpoint's answers, the actor saw %d"
                       % (key[1], key[0], exp_nack.get(key, 0), nacks.get(key, 0)))
    return out


def c14_midround(lines, answers, meta):
    """Pushing stops when the subscription is deleted, also in the middle of a round."""
    mr = meta.get("midround")
    posts_l = [a for l, a in zip(lines, answers) if l.strip() == "posts"]
    if not mr or len(posts_l) < 3:
        return []
    def count(a):
        return sum(1 for it in sl(a, " ") if it.split("|")[0].lstrip("/") == mr["tag"])
    before, at, after = count(posts_l[0]), count(posts_l[1]), count(posts_l[2])
    f = []
    if before == 0 or before >= mr["n"]:
        return f          # the round had not started / was over before the delete: nothing to observe
    # a POST that was already on its way when the deletion completed may still arrive
    if after > at + 2:
        f.append(("c14:post-after-delete:midround", "%d message(s) were POSTed to /%s after DeleteSubscription had returned (%d before, %d at the deletion)"
                  % (after - at, mr["tag"], before, at)))
    return f


def c14_push(lines, answers, meta, model_accepts):
    """Push delivery: POSTs per message follow the script exactly until the first accepted answer,
    never after; payload fields; nothing for deleted / plain subscriptions.
    `model_accepts(status) -> bool` is the Lean model's table (correspondence of the status set)."""
    f = []
    corr = []
    pub_ids = {}
    for l, a in zip(lines, answers):
        t = l.split()
        if t and t[0] == "pub" and a.startswith("ok"):
            ids = [unhx(x).decode() for x in sl(a[3:].strip(), ",")]
            for m, i in zip(sl(t[2], ","), ids):
                pub_ids[m.split(";")[0]] = i
    posts_lines = [(i, a) for i, (l, a) in enumerate(zip(lines, answers)) if l.strip() == "posts"]
    if not posts_lines:
        return f, corr
    final = posts_lines[-1][1]
    first = posts_lines[0][1]
    def parse(a):
        out = []
        for it in sl(a, " "):
            parts = it.split("|")
            if len(parts) == 7:
                out.append(dict(path=parts[0].lstrip("/"), sub=unhx(parts[1]), mid=parts[2], mid2=parts[3], data=parts[4], attrs=parts[5], outcome=parts[6]))
        return out
    posts = parse(final)
    n_first = len(parse(first))
    by_msg = {}
    for p in posts:
        by_msg.setdefault((p["path"], p["data"]), []).append(p)
    for data, m in meta["msgs"].items():
        got = by_msg.get((m["tag"], data), [])
        outs = [p["outcome"] for p in got]
        script = list(m["outcomes"])
        # expected: the scripted outcomes up to and including the first one the server accepts
        exp = []
        for o in script:
            exp.append(o)
            if o.isdigit() and int(o) in (102, 200, 201, 202, 204):
                break
        else:
            exp.append("200")
        if outs[:len(exp)] != exp[:len(outs)] and False:
            pass
        if len(outs) < len(exp):
            f.append(("c14:not-reposted:%s" % (exp[len(outs) - 1] if outs else "never-posted"),
                      "message %s on %s was POSTed %d time(s) (%s), expected %d (%s)" % (data, m["tag"], len(outs), outs, len(exp), exp)))
        elif len(outs) > len(exp):
            f.append(("c14:accepted-status-reposted:%s" % exp[-1], "message %s on %s POSTed again after the endpoint answered %s: %s" % (data, m["tag"], exp[-1], outs)))
        # correspondence of the accepted-status set with the Lean model
        for k, o in enumerate(outs):
            if o.isdigit():
                reposted = k + 1 < len(outs)
                if model_accepts(int(o)) == reposted and not (k + 1 == len(outs) and len(outs) < len(exp)):
                    corr.append("status %s: model says accepted=%s, implementation re-POSTed=%s (message %s)" % (o, model_accepts(int(o)), reposted, data))
        for p in got:
            sub = meta["subs"][m["tag"]]["sub"]
            if p["sub"] != sub:
                f.append(("c14:payload:subscription", "POST names subscription %r, expected %r" % (p["sub"], sub)))
            if p["mid"] != pub_ids.get(data) or p["mid2"] != pub_ids.get(data):
                f.append(("c14:payload:message-id", "POST carries message id %s/%s, Publish returned %s" % (p["mid"], p["mid2"], pub_ids.get(data))))
            if p["attrs"] != m["attrs"]:
                f.append(("c09:push-attributes", "POST carries attributes %s, published %s" % (p["attrs"], m["attrs"])))
    # the twin push subscription of the same topic gets every message too (unscripted endpoint: accepted
    # at once), in a POST that names the TWIN subscription
    for data, m in meta["msgs"].items():
        twin = meta.get("twins", {}).get(m["tag"])
        if twin is None:
            continue
        got2 = by_msg.get((twin, data), [])
        if not got2:
            f.append(("c14:not-posted-to-second-subscription", "message %s was never POSTed to /%s" % (data, twin)))
        elif len(got2) > 1:
            f.append(("c14:accepted-status-reposted:200", "message %s POSTed %d times to /%s although accepted at once" % (data, len(got2), twin)))
        for p in got2:
            if p["sub"] != meta["subs"][twin]["sub"]:
                f.append(("c14:payload:subscription", "POST to /%s names subscription %r, expected %r" % (twin, p["sub"], meta["subs"][twin]["sub"])))
            if p["mid"] != pub_ids.get(data) or p["mid2"] != pub_ids.get(data):
                f.append(("c14:payload:message-id", "POST to /%s carries message id %s/%s, Publish returned %s" % (twin, p["mid"], p["mid2"], pub_ids.get(data))))
            if p["attrs"] != m["attrs"]:
                f.append(("c09:push-attributes", "POST carries attributes %s, published %s" % (p["attrs"], m["attrs"])))
    known = set((m["tag"], d) for d, m in meta["msgs"].items()) | set((meta.get("twins", {}).get(m["tag"]), d) for d, m in meta["msgs"].items())
    known |= set(tuple(x) for x in meta.get("extra_known", []))
    for p in posts:
        if p["path"] not in meta["subs"]:
            f.append(("c14:post-to-unknown-endpoint", "POST to /%s" % p["path"]))
        elif (p["path"], p["data"]) not in known and p["data"] not in meta["after_delete"]:
            f.append(("c14:unknown-message-posted", "POST of unknown data %s" % p["data"]))
            f.append(("c09:push-data", "a POST carries data that decodes (standard base64) to %s, which was never published" % p["data"][:60]))
    for p in posts[n_first:]:
        if p["path"] in meta["deleted"] and p["data"] in meta["after_delete"]:
            f.append(("c14:post-after-delete", "message %s published after DeleteSubscription was POSTed to /%s" % (p["data"], p["path"])))
    # plain subscriptions still hold everything and were never pushed to
    for l, a in zip(lines, answers):
        t = l.split()
        if t and t[0] == "pull" and a.startswith("ok"):
            pass
    return f, corr
