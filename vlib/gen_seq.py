"""Generators for `seq` histories (sequential RPC histories against a fresh server).

A case is a list of op lines starting with `new`. The generator keeps a crude simulation of the
server (which names exist, estimated backlog / outstanding ack ids, virtual clock) only to make
most operations *valid and interesting*; nothing it predicts is used as an expected result.
"""
from .common import hx, jl


def tname(p, t):
    return ("projects/%s/topics/%s" % (p, t)).encode()


def sname(p, s):
    return ("projects/%s/subscriptions/%s" % (p, s)).encode()


class SimSub:
    def __init__(self, name, topic, dl_us):
        self.name, self.topic, self.dl = name, topic, dl_us
        self.backlog = 0
        self.out = []          # (ack, deadline)
        self.next_ack = 1
        self.stream = None


class SeqGen:
    def __init__(self, rng, profile):
        self.rng = rng
        self.p = profile
        self.ops = ["new"]
        self.clock = 0
        self.topics = {}       # name bytes -> list of sub names attached
        self.subs = {}         # name bytes -> SimSub
        self.projects = profile.get("projects", ["p1", "p2"])
        self.tids = profile.get("topics", ["t1", "t2", "t3"])
        self.sids = profile.get("subs", ["s1", "s2", "s3", "s4"])
        self.next_stream = 1
        self.streams = {}      # k -> sub name
        self.req_closed = set()
        self.opened = []

    # -- helpers -------------------------------------------------------------------------
    def emit(self, s):
        self.ops.append(s)

    def any_topic_name(self):
        r = self.rng
        n = tname(r.choice(self.projects), r.choice(self.tids))
        if r.chance(1, 12):
            n += b"/"          # alias of the same resource
        return n

    def live_topic(self):
        return self.rng.choice(sorted(self.topics)) if self.topics else None

    def live_sub(self):
        return self.rng.choice(sorted(self.subs)) if self.subs else None

    def any_sub_name(self):
        r = self.rng
        n = sname(r.choice(self.projects), r.choice(self.sids))
        if r.chance(1, 12):
            n += b"/"
        return n

    @staticmethod
    def canon(n):
        return n.rstrip(b"/")

    def expire(self):
        for s in self.subs.values():
            keep = []
            for (a, d) in s.out:
                if d <= self.clock:
                    s.backlog += 1
                else:
                    keep.append((a, d))
            s.out = keep
            if s.stream is not None:
                self.sim_pull(s, s.stream, drain=True)

    def sim_pull(self, s, max16, drain=False):
        while s.backlog > 0:
            cap = min(max16, max(s.backlog % 65536, 1000))
            n = min(s.backlog, max(cap, 1))
            t = self.clock + s.dl
            d = t + t % 100000
            for _ in range(n):
                s.out.append((s.next_ack, d))
                s.next_ack += 1
            s.backlog -= n
            if not drain:
                break

    def ack_pick(self, s, k):
        """k ack-id strings: mostly outstanding ones, some stale/unknown."""
        r = self.rng
        out = []
        for _ in range(k):
            if self.p.get("future_ack") and r.chance(1, 3):
                # an id this subscription has not issued yet (it will be, by one of the next pulls)
                out.append(str(s.next_ack + r.below(3)))
                continue
            c = r.below(10)
            if s.out and c < 7:
                out.append(str(r.choice(s.out)[0]))
            elif c < 9:
                out.append(str(r.range(1, s.next_ack + 2)))
            else:
                out.append(str(r.choice([0, 999999, 2 ** 64 - 1])))
        return out

    def payload(self):
        r = self.rng
        c = r.below(12)
        if c < 6:
            data = bytes(r.below(256) for _ in range(r.range(1, 6)))
        elif c < 8:
            data = b""
        elif c < 10:
            data = ("m%d-é" % r.below(1000)).encode()
        else:
            data = bytes(range(256)) if r.chance(1, 2) else b"\xff\xfe\x00" * r.range(1, 40)
        attrs = {}
        for _ in range(r.choice([0, 0, 0, 1, 2, 5])):
            attrs[("k%d" % r.below(6)).encode() if r.chance(3, 4) else "ключ".encode()] = r.choice([b"", b"v", "wert-ü".encode(), b"x" * 40])
        a = jl(("%s=%s" % (hx(k), hx(v)) for k, v in sorted(attrs.items())), ";")
        return hx(data) + (";" + a if attrs else "")

    # -- ops -----------------------------------------------------------------------------
    def op_ctopic(self):
        n = self.any_topic_name()
        self.emit("ctopic " + hx(n))
        self.topics.setdefault(self.canon(n), [])

    def op_dtopic(self):
        n = self.live_topic() if self.rng.chance(4, 5) else self.any_topic_name()
        if n is None:
            return
        self.emit("dtopic " + hx(n))
        self.topics.pop(self.canon(n), None)

    def op_gtopic(self):
        self.emit("gtopic " + hx(self.any_topic_name()))

    def op_csub(self):
        r = self.rng
        n = self.any_sub_name()
        t = self.live_topic() if r.chance(5, 6) else self.any_topic_name()
        if t is None:
            t = self.any_topic_name()
        dl = r.choice(self.p.get("ackdl", [0, 10, 10, 11, 17, 30, -5, 600, 700]))
        push = "-"
        if r.chance(*self.p.get("push_chance", (1, 10))):
            ep = r.choice([b"http://127.0.0.1:9/x", b"https://example.invalid/push", b"  http://h/  ", b"ftp://nope", b"", b"httpx"])
            push = hx(ep) + "|" + r.choice(["-", "%s=%s" % (hx(b"x-goog-version"), hx(b"v1"))]) + "|" + r.choice(["-", "-", hx(b"aud") + "~" + hx(b"sa@x")])
        self.emit("csub %s %s %d %s" % (hx(n), hx(t), dl, push))
        cn, ct = self.canon(n), self.canon(t)
        ok_push = True
        if push != "-":
            h = push.split("|")[0]
            ok_push = (b"" if h == "-" else bytes.fromhex(h)).strip().startswith(b"http")
        same_proj = cn.split(b"/")[1] == ct.split(b"/")[1]
        if ct in self.topics and cn not in self.subs and same_proj and ok_push:
            self.subs[cn] = SimSub(cn, ct, max(dl, 10) * 10 ** 6)
            self.topics[ct].append(cn)

    def op_dsub(self):
        n = self.live_sub() if self.rng.chance(4, 5) else self.any_sub_name()
        if n is None:
            return
        self.emit("dsub " + hx(n))
        s = self.subs.pop(self.canon(n), None)
        if s and s.topic in self.topics and s.name in self.topics[s.topic]:
            self.topics[s.topic].remove(s.name)

    def op_gsub(self):
        self.emit("gsub " + hx(self.any_sub_name()))

    def op_lists(self):
        r = self.rng
        sz = r.choice([0, 0, 1, 2, 3, 1000, 5])
        which = r.below(3)
        if which == 0:
            self.walk("ltopics", hx(("projects/" + r.choice(self.projects)).encode()), sz)
        elif which == 1:
            self.walk("lsubs", hx(("projects/" + r.choice(self.projects)).encode()), sz)
        else:
            t = self.live_topic() or self.any_topic_name()
            self.walk("ltsubs", hx(t), sz)

    def walk(self, op, arg, sz):
        """First page only: the token of a later page is not known to the generator; full walks
        are produced by the orchestrator's two-pass `walk` cases."""
        c = self.rng.below(8)
        if c < 4:
            self.emit("w%s %s %d" % (op[1:], arg, sz))      # the whole walk
        elif c < 7:
            self.emit("%s %s %d -" % (op, arg, sz))
        else:
            # a well-formed token (base64 of 8 little-endian bytes) naming any offset: stale, at the
            # end, past the end, huge
            import base64
            off = self.rng.choice([0, 1, 2, 3, 4, 5, 7, 50, 2 ** 31, 2 ** 63, 2 ** 64 - 1])
            tok = base64.b64encode(off.to_bytes(8, "little"))
            self.emit("%s %s %d %s" % (op, arg, sz, hx(tok)))

    def op_pub(self):
        r = self.rng
        t = self.live_topic() if r.chance(9, 10) else self.any_topic_name()
        if t is None:
            return
        k = r.choice([1, 1, 1, 2, 3, 5, 0]) if not self.p.get("big_batches") else r.choice([1, 2, 40, 120])
        if self.p.get("big_batches") and r.chance(1, 30):
            # a backlog above the 1000 cap (tiny payloads: the volume is not the point)
            k = r.choice([1001, 1100, 2001])
            self.emit("pub %s %s" % (hx(t), ",".join(["61"] * k)))
        else:
            self.emit("pub %s %s" % (hx(t), jl(self.payload() for _ in range(k))))
        for sn in self.topics.get(self.canon(t), []):
            s = self.subs.get(sn)
            if s:
                s.backlog += k
                if s.stream is not None:
                    self.sim_pull(s, s.stream, drain=True)

    def op_pull(self):
        r = self.rng
        n = self.live_sub() if r.chance(9, 10) else self.any_sub_name()
        if n is None:
            return
        s = self.subs.get(self.canon(n))
        mx = r.choice(self.p.get("max_messages", [1, 1, 2, 3, 10, 1000, 0, -1, 65536, 65537]))
        ri = 1
        if s and s.stream is None and r.chance(*self.p.get("block_chance", (1, 6))):
            ri = 0
        if s and s.stream is None and s.backlog == 0 and self.canon(s.topic) not in self.topics and r.chance(2, 3):
            ri = 0             # a blocking Pull on a subscription that has outlived its topic must still wait
        if ri == 0 and self.streams and s and s.backlog == 0:
            # while this Pull waits, nobody reads the open streams: minutes of redeliveries to an unread stream
            # only fill the HTTP/2 window (a transport effect outside the model, as in op_adv) — wait briefly or not at all
            wait = (min(x[1] for x in s.out) - self.clock) if s.out else 300 * 10 ** 6
            if wait > 31 * 10 ** 6:
                ri = 1
        self.emit("pull %s %d %d" % (hx(n), mx, ri))
        if s:
            m16 = mx % 65536
            if s.backlog == 0 and ri == 0:
                if s.out:
                    d = min(x[1] for x in s.out)
                    t = (d + 999) // 1000 * 1000
                    lim = self.clock + 300 * 10 ** 6
                    self.clock = min(t, lim)
                else:
                    self.clock += 300 * 10 ** 6
                self.expire()
            self.sim_pull(s, m16)

    def op_ack(self):
        r = self.rng
        n = self.live_sub() if r.chance(9, 10) else self.any_sub_name()
        if n is None:
            return
        s = self.subs.get(self.canon(n))
        ids = self.ack_pick(s, r.choice([1, 1, 2, 3, 0])) if s else ([] if r.chance(1, 3) else [str(r.range(1, 5))])
        if r.chance(1, 25):
            ids.insert(r.below(len(ids) + 1), r.choice(["x", "-1", "", "1.5"]))
        if s and r.chance(*self.p.get("big_batch_chance", (1, 30))):
            fill = [str(10 ** 6 + k) for k in range(r.choice([300, 520, 600, 1100]))]
            ids = ids + fill + ([r.choice(["x", "not-an-ack-id", ""])] if r.chance(1, 2) else [])
        self.emit("ack %s %s" % (hx(n), jl(hx(i) for i in ids)))
        if s and all(i.isdigit() for i in ids):
            gone = set(ids)
            s.out = [(a, d) for (a, d) in s.out if str(a) not in gone]

    def op_mod(self):
        r = self.rng
        n = self.live_sub() if r.chance(9, 10) else self.any_sub_name()
        if n is None:
            return
        s = self.subs.get(self.canon(n))
        ids = self.ack_pick(s, r.choice([1, 1, 2, 3, 0])) if s else ([] if r.chance(1, 3) else [str(r.range(1, 5))])
        secs = r.choice(self.p.get("mod_secs", [0, 0, 1, 5, 10, 30, 599, 600, 601, 3600, -1]))
        if r.chance(1, 25):
            ids.insert(r.below(len(ids) + 1), r.choice(["x", "-1", ""]))
        if s and r.chance(*self.p.get("big_batch_chance", (1, 30))):
            # one request with hundreds of ids: the live ones first, unknown fillers, and (half the time) a
            # malformed id far behind them — the request is still ONE all-or-nothing unit
            fill = [str(10 ** 6 + k) for k in range(r.choice([300, 520, 600, 1100]))]
            ids = ids + fill + ([r.choice(["x", "not-an-ack-id", ""])] if r.chance(1, 2) else [])
        self.emit("mod %s %d %s" % (hx(n), secs, jl(hx(i) for i in ids)))
        if s and secs >= 0 and all(i.isdigit() for i in ids):
            for i in ids:
                for j, (a, d) in enumerate(s.out):
                    if str(a) == i:
                        if secs == 0:
                            s.out.pop(j)
                            s.backlog += 1
                        else:
                            t = self.clock + min(secs, 600) * 10 ** 6
                            s.out[j] = (a, t + t % 100000)
                        break
            if s.stream is not None:
                self.sim_pull(s, s.stream, drain=True)

    def op_adv(self):
        r = self.rng
        d = r.choice(self.p.get("adv", [1000, 50000, 100000, 1000000, 5000000, 9999000, 10000000, 10100000, 10200000, 30000000, 700000000]))
        if r.chance(*self.p.get("adv_jitter", (1, 3))):
            d += r.below(self.p.get("adv_jitter_us", 100000))
        if self.p.get("ms_only", False):
            d = d // 1000 * 1000
        elif r.chance(*self.p.get("edge_chance", (1, 5))):
            # land around a pending deadline: just before it, on it, or in the sub-millisecond
            # window after it in which the millisecond-granular timer has not fired yet
            dls = sorted({x[1] for sub in self.subs.values() for x in sub.out if x[1] > self.clock})
            if dls:
                dl = r.choice(dls[:3])
                room = (dl + 999) // 1000 * 1000 - dl
                off = r.choice([-1, 0, 1, 1 + r.below(max(room, 1)), room, room + 1])
                if dl + off > self.clock:
                    d = dl + off - self.clock
        if self.streams:
            # an unread stream that keeps receiving redeliveries for minutes only fills the HTTP/2
            # window (a transport effect outside the model): keep the steps short and read
            d = min(d, 31000000)
        self.emit("adv %d" % d)
        self.clock += d
        self.expire()
        for k in sorted(self.streams):
            self.emit("sread %d" % k)

    def op_registry(self):
        self.emit("registry")

    def op_stats(self):
        n = self.live_sub() or self.any_sub_name()
        self.emit("stats " + hx(n))

    def op_sopen(self):
        r = self.rng
        n = self.live_sub() if r.chance(9, 10) else self.any_sub_name()
        if n is None:
            return
        s = self.subs.get(self.canon(n))
        if s and s.stream is not None:
            return                      # at most one waiting consumer per subscription
        k = self.next_stream
        self.next_stream += 1
        mm = r.choice(self.p.get("stream_max", [0, 1, 2, 5, 1000, 65535, 65536, -1]))
        self.emit("sopen %d %s %d 0" % (k, hx(n), mm))
        self.opened.append(k)
        if s and 0 <= mm <= 65535:
            s.stream = mm
            self.streams[k] = s.name
            self.sim_pull(s, mm, drain=True)
        self.emit("sread %d" % k)

    def op_ssend(self):
        r = self.rng
        if not self.streams:
            return
        k = r.choice(sorted(self.streams))
        if k in self.req_closed:
            self.emit("ssend %d - - - - 0 0" % k)     # answered `closed`, nothing is sent
            return
        s = self.subs.get(self.streams[k])
        acks = self.ack_pick(s, r.choice([0, 1, 2])) if s else []
        mods = self.ack_pick(s, r.choice([0, 0, 1, 2])) if s else []
        secs = [r.choice([0, 10, 30, 600, 700]) for _ in mods]
        bad = r.below(30)
        subf, mm, mb = "-", 0, 0
        broke = True
        if bad == 0:
            subf = hx(b"projects/p1/subscriptions/s1")
        elif bad == 1:
            mm = 5
        elif bad == 2:
            mb = 1
        elif bad == 3:
            secs = secs + [5]
        elif bad == 4 and mods:
            secs[r.below(len(secs))] = -1
        elif bad == 5:
            acks = acks + ["zz"]
        elif bad == 6:
            mods, secs = mods + ["zz"], secs + [10]
        elif bad in (7, 8) and s and s.out:
            # a VALID, outstanding ack id together with a malformed modify entry: nothing of it may be applied
            acks = [str(r.choice(s.out)[0])]
            mods, secs = mods + [r.choice(["zz", "", "-1"])], secs + [10]
        elif bad == 9 and s and s.out:
            # ... and the other way round: a valid modification with a malformed ack id
            mods, secs = [str(r.choice(s.out)[0])], [r.choice([0, 30])]
            acks = acks + ["zz"]
        else:
            broke = False
        if s and (broke or (acks and mods)):
            # a rejected control message must change nothing (baseline). For an accepted one with
            # both parts the flush matters: if the first request's expiry re-check queued messages,
            # the stream's pull loop would race with the second request (tokio `merge` order)
            self.emit("stats " + hx(s.name))
        self.emit("ssend %d %s %s %s %s %d %d" % (k, subf, jl(hx(a) for a in acks), jl(hx(a) for a in mods), jl(str(x) for x in secs), mm, mb))
        if broke:
            if s:
                s.stream = None
            self.streams.pop(k, None)
        elif s:
            gone = set(acks)
            s.out = [(a, d) for (a, d) in s.out if str(a) not in gone]
        self.emit("sread %d" % k)
        if broke and s:
            self.emit("stats " + hx(s.name))

    def op_sread(self):
        if self.streams:
            self.emit("sread %d" % self.rng.choice(sorted(self.streams)))

    def op_sdrop(self):
        r = self.rng
        if not self.streams:
            return
        k = r.choice(sorted(self.streams))
        if r.chance(1, 2):
            self.emit("sclose %d" % k)
            self.req_closed.add(k)
            return
        self.emit("sread %d" % k)
        self.emit("sdrop %d" % k)
        s = self.subs.get(self.streams.pop(k))
        if s:
            s.stream = None

    def op_bad(self):
        """A malformed request of a random kind (C17), then nothing else changes."""
        r = self.rng
        bad_names = [b"", b"x", b"projects/p1", b"projects/p1/topics", b"projects/p1/subscriptions/", b"projects//x",
                     b"projects/p1/topicz/t1", b"projects/p1/subscriptionz/s1", "projects/é".encode(), b"/" * 30,
                     b"projects/p1/topics/t1", b"projects/p1/subscriptions/s1", b"p" * 5000]
        if r.chance(1, 4):
            # long, malformed, non-ASCII: 2-, 3- and 4-byte characters behind prefixes of both parities
            ch = r.choice(["é", "日", "𝄞"])
            pre = r.choice([b"projects/p1/topic/", b"projects/p1/topicz/", b"project/p", b"x", b"projects/p1/subscription/", b""])
            bad_names = [pre + (ch * r.choice([90, 130, 300, 700])).encode()]
        bn = hx(r.choice(bad_names))
        kind = r.below(15)
        t = hx(self.live_topic() or tname("p1", "t1"))
        s = hx(self.live_sub() or sname("p1", "s1"))
        if kind == 0:
            self.emit("ctopic " + bn)
        elif kind == 1:
            self.emit("gtopic " + bn)
        elif kind == 2:
            self.emit("csub %s %s 10 -" % (bn, t))
        elif kind == 3:
            self.emit("csub %s %s 10 -" % (hx(sname("p1", "zz")), bn))
        elif kind == 4:
            self.emit("pull %s 1 1" % bn)
        elif kind == 5:
            if r.chance(1, 3):
                # a malformed ack id (long, non-ASCII) as the LAST element of an otherwise valid batch
                ch = r.choice(["é", "日", "𝄞"])
                self.emit("ack %s %s" % (s, jl([hx(b"1"), hx(b"2"), hx((ch * r.choice([100, 129, 300])).encode())])))
            else:
                self.emit("ack %s %s" % (bn, hx(b"1")))
        elif kind == 6:
            self.emit("mod %s -1 %s" % (s, hx(b"1")))
        elif kind == 7:
            self.emit("ltopics %s -1 -" % hx(b"projects/p1"))
        elif kind == 8:
            self.emit("lsubs %s 0 %s" % (hx(b"projects/p1"), hx(b"!!notbase64")))
        elif kind == 9:
            self.emit("ltsubs %s 0 %s" % (t, hx(b"AAAA")))
        elif kind == 10:
            self.emit("ltopics %s 0 -" % hx(b"project/p1"))
        elif kind == 11:
            self.emit("pub %s %s" % (bn, hx(b"x")))
        elif kind == 12:
            self.emit("dsub " + bn)
        elif kind == 13:
            self.emit("sopen 99 %s %d 0" % (s, r.choice([-1, 65536, 2 ** 40])))
        else:
            # RPCs the emulator does not implement: a status, nothing else
            self.emit("unimpl " + r.choice(["update_topic", "list_topic_snapshots", "detach_subscription", "update_subscription",
                                            "modify_push_config", "get_snapshot", "list_snapshots", "create_snapshot",
                                            "update_snapshot", "delete_snapshot", "seek"]))

    TABLE = {
        "ctopic": op_ctopic, "dtopic": op_dtopic, "gtopic": op_gtopic, "csub": op_csub, "dsub": op_dsub,
        "gsub": op_gsub, "lists": op_lists, "pub": op_pub, "pull": op_pull, "ack": op_ack, "mod": op_mod,
        "adv": op_adv, "stats": op_stats, "registry": op_registry, "sopen": op_sopen, "ssend": op_ssend, "sread": op_sread,
        "sdrop": op_sdrop, "bad": op_bad,
    }

    def run(self, n):
        w = self.p["weights"]
        pairs = sorted(w.items())
        # a usable starting point most of the time
        if self.rng.chance(5, 6):
            self.op_ctopic()
            self.op_csub()
        for _ in range(n):
            k = self.rng.weighted(pairs)
            self.TABLE[k](self)
        self.epilogue()
        return self.ops

    def epilogue(self):
        """Make the final state observable: stats, listings, then drain every live subscription
        after all leases have run out (a lease is at most 600 s + rounding)."""
        for k in self.opened:
            self.emit("sread %d" % k)
            self.emit("sdrop %d" % k)
        for n in sorted(self.subs):
            self.emit("stats " + hx(n))
        self.emit("registry")
        for p in self.projects:
            self.emit("ltopics %s 1000 -" % hx(("projects/" + p).encode()))
            self.emit("lsubs %s 1000 -" % hx(("projects/" + p).encode()))
        for t in sorted(self.topics):
            self.emit("ltsubs %s 1000 -" % hx(t))
        if self.p.get("drain", True) and self.subs:
            # every lease is over after max(ack deadline, 600 s modification cap) + rounding
            longest = max([600 * 10 ** 6] + [s.dl for s in self.subs.values()])
            self.emit("# drain")
            self.emit("adv %d" % (longest + 101000000))
            for n in sorted(self.subs):
                self.emit("pull %s 1000 1" % hx(n))
                self.emit("pull %s 1000 1" % hx(n))
                self.emit("stats " + hx(n))


GENERAL = {
    "weights": {"ctopic": 3, "dtopic": 1, "gtopic": 1, "csub": 4, "dsub": 2, "gsub": 2, "lists": 2, "pub": 14,
                "pull": 14, "ack": 8, "mod": 7, "adv": 10, "stats": 3, "sopen": 2, "ssend": 3, "sread": 2, "sdrop": 1, "bad": 1},
}

DATA_PLANE = {
    "projects": ["p1"], "topics": ["t1", "t2"], "subs": ["s1", "s2", "s3"],
    "weights": {"ctopic": 1, "csub": 2, "dsub": 1, "pub": 16, "pull": 18, "ack": 10, "mod": 9, "adv": 14, "stats": 3,
                "sopen": 2, "ssend": 3, "sread": 2, "sdrop": 1},
}

DEADLINES = {
    "projects": ["p1"], "topics": ["t1"], "subs": ["s1", "s2"],
    "ackdl": [-5, 0, 1, 9, 10, 11, 17, 600, 601, 3600],
    "adv": [1000, 999000, 1000000, 9000000, 9899000, 9999000, 10000000, 10001000, 10099000, 10100000, 10199000, 10200000, 16999000, 17000000],
    "adv_jitter": (1, 2), "adv_jitter_us": 200000, "edge_chance": (1, 3),
    "mod_secs": [0, 1, 2, 9, 10, 11, 30, 599, 600, 601, 2 ** 31 - 1],
    "block_chance": (1, 4), "big_batch_chance": (1, 12),
    "weights": {"csub": 2, "pub": 10, "pull": 16, "ack": 4, "mod": 10, "adv": 22, "stats": 3, "gsub": 2, "lists": 1,
                "sopen": 2, "sread": 2, "ssend": 5, "sdrop": 1},
}

NAMESPACE = {
    # "p1"+"t1" = "p"+"1t1" and "p1"+"s1" = "p"+"1s1": names whose project ++ id collide must stay different keys
    "projects": ["p1", "p2", "p"], "topics": ["t1", "t2", "1t1"], "subs": ["s1", "s2", "s3", "1s1"],
    "push_chance": (1, 4), "drain": False,
    "weights": {"ctopic": 10, "dtopic": 6, "gtopic": 5, "csub": 12, "dsub": 7, "gsub": 7, "lists": 10, "pub": 5, "pull": 4,
                "ack": 2, "mod": 2, "stats": 3, "bad": 2, "adv": 1, "registry": 5},
}

MALFORMED = {
    "projects": ["p1"], "topics": ["t1", "t2"], "subs": ["s1", "s2"],
    "weights": {"ctopic": 2, "csub": 3, "pub": 6, "pull": 6, "ack": 4, "mod": 4, "bad": 30, "lists": 3, "stats": 4, "gsub": 2,
                "gtopic": 2, "sopen": 3, "ssend": 8, "sread": 3, "adv": 2},
}

BATCHES = {
    "projects": ["p1"], "topics": ["t1"], "subs": ["s1", "s2"], "big_batches": True,
    "max_messages": [1, 2, 3, 39, 40, 41, 999, 1000, 1000, 1001, 2000, 3000, 65535, 65536, 65537, 65538, 2 ** 31 - 1, 0, -1, -65536, 131072],
    "stream_max": [1, 2, 3, 40, 1000, 65535, 0],
    "weights": {"csub": 1, "pub": 12, "pull": 14, "ack": 3, "mod": 3, "adv": 5, "stats": 3, "sopen": 3, "sread": 4, "ssend": 1, "sdrop": 1},
}

LISTING = {
    # many names in few projects, deletions from the middle of the creation order, walks with all page sizes
    "projects": ["p1", "p2"], "topics": ["t1", "t2", "t3", "t4", "t5", "t6", "t7"], "subs": ["s1", "s2", "s3", "s4", "s5", "s6", "s7"],
    "drain": False,
    "weights": {"ctopic": 14, "dtopic": 7, "csub": 14, "dsub": 7, "lists": 12, "gsub": 1, "pub": 1},
}

FUTUREACK = {
    # acknowledgements (and modifications) naming ack ids that are only issued LATER: they must stay without effect
    # when those ids are finally handed out, left alone, and run into their deadline
    "projects": ["p1"], "topics": ["t1"], "subs": ["s1", "s2"], "future_ack": True,
    "adv": [1000000, 5000000, 9999000, 10000000, 10100000, 10200000, 11000000, 21000000],
    "weights": {"csub": 1, "pub": 10, "pull": 12, "ack": 10, "mod": 3, "adv": 14, "stats": 4},
}

PROFILES = {"futureack": FUTUREACK, "listing": LISTING, "general": GENERAL, "data": DATA_PLANE, "deadlines": DEADLINES, "namespace": NAMESPACE,
            "malformed": MALFORMED, "batches": BATCHES}


def bigbacklog_case(r):
    """A backlog around 65536 (where the actor's 16-bit length conversion wraps) pulled with small limits."""
    t, sub = tname("p1", "t1"), sname("p1", "s1")
    ops = ["new", "ctopic " + hx(t), "csub %s %s 10 -" % (hx(sub), hx(t))]
    n = 65536 + r.choice([0, 0, 1, 3, 10, 999, 1000, 1001, 1500])
    left = n
    while left > 0:
        k = min(left, r.choice([16384, 20000, 32768]))
        ops.append("pub %s %s" % (hx(t), ",".join(["61"] * k)))
        left -= k
    ops.append("stats " + hx(sub))
    backlog = n
    # always: the limits at and around the 1000 cap and a multiple of it, then random ones
    fixed = [1000, 1, 2000]
    for i in range(r.range(4, 6)):
        small = [1, 1, 2, 3, 10, 11, 999, 1000, 1001, (backlog % 65536) or 1, (backlog % 65536) + 1]
        # a limit above 1000 is only cheap for the model (sorted-list tracker) while the wrapped length is small
        big = [65535, 65536, 65537, 3000] if backlog >= 65536 and backlog % 65536 <= 1000 else []
        mx = fixed[i] if i < len(fixed) else r.choice([m for m in small if m <= 1001] + big)
        if mx > 1001 and not (backlog >= 65536 and backlog % 65536 <= 1000):
            mx = 1000
        ops.append("pull %s %d 1" % (hx(sub), mx))
        ops.append("stats " + hx(sub))
        m16 = mx % 65536
        backlog -= min(backlog, max(min(m16, max(backlog % 65536, 1000)), 0))
    return ops


def bigmsg_case(r):
    """Large payloads (MiB range; each Publish stays below the 4 MiB request limit) queued together and
    pulled with room for all of them: order, contiguity and content must not depend on message size."""
    t, sub = tname("p1", "t1"), sname("p1", "s1")
    ops = ["new", "ctopic " + hx(t), "csub %s %s 10 -" % (hx(sub), hx(t))]
    sizes = r.choice([[3 << 20, 2 << 20, 1], [1, 3 << 20, 1 << 20, 2], [2 << 20, 2 << 20, 7, 1 << 20], [3 << 20, 1, 3 << 20, 1]])
    for k, n in enumerate(sizes):
        b = bytes([65 + k]) * n
        ops.append("pub %s %s" % (hx(t), b.hex()))
    ops.append("stats " + hx(sub))
    ops.append("pull %s %d 1" % (hx(sub), r.choice([10, 1000, len(sizes)])))
    ops.append("pull %s 1000 1" % hx(sub))
    ops.append("stats " + hx(sub))
    ops.append("adv 10300000")
    ops.append("pull %s 2 1" % hx(sub))
    ops.append("pull %s 1000 1" % hx(sub))
    ops.append("stats " + hx(sub))
    return ops


def cases(rng, profile_name, n_cases, max_len):
    if profile_name == "bigmsg":
        return [bigmsg_case(rng.fork("bigmsg/%d" % i)) for i in range(n_cases)]
    if profile_name == "bigbacklog":
        return [bigbacklog_case(rng.fork("bigbacklog/%d" % i)) for i in range(n_cases)]
    out = []
    for i in range(n_cases):
        r = rng.fork("%s/%d" % (profile_name, i))
        g = SeqGen(r, PROFILES[profile_name])
        out.append(g.run(r.range(max(3, max_len // 4), max_len)))
    return out
