"""Source literals the model's definitions depend on (DESIGN §3.4): each literal is read out of the CURRENT
source with a pattern and the Lean model is probed (driver `pure` ops, i.e. the model's own executable
definitions) at inputs where that literal decides the outcome. The model must answer what the formula
instantiated with the SOURCE value gives. A literal that changed is then reported with the boundary input as
the first candidate for the failing-input search; a pattern that is no longer found (refactor) is recorded as
`extracted: false` and raises nothing — the correspondence streams remain the tie.
"""
import os, re
from .common import REPO, run_model


def _num(s):
    return int(s.replace("_", ""))


def _src(path):
    try:
        return open(os.path.join(REPO, path)).read()
    except OSError:
        return ""


# name, owners, file, regex (one group = the literal), probes: (pure op line, expected answer as a function of the literal)
CONSTS = [
    ("ack-deadline rounding grid (µs)", ("C04",), "src/subscriptions/pulled_message.rs", r"PRECISION_MICROS\s*:\s*u64\s*=\s*([\d_]+)",
     [("round %d" % t, (lambda c, t=t: str(t + t % c))) for t in (30000, 150000, 10099999, 777777)]),
    ("MAX_PULL_COUNT", ("C15",), "src/subscriptions/subscription_actor.rs", r"const\s+MAX_PULL_COUNT\s*:\s*u16\s*=\s*([\d_]+)",
     # the constant decides the batch only when the 16-bit length conversion wraps (backlog >= 65536)
     [("capacity 65535 65541", lambda c: str(min(65541, max(min(65535, max(5, c)), 1)))),
      ("capacity 3000 65536", lambda c: str(min(65536, max(min(3000, max(0, c)), 1))))]),
    ("ModifyAckDeadline cap (s)", ("C05",), "src/api/parser.rs", r"v\s+if\s+v\s*>=\s*([\d_]+)\s*=>\s*Ok\(Some\(Duration::from_secs\(\1\)\)\)",
     [("ext.parse %d", None)]),
    ("minimum ack deadline (s)", ("C04", "C10"), "src/api/subscriber.rs", r"v\s+if\s+v\s*<=\s*([\d_]+)\s*=>\s*Duration::from_secs\(\1\)",
     [("ackdl.eff %d", None)]),
    ("default page size", ("C13",), "src/paging/mod.rs", r"\b0\s*=>\s*([\d_]+)\s*,",
     [("paging 0 -", lambda c: str(c))]),
    ("maximum page size", ("C13",), "src/paging/mod.rs", r"v\s+if\s+v\s*>\s*([\d_]+)\s*=>\s*\1",
     [("paging 1000000 -", lambda c: str(c)), ("paging %d -" % 5000, lambda c: str(min(c, 5000)))]),
]


def _model(lines):
    out, crashed, _ = run_model("pure", "\n".join(lines) + "\n")
    return out


def check(prop):
    """Returns (records for the evidence, disagreement strings owned by `prop`)."""
    records, disagreements = [], []
    for name, owners, path, rx, probes in CONSTS:
        if prop not in owners:
            continue
        m = re.search(rx, _src(path))
        rec = {"constant": name, "file": path, "extracted": bool(m)}
        if not m:
            records.append(rec)
            continue
        c = _num(m.group(1))
        rec["source_value"] = c
        lines, expect = [], []
        if name.startswith("ModifyAckDeadline cap"):
            for n in (c - 1, c, c + 1, 2 * c):
                lines.append("ext.parse %d" % n)
                expect.append("secs %d" % min(n, c))
        elif name.startswith("minimum ack deadline"):
            for n in (c - 1, c, c + 1):
                lines.append("ackdl.eff %d" % n)
                expect.append(str(max(n, c)))
        else:
            for op, f in probes:
                lines.append(op)
                expect.append(f(c))
        got = _model(lines)
        bad = [(l, e, g) for l, e, g in zip(lines, expect, got + ["?"] * len(lines)) if not _same(e, g)]
        rec["model_agrees"] = not bad
        rec["probes"] = len(lines)
        records.append(rec)
        for l, e, g in bad:
            disagreements.append("source literal `%s` = %d (%s): with it `%s` gives %s, the model gives %s" % (name, c, path, l, e, g))
    return records, disagreements


def _same(expected, got):
    """Model answers may carry extra tokens (e.g. `secs 600`, `ok 20 …`): the expected text must be one of the
    answer's space-separated fields, or the whole answer."""
    if expected == got:
        return True
    return expected in got.split(" ") or expected in got
