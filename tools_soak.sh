#!/bin/bash
# usage: tools_soak.sh <tier> "<props>" "<seeds>"  — runs checks with several seeds, 6 at a time; prints VIOLATION lines
tier=$1; props=$2; seeds=$3
cd /verif
for s in $seeds; do for p in $props; do echo "$p $s"; done; done | \
  xargs -P 6 -L 1 bash -c 'out=$(VERIF_SEED=$1 ./check $0 '"$tier"' 2>&1); rc=$?; echo "$0 seed=$1 rc=$rc $(echo "$out" | grep -E "VIOLATION|KNOWN" | cut -c1-200)"'
