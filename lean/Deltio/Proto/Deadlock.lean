/-
  P3 — the wait-for structure between a topic actor and one of its subscription actors, with
  bounded FIFO mailboxes of capacity `cap ≥ 1` and any number of client requests.

  Two protocols share the state space:
  * `pinned`   — `SubscriptionActor::delete` awaits `topic.remove_subscription()` inside its turn
                 (the code before the `fix:` commit 52d094d);
  * `repaired` — the actor marks itself deleted, a helper task detaches it from the topic and
                 reports back through the mailbox (`FinishDelete`); the actor keeps receiving.

  Labels are the atomic steps: a client enqueues its request, an actor takes a mailbox message,
  the topic's pending post is enqueued, the deleting subscription / its helper sends.
-/
namespace Deltio.P3

inductive TMsg where
  | publish | remove | other
deriving DecidableEq, Repr

inductive SMsg where
  | post | delete | finish | other
deriving DecidableEq, Repr

/-- What a client still has to enqueue. -/
inductive Want where
  | publish | otherT | otherS | delete
deriving DecidableEq, Repr

inductive SPhase where
  | idle            -- receiving
  | sendRemove      -- pinned: inside Delete, blocked sending `remove` to the topic
  | awaitRemove     -- pinned: inside Delete, awaiting the topic's reply
  | exited          -- actor gone: mailbox closed
deriving DecidableEq, Repr

inductive Helper where
  | none | sendRemove | awaitRemove | sendFinish
deriving DecidableEq, Repr

structure State where
  cap : Nat
  repaired : Bool
  clients : List Want          -- requests not yet enqueued
  mbT : List TMsg
  mbS : List SMsg
  publishing : Bool            -- topic actor inside Publish, its post to S not yet enqueued
  attached : Bool              -- S is in the topic's subscription map
  deleted : Bool               -- S.deleted
  sPhase : SPhase
  helper : Helper
deriving DecidableEq, Repr

inductive Label where
  | enq (i : Nat)              -- client i enqueues its request
  | tTake                      -- topic actor takes the head of its mailbox
  | tPostDone                  -- the post of the running Publish is enqueued (or fails: S exited)
  | sTake                      -- subscription actor takes the head of its mailbox
  | sSendRemove                -- pinned: the deleting actor enqueues `remove`
  | hSendRemove                -- repaired: helper enqueues `remove`
  | hSendFinish                -- repaired: helper enqueues `finish`
deriving DecidableEq, Repr

def init (cap : Nat) (repaired : Bool) (clients : List Want) : State :=
  { cap := cap, repaired := repaired, clients := clients, mbT := [], mbS := [], publishing := false,
    attached := true, deleted := false, sPhase := .idle, helper := .none }

def step (s : State) : Label → Option State
  | .enq i =>
    match s.clients[i]? with
    | none => none
    | some w =>
      let rest := s.clients.eraseIdx i
      match w with
      | .publish => if s.mbT.length < s.cap then some { s with clients := rest, mbT := s.mbT ++ [.publish] } else none
      | .otherT => if s.mbT.length < s.cap then some { s with clients := rest, mbT := s.mbT ++ [.other] } else none
      | .otherS =>
        if s.sPhase = .exited then some { s with clients := rest }          -- send fails: Closed
        else if s.mbS.length < s.cap then some { s with clients := rest, mbS := s.mbS ++ [.other] } else none
      | .delete =>
        if s.sPhase = .exited then some { s with clients := rest }
        else if s.mbS.length < s.cap then some { s with clients := rest, mbS := s.mbS ++ [.delete] } else none
  | .tTake =>
    if s.publishing then none
    else match s.mbT with
      | [] => none
      | .publish :: rest => some { s with mbT := rest, publishing := s.attached }
      | .other :: rest => some { s with mbT := rest }
      | .remove :: rest =>
        -- detach and reply: the waiting deleter (pinned) finishes its turn and exits; the helper
        -- (repaired) goes on to report back
        if s.repaired then some { s with mbT := rest, attached := false, helper := if s.helper = .awaitRemove then .sendFinish else s.helper }
        else some { s with mbT := rest, attached := false,
                           sPhase := if s.sPhase = .awaitRemove then .exited else s.sPhase,
                           mbS := if s.sPhase = .awaitRemove then [] else s.mbS }
  | .tPostDone =>
    if !s.publishing then none
    else if s.sPhase = .exited then some { s with publishing := false }      -- Closed
    else if s.mbS.length < s.cap then some { s with publishing := false, mbS := s.mbS ++ [.post] }
    else none
  | .sTake =>
    if s.sPhase ≠ .idle then none
    else match s.mbS with
      | [] => none
      | .post :: rest => some { s with mbS := rest }
      | .other :: rest => some { s with mbS := rest }
      | .delete :: rest =>
        if s.deleted then some { s with mbS := rest }
        else if s.repaired then some { s with mbS := rest, deleted := true, helper := .sendRemove }
        else some { s with mbS := rest, deleted := true, sPhase := .sendRemove }
      | .finish :: _ => some { s with mbS := [], sPhase := .exited }
  | .sSendRemove =>
    if s.sPhase = .sendRemove ∧ s.mbT.length < s.cap then some { s with mbT := s.mbT ++ [.remove], sPhase := .awaitRemove } else none
  | .hSendRemove =>
    if s.helper = .sendRemove ∧ s.mbT.length < s.cap then some { s with mbT := s.mbT ++ [.remove], helper := .awaitRemove } else none
  | .hSendFinish =>
    if s.helper = .sendFinish ∧ s.sPhase ≠ .exited ∧ s.mbS.length < s.cap then
      some { s with mbS := s.mbS ++ [.finish], helper := .none }
    else none

def run : State → List Label → Option State
  | s, [] => some s
  | s, l :: ls => match step s l with
    | some s' => run s' ls
    | none => none

inductive Reachable (s0 : State) : State → Prop
  | refl : Reachable s0 s0
  | step {s s' : State} {l : Label} : Reachable s0 s → step s l = some s' → Reachable s0 s'

/-- Something is still to be done. -/
def Pending (s : State) : Prop :=
  s.clients ≠ [] ∨ s.mbT ≠ [] ∨ (s.mbS ≠ [] ∧ s.sPhase ≠ .exited) ∨ s.publishing = true ∨
  s.sPhase = .sendRemove ∨ s.sPhase = .awaitRemove ∨ s.helper ≠ .none

def allLabels (s : State) : List Label :=
  (List.range s.clients.length).map .enq ++ [.tTake, .tPostDone, .sTake, .sSendRemove, .hSendRemove, .hSendFinish]

/-- No label is enabled. -/
def Stuck (s : State) : Prop := ∀ l, step s l = none

end Deltio.P3
