/-
  P1 — create / delete of ONE subscription name on one live topic: the subscription manager's
  map entry, the topic actor's map entry (keyed by NAME), the topic mailbox (FIFO), and per
  generation (internal id) the attach task spawned by `create_subscription`, the actor's `deleted`
  flag and the helper task spawned by `begin_delete`.

  Two protocols share the state space:
  * `pinned`   — `Subscription::delete` sends `Delete` at once (the code before `fix:` 7f785e8);
  * `repaired` — `Subscription::delete` first waits for `attach_finished`.

  Labels are the atomic steps. Any number of clients: `create` and `deleteStart` are always offered.
-/
namespace Deltio.P1

inductive APhase where
  | none | toSend | sent | replied | finished
deriving DecidableEq, Repr

inductive HPhase where
  | none | toSend | sent | removed | done
deriving DecidableEq, Repr

inductive TMsg where
  | attach (g : Nat)
  | remove (g : Nat)      -- removal is BY NAME; `g` only identifies whose helper gets the reply
deriving DecidableEq, Repr

structure Gen where
  att : APhase := .none
  deleted : Bool := false
  helper : HPhase := .none
deriving DecidableEq, Repr

structure State where
  repaired : Bool
  mgr : Option Nat            -- SubscriptionManager.subscriptions[name]
  topic : Option Nat          -- TopicActor.subscriptions[name]
  mbT : List TMsg             -- topic mailbox
  next : Nat                  -- next internal id
  gen : Nat → Gen
  dels : List Nat             -- Delete calls that hold a handle and have not reached the actor yet
  tdead : Bool := false       -- the topic of the current generation has been deleted (its map was cleared)

inductive Label where
  | create                    -- manager: check-and-insert under the write lock; spawn the attach task
  | attachSend (g : Nat)      -- attach task: enqueue AttachSubscription
  | topicTake                 -- topic actor handles the head of its mailbox
  | attachFinish (g : Nat)    -- create_subscription: mark_attach_finished (and answer the caller)
  | deleteStart               -- a DeleteSubscription looks the name up and gets a handle
  | actorDelete (i : Nat)     -- the i-th pending Delete reaches its subscription actor (begin_delete)
  | helperSend (g : Nat)      -- helper: enqueue RemoveSubscription
  | helperFinish (g : Nat)    -- actor: FinishDelete → finish_delete (manager entry removed by name)
  | topicDie                  -- DeleteTopic is handled by the topic actor: its map is cleared
  | retarget (g : Nat)        -- the new generation was created on another, live topic (decided before its attach is sent)
  | actorDeleteDirect (i : Nat) -- begin_delete when the topic is gone (`Weak::upgrade` fails): finish at once
deriving DecidableEq, Repr

def init (repaired : Bool) : State :=
  { repaired := repaired, mgr := none, topic := none, mbT := [], next := 0, gen := fun _ => {}, dels := [], tdead := false }

/-- Steps of the protocol itself (as opposed to the environment's: a new request, a topic deletion). -/
def Label.internal : Label → Bool
  | .create | .deleteStart | .topicDie | .retarget _ => false
  | _ => true

def upd (f : Nat → Gen) (g : Nat) (v : Gen) : Nat → Gen := fun x => if x = g then v else f x

def step (s : State) : Label → Option State
  | .create =>
    if s.mgr = none then
      some { s with mgr := some s.next, next := s.next + 1, gen := upd s.gen s.next { att := .toSend } }
    else none
  | .attachSend g =>
    if (s.gen g).att = .toSend then
      some { s with mbT := s.mbT ++ [.attach g], gen := upd s.gen g { s.gen g with att := .sent } }
    else none
  | .topicTake =>
    match s.mbT with
    | [] => none
    | .attach g :: rest =>
      -- `if let Entry::Vacant(e) = subscriptions.entry(name) { e.insert(sub) }`
      some { s with mbT := rest, topic := (if s.topic = none then some g else s.topic),
                    gen := upd s.gen g { s.gen g with att := .replied } }
    | .remove g :: rest =>
      some { s with mbT := rest, topic := none, gen := upd s.gen g { s.gen g with helper := .removed } }
  | .attachFinish g =>
    if (s.gen g).att = .replied then some { s with gen := upd s.gen g { s.gen g with att := .finished } } else none
  | .deleteStart =>
    match s.mgr with
    | none => none
    | some g => some { s with dels := s.dels ++ [g] }
  | .actorDelete i =>
    match s.dels[i]? with
    | none => none
    | some g =>
      if s.repaired ∧ (s.gen g).att ≠ .finished then none           -- still waiting for attach_finished
      else if (s.gen g).deleted then some { s with dels := s.dels.eraseIdx i }   -- conflict / Closed
      else some { s with dels := s.dels.eraseIdx i, gen := upd s.gen g { s.gen g with deleted := true, helper := .toSend } }
  | .helperSend g =>
    if (s.gen g).helper = .toSend then
      some { s with mbT := s.mbT ++ [.remove g], gen := upd s.gen g { s.gen g with helper := .sent } }
    else none
  | .helperFinish g =>
    if (s.gen g).helper = .removed then
      some { s with mgr := none, gen := upd s.gen g { s.gen g with helper := .done } }
    else none
  | .topicDie =>
    if s.tdead then none else some { s with topic := none, tdead := true }
  | .retarget g =>
    if s.tdead ∧ s.mgr = some g ∧ (s.gen g).att = .toSend then some { s with topic := none, tdead := false } else none
  | .actorDeleteDirect i =>
    match s.dels[i]? with
    | none => none
    | some g =>
      if !s.tdead then none
      else if s.repaired ∧ (s.gen g).att ≠ .finished then none
      else if (s.gen g).deleted then some { s with dels := s.dels.eraseIdx i }
      else some { s with dels := s.dels.eraseIdx i, mgr := none,
                         gen := upd s.gen g { s.gen g with deleted := true, helper := .done } }

def run : State → List Label → Option State
  | s, [] => some s
  | s, l :: ls => match step s l with
    | some s' => run s' ls
    | none => none

inductive Reachable (s0 : State) : State → Prop
  | refl : Reachable s0 s0
  | step {s s' : State} {l : Label} : Reachable s0 s → step s l = some s' → Reachable s0 s'

/-- No task has anything left to do and no Delete is in flight. -/
def Quiescent (s : State) : Prop :=
  s.mbT = [] ∧ s.dels = [] ∧
  ∀ g, ((s.gen g).att = .none ∨ (s.gen g).att = .finished) ∧ ((s.gen g).helper = .none ∨ (s.gen g).helper = .done)

end Deltio.P1
