/-
  P5 — `FlowControl` (src/subscriptions/flow_control.rs) at the granularity of its atomic
  operations, sequentially consistent interleavings. One arbitrary waiter against any number of
  concurrent `inc` / `dec` calls; waiters only read the shared state, so what holds for one holds
  for each of n simultaneous waiters.

    inc/dec : fetch bytes ; fetch msgs ; notify_waiters (epoch += 1)
    has_available_space : load msgs (≥ max ⇒ false) ; load bytes (≥ max ⇒ false) ; true
    wait_for_available_space : check ; loop { notified() — records the epoch — ; check ; park }
  A parked `Notified` future is woken exactly when `notify_waiters` ran after its creation.
-/
namespace Deltio.P5

/-- An `inc` or `dec` call in progress: signed deltas, and how far it got. -/
structure Op where
  db : Int
  dm : Int
  pc : Nat        -- 0: nothing yet, 1: bytes done, 2: msgs done (notify pending)
deriving DecidableEq, Repr

inductive WPc where
  | c1m            -- first check, about to load msgs
  | c1b            -- first check, msgs were below the limit, about to load bytes
  | create         -- about to create the `Notified` future
  | c2m            -- second check (future exists), about to load msgs
  | c2b
  | parked
  | returned
deriving DecidableEq, Repr

structure State where
  maxB : Int
  maxM : Int
  bytes : Int
  msgs : Int
  epoch : Nat
  ops : List Op
  wpc : WPc
  we : Nat            -- epoch recorded by the waiter's `Notified` future
  touched : Bool      -- ghost: some fetch happened since the future was created
  lm : Int            -- ghost: last loaded msgs
  lb : Int            -- ghost: last loaded bytes
  sawM : Bool         -- ghost: this check observed msgs < max
deriving DecidableEq, Repr

def init (maxB maxM : Int) : State :=
  { maxB := maxB, maxM := maxM, bytes := 0, msgs := 0, epoch := 0, ops := [], wpc := .c1m, we := 0,
    touched := false, lm := 0, lb := 0, sawM := false }

inductive Label where
  | begin (db dm : Int)        -- a thread enters inc (positive deltas) or dec (negative)
  | opStep (i : Nat)           -- op i performs its next atomic operation
  | waiter                     -- the waiter performs its next atomic operation
deriving DecidableEq, Repr

def step (s : State) : Label → Option State
  | .begin db dm => some { s with ops := s.ops ++ [{ db := db, dm := dm, pc := 0 }] }
  | .opStep i =>
    match s.ops[i]? with
    | none => none
    | some o =>
      if o.pc = 0 then some { s with bytes := s.bytes + o.db, ops := s.ops.set i { o with pc := 1 }, touched := true }
      else if o.pc = 1 then some { s with msgs := s.msgs + o.dm, ops := s.ops.set i { o with pc := 2 }, touched := true }
      else some { s with epoch := s.epoch + 1, ops := s.ops.eraseIdx i }
  | .waiter =>
    match s.wpc with
    | .c1m => if s.msgs ≥ s.maxM then some { s with wpc := .create, lm := s.msgs, sawM := false }
              else some { s with wpc := .c1b, lm := s.msgs, sawM := true }
    | .c1b => if s.bytes ≥ s.maxB then some { s with wpc := .create, lb := s.bytes } else some { s with wpc := .returned, lb := s.bytes }
    | .create => some { s with wpc := .c2m, we := s.epoch, touched := false }
    | .c2m => if s.msgs ≥ s.maxM then some { s with wpc := .parked, lm := s.msgs, sawM := false }
              else some { s with wpc := .c2b, lm := s.msgs, sawM := true }
    | .c2b => if s.bytes ≥ s.maxB then some { s with wpc := .parked, lb := s.bytes } else some { s with wpc := .returned, lb := s.bytes }
    | .parked => if s.we ≠ s.epoch then some { s with wpc := .create } else none      -- woken: loop again
    | .returned => none

def run : State → List Label → Option State
  | s, [] => some s
  | s, l :: ls => match step s l with
    | some s' => run s' ls
    | none => none

end Deltio.P5
