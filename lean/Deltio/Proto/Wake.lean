/-
  P2 — waiting consumers, `tokio::sync::Notify` and the deletion signal, for ONE subscription and
  any number of anonymous consumers (unary blocking Pulls and StreamingPull loops, in any mix).

  Consumers are counted by program counter:
    q      pull request in the subscription actor's mailbox (also: abandoned callers whose request
           is still queued — the turn runs regardless)
    g0     got an empty result, about to poll `signal` (and `deleted`)
    gp     got a non-empty result (about to return it / yield it)
    parked registered in the Notify waiter list
    notif  notified (`notify_one` / `notify_waiters`), not yet run
    blk    woken, but its next pull request is blocked on a full mailbox (bounded-mailbox corner)
  `Notify`: `notify_one` hands the notification to one parked waiter if there is one, else stores
  the permit; a `Notified` future created before the notification and polled after it consumes the
  permit; a notified waiter that is dropped forwards its notification.

  Which actor turns call `notify_one` is the `notified` flag of `SubState.turn` (L1): Post always;
  Pull / Modify / Expire iff the backlog is non-empty afterwards.
-/
namespace Deltio.P2

structure State where
  backlog : Nat
  permit : Bool
  q : Nat
  g0 : Nat
  gp : Nat
  parked : Nat
  notif : Nat
  blk : Nat
  other : Nat           -- requests other than pulls queued in the subscription mailbox
  deleted : Bool        -- DeleteEnd happened: signal sent, waiters notified, actor exited
  ended : Nat           -- consumers that terminated with an error status after the deletion
  silent : Nat          -- pinned only: stream loops that ended without a status (the RPC hangs)
deriving DecidableEq, Repr

def init : State :=
  { backlog := 0, permit := false, q := 0, g0 := 0, gp := 0, parked := 0, notif := 0, blk := 0, other := 0,
    deleted := false, ended := 0, silent := 0 }

/-- `Notify::notify_one` -/
def notifyOne (s : State) : State :=
  if s.parked > 0 then { s with parked := s.parked - 1, notif := s.notif + 1 } else { s with permit := true }

inductive Label where
  | arrive                     -- a new Pull / StreamingPull: signal created, pull request enqueued
  | post (k : Nat)             -- Post turn with k messages (k may be 0)
  | requeue (k : Nat)          -- Modify(nack) / Expire turn putting k ≥ 1 messages back
  | pullTurn (m : Nat)         -- Pull turn of a live caller with effective batch limit m ≥ 1
  | pullZombie (m : Nat)       -- Pull turn whose caller has gone (result dropped, messages leased)
  | ret (again : Bool)         -- non-empty result returned; a stream loops (`again`), a unary Pull ends
  | poll                       -- empty result: poll `signal`
  | wake                       -- a notified consumer runs and enqueues its next pull
  | cancelParked | cancelNotified | cancelQueued | cancelGot0 | cancelGotP
  | block | unblock | cancelBlocked     -- bounded mailbox: woken consumer stuck on a full mailbox
  | otherArrive | otherTurn             -- any non-pull request (ack, modify, stats, …) enqueued / handled
  | delete                     -- DeleteEnd
  | closed (stream pinned : Bool)       -- a queued pull finds the actor gone
  | wakeDeleted (viaSignal : Bool)      -- notified consumer after the deletion: either select branch
deriving DecidableEq, Repr

/-- `bounded` = the subscription mailbox can be full (enables the `block` label — only while the
    mailbox is non-empty, since its capacity is at least 1).
    `renotify` = the repaired actor loop: after EVERY handled request, `notify_one` again while the
    backlog is non-empty (spurious wake-ups are harmless: the woken consumer pulls and parks again). -/
def step (bounded renotify : Bool) (s : State) : Label → Option State
  | .arrive => if s.deleted then none else some { s with q := s.q + 1 }
  | .post k =>
    if s.deleted then none
    else
      let s1 := notifyOne { s with backlog := s.backlog + k }
      some (if renotify && s1.backlog > 0 then notifyOne s1 else s1)
  | .requeue k =>
    if s.deleted ∨ k = 0 then none
    else
      let s1 := notifyOne { s with backlog := s.backlog + k }
      some (if renotify then notifyOne s1 else s1)
  | .pullTurn m =>
    if s.deleted ∨ s.q = 0 ∨ m = 0 then none
    else
      let n := min s.backlog m
      let s1 := { s with q := s.q - 1, backlog := s.backlog - n,
                         g0 := if n = 0 then s.g0 + 1 else s.g0, gp := if n = 0 then s.gp else s.gp + 1 }
      let s2 := if s1.backlog > 0 then notifyOne s1 else s1
      some (if renotify && s2.backlog > 0 then notifyOne s2 else s2)
  | .pullZombie m =>
    if s.deleted ∨ s.q = 0 ∨ m = 0 then none
    else
      let n := min s.backlog m
      let s1 := { s with q := s.q - 1, backlog := s.backlog - n }
      let s2 := if s1.backlog > 0 then notifyOne s1 else s1
      some (if renotify && s2.backlog > 0 then notifyOne s2 else s2)
  | .ret again =>
    if s.gp = 0 then none
    else if again then some { s with gp := s.gp - 1, q := s.q + 1 } else some { s with gp := s.gp - 1 }
  | .poll =>
    if s.g0 = 0 then none
    else if s.deleted then some { s with g0 := s.g0 - 1, ended := s.ended + 1 }      -- `deleted` branch ready
    else if s.permit then some { s with g0 := s.g0 - 1, permit := false, q := s.q + 1 }
    else some { s with g0 := s.g0 - 1, parked := s.parked + 1 }
  | .wake => if s.notif = 0 ∨ s.deleted then none else some { s with notif := s.notif - 1, q := s.q + 1 }
  | .cancelParked => if s.parked = 0 then none else some { s with parked := s.parked - 1 }
  | .cancelNotified => if s.notif = 0 then none else some (notifyOne { s with notif := s.notif - 1 })
  | .cancelQueued => if s.q = 0 then none else some s          -- the request stays queued
  | .cancelGot0 => if s.g0 = 0 then none else some { s with g0 := s.g0 - 1 }
  | .cancelGotP => if s.gp = 0 then none else some { s with gp := s.gp - 1 }
  | .block =>
    if !bounded ∨ s.notif = 0 ∨ s.deleted ∨ s.q + s.other = 0 then none
    else some { s with notif := s.notif - 1, blk := s.blk + 1 }
  | .otherArrive => if s.deleted then none else some { s with other := s.other + 1 }
  | .otherTurn =>
    if s.other = 0 then none
    else
      let s1 := { s with other := s.other - 1 }
      some (if renotify && !s.deleted && s1.backlog > 0 then notifyOne s1 else s1)
  | .unblock => if s.blk = 0 then none else some { s with blk := s.blk - 1, q := s.q + 1 }
  | .cancelBlocked => if s.blk = 0 then none else some { s with blk := s.blk - 1 }
  | .delete =>
    if s.deleted then none
    else some { s with deleted := true, backlog := 0, notif := s.notif + s.parked, parked := 0 }
  | .closed stream pinned =>
    if !s.deleted ∨ s.q = 0 then none
    else if stream && pinned then some { s with q := s.q - 1, silent := s.silent + 1 }
    else some { s with q := s.q - 1, ended := s.ended + 1 }
  | .wakeDeleted viaSignal =>
    if !s.deleted ∨ s.notif = 0 then none
    else if viaSignal then some { s with notif := s.notif - 1, q := s.q + 1 }
    else some { s with notif := s.notif - 1, ended := s.ended + 1 }

def run (bounded renotify : Bool) : State → List Label → Option State
  | s, [] => some s
  | s, l :: ls => match step bounded renotify s l with
    | some s' => run bounded renotify s' ls
    | none => none

/-- No consumer-side or actor-side internal step is pending: every consumer is parked or gone. -/
def Quiescent (s : State) : Prop := s.q = 0 ∧ s.g0 = 0 ∧ s.gp = 0 ∧ s.notif = 0 ∧ s.blk = 0 ∧ s.other = 0

end Deltio.P2
