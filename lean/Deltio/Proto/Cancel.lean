/-
  P4 — CreateSubscription with a cancel label at every await of the caller's future.
  Segments of `SubscriptionManager::create_subscription`: (1) insert into the manager map under the
  write lock — no await; (2) `topic.attach_subscription(..)`: send to the topic mailbox (may block
  while the mailbox is full), then await the reply.
  * `pinned`   — (2) runs inside the caller's future: dropping the caller drops it.
  * `repaired` — (2) runs in a spawned task the caller merely joins (fix commit 9b215df).
  Actor turns and spawned tasks are not cancellable; the environment may fill / drain the mailbox.
-/
namespace Deltio.P4

inductive Pc where
  | idle | needSend | awaitReply | done | cancelled
deriving DecidableEq, Repr

structure State where
  repaired : Bool
  inMgr : Bool            -- subscription registered in the manager map
  attached : Bool         -- subscription in the topic actor's map
  attachQueued : Bool     -- AttachSubscription message in the topic mailbox
  handler : Pc            -- the caller's future
  task : Pc               -- repaired: the spawned attach task
  full : Bool             -- topic mailbox currently full
deriving DecidableEq, Repr

def init (repaired : Bool) : State :=
  { repaired := repaired, inMgr := false, attached := false, attachQueued := false, handler := .idle, task := .idle, full := false }

inductive Label where
  | start | handlerSend | taskSend | topicTake | cancel | fill | drain
deriving DecidableEq, Repr

def step (s : State) : Label → Option State
  | .start =>
    if s.handler ≠ .idle then none
    else if s.repaired then some { s with inMgr := true, handler := .awaitReply, task := .needSend }
    else some { s with inMgr := true, handler := .needSend }
  | .handlerSend =>
    if s.handler = .needSend ∧ !s.full then some { s with attachQueued := true, handler := .awaitReply } else none
  | .taskSend =>
    if s.task = .needSend ∧ !s.full then some { s with attachQueued := true, task := .awaitReply } else none
  | .topicTake =>
    if s.attachQueued then
      some { s with attachQueued := false, attached := true,
                    task := if s.task = .awaitReply then .done else s.task,
                    handler := if s.handler = .awaitReply then .done else s.handler }
    else none
  | .cancel =>
    if s.handler = .needSend ∨ s.handler = .awaitReply then some { s with handler := .cancelled } else none
  | .fill => some { s with full := true }
  | .drain => some { s with full := false }

def run : State → List Label → Option State
  | s, [] => some s
  | s, l :: ls => match step s l with
    | some s' => run s' ls
    | none => none

inductive Reachable (s0 : State) : State → Prop
  | refl : Reachable s0 s0
  | step {s s' : State} {l : Label} : Reachable s0 s → step s l = some s' → Reachable s0 s'

/-- Nothing of the request is still in flight. -/
def Quiescent (s : State) : Prop :=
  s.attachQueued = false ∧ s.handler ≠ .needSend ∧ s.handler ≠ .awaitReply ∧ s.task ≠ .needSend ∧ s.task ≠ .awaitReply

end Deltio.P4
