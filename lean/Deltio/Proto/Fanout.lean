/-
  P6 — fan-out of Publish under ALL interleavings: one topic actor (bounded FIFO mailbox, its map of
  attached subscriptions, the message counter, the running publish turn with the set of post tasks
  that have not enqueued yet — `JoinSet` in `TopicActor::publish_messages`), any number of
  subscription actors (bounded FIFO mailboxes that also carry other requests, the sequence of posts
  each actor has handled, the closed flag), any number of clients (a `cli…` label is always offered
  while there is room in the mailbox), any capacity.

  The topic actor does not take the next request while a publish turn runs: the turn ends with
  `reply` once every post task has enqueued, or with `postFail` as soon as a post finds its
  subscription's mailbox closed (the `?` drops the `JoinSet`, aborting the other tasks).
-/
namespace Deltio.P6

/-- The messages of one publish turn: ids `lo+1 … lo+n` (upper half = the topic's internal id). -/
structure Batch where
  lo : Nat
  n : Nat
deriving DecidableEq, Repr

inductive TReq where
  | publish (r n : Nat)       -- request number, number of messages
  | attach (x : Nat)
  | remove (x : Nat)
deriving DecidableEq, Repr

inductive SMsg where
  | post (b : Batch)
  | other                     -- pull / ack / modify / stats …: only occupies a mailbox slot here
deriving DecidableEq, Repr

structure Cur where
  r : Nat
  b : Batch
  fan : List Nat              -- `self.subscriptions.values()` when the turn began
  pending : List Nat          -- post tasks that have not enqueued yet
deriving DecidableEq, Repr

structure Done where
  r : Nat
  b : Batch
  fan : List Nat
  ok : Bool                   -- the Publish was answered with the ids (`true`) or with an error
deriving DecidableEq, Repr

structure State where
  cap : Nat
  tmb : List TReq := []
  subs : List Nat := []
  ctr : Nat := 0
  cur : Option Cur := none
  done : List Done := []                      -- finished publish turns, in accept order (history)
  smb : Nat → List SMsg := fun _ => []
  taken : Nat → List Batch := fun _ => []     -- posts handled by subscription actor x, in order
  closed : Nat → Bool := fun _ => false

inductive Label where
  | cliPublish (r n : Nat) | cliAttach (x : Nat) | cliRemove (x : Nat) | cliOther (x : Nat)
  | topicTake
  | postDone (x : Nat)
  | postFail (x : Nat)
  | reply
  | subTake (x : Nat)
  | subClose (x : Nat)
deriving DecidableEq, Repr

def Label.internal : Label → Bool
  | .cliPublish .. | .cliAttach _ | .cliRemove _ | .cliOther _ | .subClose _ => false
  | _ => true

def upd {α} (f : Nat → α) (x : Nat) (v : α) : Nat → α := fun y => if y = x then v else f y

def init (cap : Nat) : State := { cap := cap }

def step (s : State) : Label → Option State
  | .cliPublish r n => if s.tmb.length < s.cap then some { s with tmb := s.tmb ++ [.publish r n] } else none
  | .cliAttach x => if s.tmb.length < s.cap then some { s with tmb := s.tmb ++ [.attach x] } else none
  | .cliRemove x => if s.tmb.length < s.cap then some { s with tmb := s.tmb ++ [.remove x] } else none
  | .cliOther x =>
    if s.closed x = false ∧ (s.smb x).length < s.cap then some { s with smb := upd s.smb x (s.smb x ++ [.other]) } else none
  | .topicTake =>
    match s.cur, s.tmb with
    | none, .publish r n :: rest =>
      some { s with tmb := rest, ctr := s.ctr + n,
                    cur := some { r := r, b := ⟨s.ctr, n⟩, fan := s.subs, pending := s.subs } }
    | none, .attach x :: rest =>
      some { s with tmb := rest, subs := if x ∈ s.subs then s.subs else s.subs ++ [x] }
    | none, .remove x :: rest => some { s with tmb := rest, subs := s.subs.filter (· ≠ x) }
    | _, _ => none
  | .postDone x =>
    match s.cur with
    | some c =>
      if x ∈ c.pending ∧ s.closed x = false ∧ (s.smb x).length < s.cap then
        some { s with smb := upd s.smb x (s.smb x ++ [.post c.b]),
                      cur := some { c with pending := c.pending.filter (· ≠ x) } }
      else none
    | none => none
  | .postFail x =>
    match s.cur with
    | some c =>
      if x ∈ c.pending ∧ s.closed x = true then
        some { s with cur := none, done := s.done ++ [{ r := c.r, b := c.b, fan := c.fan, ok := false }] }
      else none
    | none => none
  | .reply =>
    match s.cur with
    | some c =>
      if c.pending = [] then
        some { s with cur := none, done := s.done ++ [{ r := c.r, b := c.b, fan := c.fan, ok := true }] }
      else none
    | none => none
  | .subTake x =>
    if s.closed x = true then none else
    match s.smb x with
    | [] => none
    | .post b :: rest => some { s with smb := upd s.smb x rest, taken := upd s.taken x (s.taken x ++ [b]) }
    | .other :: rest => some { s with smb := upd s.smb x rest }
  | .subClose x =>
    if s.closed x = true then none else some { s with closed := upd s.closed x true, smb := upd s.smb x [] }

def run : State → List Label → Option State
  | s, [] => some s
  | s, l :: ls => match step s l with
    | some s' => run s' ls
    | none => none

inductive Reachable (s0 : State) : State → Prop
  | refl : Reachable s0 s0
  | step {s s' : State} {l : Label} : Reachable s0 s → step s l = some s' → Reachable s0 s'

def posts : List SMsg → List Batch
  | [] => []
  | .post b :: rest => b :: posts rest
  | .other :: rest => posts rest

/-- Everything subscription `x` has been handed by the topic and has not lost: handled posts, then
    the posts still in its mailbox, in mailbox order. This is the order in which its backlog is
    (going to be) extended. -/
def seq (s : State) (x : Nat) : List Batch := s.taken x ++ posts (s.smb x)

/-- The post of batch `b` has reached subscription `x` (its mailbox or its actor), or `x` is gone. -/
def Delivered (s : State) (x : Nat) (b : Batch) : Prop := b ∈ seq s x ∨ s.closed x = true

/-- All publish turns so far, in the order the topic actor accepted them. -/
def turnBatches (s : State) : List Batch :=
  s.done.map (·.b) ++ (match s.cur with | some c => [c.b] | none => [])

def Before (a b : Batch) : Prop := a.lo + a.n ≤ b.lo

end Deltio.P6
