import Deltio.Lemmas.SysFrame
/-
  Virtual time in the system model: only `advance` and a blocked Pull move the clock, and a blocked
  Pull never moves it beyond its wait limit.
-/
namespace Deltio

@[simp] theorem clock_setSubState (sys : Sys) (sid : Nat) (st : SubState) : (sys.setSubState sid st).clock = sys.clock := rfl

@[simp] theorem clock_subTurn (sys : Sys) (sid : Nat) (t : SubTurn) : (sys.subTurn sid t).1.clock = sys.clock := by
  unfold Sys.subTurn
  split <;> simp

@[simp] theorem clock_subExpire (sys : Sys) (sid : Nat) : (sys.subExpire sid).clock = sys.clock := by
  unfold Sys.subExpire
  split <;> simp

theorem clock_drainStream (k sid : Nat) : ∀ (fuel : Nat) (sys : Sys), (drainStream k sid fuel sys).clock = sys.clock := by
  intro fuel
  induction fuel with
  | zero => intro sys; rfl
  | succ n ih =>
    intro sys
    unfold drainStream
    split
    · rfl
    · split
      · rfl
      · split
        · rfl
        · split
          · rfl
          · rw [ih]; simp

@[simp] theorem clock_drainSub (sys : Sys) (sid : Nat) : (sys.drainSub sid).clock = sys.clock := by
  unfold Sys.drainSub
  generalize (sys.streams.filter (fun s => s.sid == sid && !s.ended)) = l
  induction l generalizing sys with
  | nil => rfl
  | cons s rest ih => simp only [List.foldl_cons]; rw [ih]; exact clock_drainStream _ _ _ _

@[simp] theorem clock_subReq (sys : Sys) (sid : Nat) (t : SubTurn) : (sys.subReq sid t).1.clock = sys.clock := by
  simp [Sys.subReq]

@[simp] theorem clock_touch (sys : Sys) (sid : Nat) : (sys.touch sid).clock = sys.clock := by
  simp [Sys.touch]

@[simp] theorem clock_touchAll : ∀ (l : List Nat) (sys : Sys), (sys.touchAll l).clock = sys.clock := by
  intro l
  induction l with
  | nil => intro sys; rfl
  | cons x rest ih => intro sys; simp only [Sys.touchAll]; rw [ih]; simp

@[simp] theorem clock_postAll (ms : List Msg) : ∀ (l : List (Name × Nat)) (sys : Sys), (sys.postAll ms l).clock = sys.clock := by
  intro l
  induction l with
  | nil => intro sys; rfl
  | cons x rest ih => intro sys; obtain ⟨n, sid⟩ := x; simp only [Sys.postAll]; rw [ih]; simp

/-- The timer loop never moves the clock beyond its target. -/
theorem advanceTo_clock_le (frac : Nat) : ∀ (fuel target : Nat) (sys : Sys),
    (Sys.advanceTo frac fuel target sys).clock ≤ max sys.clock target := by
  intro fuel
  induction fuel with
  | zero => intro target sys; simp [Sys.advanceTo]
  | succ n ih =>
    intro target sys
    unfold Sys.advanceTo
    split
    · rename_i t sid _
      split
      · rename_i hle
        refine Nat.le_trans (ih target _) ?_
        simp only [clock_drainSub, clock_subExpire]
        omega
      · simp
    · simp

end Deltio
