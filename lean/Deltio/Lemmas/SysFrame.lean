import Deltio.Model.System
/-
  Frame lemmas: the data-plane helpers of the system model change nothing but subscription actor
  states, stream outboxes and the clock.
-/
namespace Deltio

/-- Everything except subscription states / streams / clock / publish counter. -/
structure Skel where
  topics : List TopicEnt
  nextTopic : Nat
  subIds : List (Nat × Name × Nat × Nat × Option PushCfg)
  nextSub : Nat
  registry : List (Name × PushCfg)
deriving DecidableEq

def Sys.skel (sys : Sys) : Skel :=
  { topics := sys.topics, nextTopic := sys.nextTopic,
    subIds := sys.subs.map (fun e => (e.sid, e.name, e.topicId, e.ackSecs, e.push)),
    nextSub := sys.nextSub, registry := sys.registry }

@[simp] theorem skel_setSubState (sys : Sys) (sid : Nat) (st : SubState) : (sys.setSubState sid st).skel = sys.skel := by
  simp only [Sys.skel, Sys.setSubState, List.map_map]
  congr 1
  apply List.map_congr_left
  intro e _
  simp only [Function.comp]
  split <;> rfl

@[simp] theorem skel_subTurn (sys : Sys) (sid : Nat) (t : SubTurn) : (sys.subTurn sid t).1.skel = sys.skel := by
  unfold Sys.subTurn
  split <;> simp

@[simp] theorem skel_subExpire (sys : Sys) (sid : Nat) : (sys.subExpire sid).skel = sys.skel := by
  unfold Sys.subExpire
  split <;> simp

theorem skel_streams (sys : Sys) (f : List Stream) : ({ sys with streams := f } : Sys).skel = sys.skel := rfl
theorem skel_clock (sys : Sys) (c : Nat) : ({ sys with clock := c } : Sys).skel = sys.skel := rfl

theorem skel_drainStream (k sid : Nat) : ∀ (fuel : Nat) (sys : Sys), (drainStream k sid fuel sys).skel = sys.skel := by
  intro fuel
  induction fuel with
  | zero => intro sys; rfl
  | succ n ih =>
    intro sys
    unfold drainStream
    split
    · rfl
    · split
      · rfl
      · split
        · rfl
        · split
          · rfl
          · rw [ih, skel_streams, skel_subTurn]

@[simp] theorem skel_drainSub (sys : Sys) (sid : Nat) : (sys.drainSub sid).skel = sys.skel := by
  unfold Sys.drainSub
  generalize (sys.streams.filter (fun s => s.sid == sid && !s.ended)) = l
  induction l generalizing sys with
  | nil => rfl
  | cons s rest ih => simp only [List.foldl_cons]; rw [ih]; exact skel_drainStream _ _ _ _

@[simp] theorem skel_subReq (sys : Sys) (sid : Nat) (t : SubTurn) : (sys.subReq sid t).1.skel = sys.skel := by
  simp [Sys.subReq]

@[simp] theorem skel_touch (sys : Sys) (sid : Nat) : (sys.touch sid).skel = sys.skel := by
  simp [Sys.touch]

@[simp] theorem skel_touchAll : ∀ (l : List Nat) (sys : Sys), (sys.touchAll l).skel = sys.skel := by
  intro l
  induction l with
  | nil => intro sys; rfl
  | cons x rest ih => intro sys; simp only [Sys.touchAll]; rw [ih]; simp

@[simp] theorem skel_postAll (ms : List Msg) : ∀ (l : List (Name × Nat)) (sys : Sys), (sys.postAll ms l).skel = sys.skel := by
  intro l
  induction l with
  | nil => intro sys; rfl
  | cons x rest ih => intro sys; obtain ⟨n, sid⟩ := x; simp only [Sys.postAll]; rw [ih]; simp

@[simp] theorem skel_advanceTo (frac : Nat) : ∀ (fuel target : Nat) (sys : Sys), (Sys.advanceTo frac fuel target sys).skel = sys.skel := by
  intro fuel
  induction fuel with
  | zero => intro target sys; rfl
  | succ n ih =>
    intro target sys
    unfold Sys.advanceTo
    split
    · split
      · rw [ih, skel_drainSub, skel_subExpire, skel_clock]
      · rfl
    · rfl

theorem skel_registry {a b : Sys} (h : a.skel = b.skel) : a.registry = b.registry := by
  have := congrArg Skel.registry h; simpa [Sys.skel] using this

theorem skel_topics {a b : Sys} (h : a.skel = b.skel) : a.topics = b.topics := by
  have := congrArg Skel.topics h; simpa [Sys.skel] using this

end Deltio
