import Deltio.Lemmas.SubTurn
/-
  Facts about single deliveries across a turn: persistence of a lease, where deliveries come from.
-/
namespace Deltio

/-- The messages a turn delivers are taken from the front of the backlog (in order), with fresh
    consecutive ack ids and the rounded deadline. -/
theorem delivered_spec (s : SubState) (t : SubTurn) :
    (s.turn t).2.delivered = [] ∨
    (∃ max16 now, t = .pull max16 now ∧ s.deleted = false ∧
      (s.turn t).2.delivered = mkDelivs (roundDeadline (now + s.ackDl)) s.nextAck (s.backlog.take (pullN s max16))) := by
  cases t with
  | pull max16 now =>
    by_cases hd : s.deleted = true
    · left; simp [SubState.turn, hd]
    · have hd' : s.deleted = false := by simpa using hd
      right; exact ⟨max16, now, rfl, hd', (pull_turn s max16 now hd').2⟩
  | post ms => left; simp only [SubState.turn]; split <;> rfl
  | ack ids => left; simp only [SubState.turn]; split <;> rfl
  | modify mods => left; simp only [SubState.turn]; split <;> rfl
  | expire now =>
    left; simp only [SubState.turn]
    split
    · rfl
    · split <;> rfl
  | deleteBegin => left; rfl
  | deleteEnd => left; rfl
  | getStats => left; rfl
  | getInfo => left; rfl

theorem delivered_from_backlog (s : SubState) (t : SubTurn) :
    ∀ d ∈ (s.turn t).2.delivered, d.msg ∈ s.backlog ∧ s.nextAck ≤ d.ack ∧ d.ack < (s.turn t).1.nextAck := by
  intro d hd
  rcases delivered_spec s t with h | ⟨max16, now, rfl, hdel, h⟩
  · rw [h] at hd; simp at hd
  · rw [h] at hd
    have := mem_mkDelivs hd
    rw [(pull_turn s max16 now hdel).1]
    simp only
    refine ⟨List.mem_of_mem_take this.2.2.2, this.1, ?_⟩
    have hl : (s.backlog.take (pullN s max16)).length ≤ pullN s max16 := by simp [List.length_take]; omega
    omega

theorem nextAck_mono (s : SubState) (t : SubTurn) : s.nextAck ≤ (s.turn t).1.nextAck := by
  cases t with
  | pull max16 now =>
    by_cases hd : s.deleted = true
    · simp [SubState.turn, hd]
    · have hd' : s.deleted = false := by simpa using hd
      rw [(pull_turn s max16 now hd').1]; simp
  | post ms => simp only [SubState.turn]; split <;> simp
  | ack ids => simp only [SubState.turn]; split <;> simp
  | modify mods => simp only [SubState.turn]; split <;> simp
  | expire now =>
    simp only [SubState.turn]
    split
    · simp
    · split <;> simp
  | deleteBegin => simp [SubState.turn]
  | deleteEnd => simp [SubState.turn]
  | getStats => simp [SubState.turn]
  | getInfo => simp [SubState.turn]

/-- Does this turn end the lease of ack id `a` with deadline `dl`? -/
def endsLease (a dl : Nat) : SubTurn → Prop
  | .ack ids => a ∈ ids
  | .modify mods => a ∈ mods.map (·.1)
  | .expire now => dl ≤ now
  | .deleteEnd => True
  | _ => False

theorem modify_untouched : ∀ (mods : List (Nat × Option Nat)) (t : Tracker) (d : Deliv),
    d ∈ t.msgs → d.ack ∉ mods.map (·.1) → d ∈ (t.modify mods).1.msgs := by
  intro mods
  induction mods with
  | nil => intro t d h _; simpa [Tracker.modify] using h
  | cons m rest ih =>
    intro t d h hn
    obtain ⟨a, nd⟩ := m
    simp only [List.map_cons, List.mem_cons, not_or] at hn
    unfold Tracker.modify
    split
    · rename_i d1 hl
      cases nd with
      | some dl =>
        simp only
        apply ih _ d _ hn.2
        simp only [List.mem_map]
        refine ⟨d, h, ?_⟩
        have : (d.ack == a) = false := by simpa using hn.1
        simp [this]
      | none =>
        simp only
        apply ih _ d _ hn.2
        simp only [mem_eraseMsg]
        exact ⟨h, hn.1⟩
    · exact ih t d h hn.2

/-- A lease persists, unchanged, through every turn that does not end it. -/
theorem lease_persists {s : SubState} (h : SubInv s) (t : SubTurn) (d : Deliv) (hd : d ∈ s.out.msgs)
    (hne : ¬ endsLease d.ack d.deadline t) : d ∈ (s.turn t).1.out.msgs := by
  cases t with
  | post ms => simp only [SubState.turn]; split <;> exact hd
  | pull max16 now =>
    by_cases hdel : s.deleted = true
    · simp only [SubState.turn, hdel, ↓reduceIte]; exact hd
    · have hd' : s.deleted = false := by simpa using hdel
      rw [(pull_turn s max16 now hd').1]
      obtain ⟨_, h2⟩ := foldl_add (roundDeadline (now + s.ackDl)) (s.backlog.take (pullN s max16)) s.nextAck s.out h.out h.acks
      simp only
      rw [h2]
      exact List.mem_append_left _ hd
  | ack ids =>
    simp only [SubState.turn]
    split
    · exact hd
    · simp only
      exact (mem_remove_msgs ids s.out d).mpr ⟨hd, hne⟩
  | modify mods =>
    simp only [SubState.turn]
    split
    · exact hd
    · simp only
      exact modify_untouched mods s.out d hd hne
  | expire now =>
    simp only [SubState.turn]
    obtain ⟨t', ds, he, hi⟩ := Inv_takeExpired h.out now
    rw [he]
    simp only
    split
    · exact hd
    · obtain ⟨_, hp, h3, _⟩ := takeExpired_spec h.out now he
      simp only
      have := (hp.mem_iff (a := d)).mpr hd
      simp only [List.mem_append] at this
      rcases this with h1 | h1
      · exact h1
      · exact absurd (h3 d h1) (by simpa [endsLease] using hne)
  | deleteBegin => exact hd
  | deleteEnd => exact absurd trivial hne
  | getStats => exact hd
  | getInfo => exact hd

/-- Backlog only grows at the back or shrinks at the front; in particular every message that is
    in the backlog after a turn was held (queued or leased) before it, or was posted by it. -/
theorem backlog_from (s : SubState) (h : SubInv s) (t : SubTurn) :
    ∀ m ∈ (s.turn t).1.backlog, m ∈ s.backlog ∨ m ∈ s.out.msgs.map (·.msg) ∨ m ∈ postedBy t := by
  intro m hm
  cases t with
  | post ms =>
    simp only [SubState.turn] at hm
    split at hm
    · exact Or.inl hm
    · simp only [List.mem_append] at hm
      rcases hm with hm | hm
      · exact Or.inl hm
      · exact Or.inr (Or.inr hm)
  | pull max16 now =>
    by_cases hdel : s.deleted = true
    · simp only [SubState.turn, hdel, ↓reduceIte] at hm; exact Or.inl hm
    · have hd' : s.deleted = false := by simpa using hdel
      rw [(pull_turn s max16 now hd').1] at hm
      exact Or.inl (List.mem_of_mem_drop hm)
  | ack ids =>
    simp only [SubState.turn] at hm
    split at hm <;> exact Or.inl hm
  | modify mods =>
    simp only [SubState.turn] at hm
    split at hm
    · exact Or.inl hm
    · simp only [List.mem_append, List.mem_map] at hm
      rcases hm with hm | ⟨d, hd, rfl⟩
      · exact Or.inl hm
      · have hp := modify_perm mods h.out
        have : d.msg ∈ (s.out.modify mods).1.msgs.map (·.msg) ++ (s.out.modify mods).2.map (·.msg) :=
          List.mem_append_right _ (List.mem_map_of_mem hd)
        exact Or.inr (Or.inl ((hp.mem_iff).mp this))
  | expire now =>
    simp only [SubState.turn] at hm
    obtain ⟨t', ds, he, hi⟩ := Inv_takeExpired h.out now
    rw [he] at hm
    simp only at hm
    split at hm
    · exact Or.inl hm
    · obtain ⟨_, hp, _, _⟩ := takeExpired_spec h.out now he
      simp only [List.mem_append, List.mem_map] at hm
      rcases hm with hm | ⟨d, hd, rfl⟩
      · exact Or.inl hm
      · exact Or.inr (Or.inl (List.mem_map_of_mem ((hp.mem_iff).mp (List.mem_append_right _ hd))))
  | deleteBegin => exact Or.inl hm
  | deleteEnd => simp [SubState.turn] at hm
  | getStats => exact Or.inl hm
  | getInfo => exact Or.inl hm

end Deltio
