import Deltio.Lemmas.SysFrame
/-
  Global invariants of the system model over ALL request histories (namespaces, attachment lists,
  push registry). The invariant only mentions the "shape" of the state (ids, names, attachment
  lists, push configurations, counters, registry), which the data plane never changes.
-/
namespace Deltio

structure TSh where
  tid : Nat
  name : Name
  subs : List (Name × Nat)
deriving DecidableEq

structure SSh where
  sid : Nat
  name : Name
  topicId : Nat
  push : Option PushCfg
deriving DecidableEq

def Sys.tsh (sys : Sys) : List TSh := sys.topics.map (fun t => ⟨t.tid, t.name, t.subs⟩)
def Sys.ssh (sys : Sys) : List SSh := sys.subs.map (fun e => ⟨e.sid, e.name, e.topicId, e.push⟩)

/-- Subscriptions created on topic `k`, in creation order. -/
def attachedOf (ss : List SSh) (k : Nat) : List (Name × Nat) := (ss.filter (fun e => e.topicId == k)).map (fun e => (e.name, e.sid))

def registryOf (ss : List SSh) : List (Name × PushCfg) := ss.filterMap (fun e => e.push.map (fun c => (e.name, c)))

structure ShapeInv (ts : List TSh) (nT : Nat) (ss : List SSh) (nS : Nat) (reg : List (Name × PushCfg)) : Prop where
  tnames : (ts.map (·.name)).Nodup
  tids : (ts.map (·.tid)).Pairwise (· < ·)
  tbound : ∀ t ∈ ts, t.tid ≤ nT
  snames : (ss.map (·.name)).Nodup
  sids : (ss.map (·.sid)).Pairwise (· < ·)
  sbound : ∀ e ∈ ss, e.sid ≤ nS ∧ e.topicId ≤ nT
  attach : ∀ t ∈ ts, t.subs = attachedOf ss t.tid
  registry : reg = registryOf ss

def SysInv (sys : Sys) : Prop := ShapeInv sys.tsh sys.nextTopic sys.ssh sys.nextSub sys.registry

theorem SysInv_init : SysInv Sys.init := by
  constructor <;> simp [Sys.init, Sys.tsh, Sys.ssh, attachedOf, registryOf]

/-- Requests that leave the shape alone leave the invariant alone. -/
theorem SysInv_of_shape {a b : Sys} (h : SysInv a) (h1 : b.tsh = a.tsh) (h2 : b.nextTopic = a.nextTopic) (h3 : b.ssh = a.ssh)
    (h4 : b.nextSub = a.nextSub) (h5 : b.registry = a.registry) : SysInv b := by
  unfold SysInv at *
  rw [h1, h2, h3, h4, h5]; exact h

theorem shape_of_skel {a b : Sys} (h : b.skel = a.skel) :
    b.tsh = a.tsh ∧ b.nextTopic = a.nextTopic ∧ b.ssh = a.ssh ∧ b.nextSub = a.nextSub ∧ b.registry = a.registry := by
  have h1 := congrArg Skel.topics h
  have h2 := congrArg Skel.nextTopic h
  have h3 := congrArg Skel.subIds h
  have h4 := congrArg Skel.nextSub h
  have h5 := congrArg Skel.registry h
  simp only [Sys.skel] at h1 h2 h3 h4 h5
  refine ⟨by simp [Sys.tsh, h1], h2, ?_, h4, h5⟩
  have := congrArg (List.map (fun x : Nat × Name × Nat × Nat × Option PushCfg => (⟨x.1, x.2.1, x.2.2.1, x.2.2.2.2⟩ : SSh))) h3
  simp only [List.map_map] at this
  exact this

/-- CreateTopic with a fresh name. -/
theorem ShapeInv_createTopic {ts : List TSh} {nT : Nat} {ss : List SSh} {nS : Nat} {reg : List (Name × PushCfg)}
    (h : ShapeInv ts nT ss nS reg) (n : Name) (hfresh : ∀ t ∈ ts, t.name ≠ n) :
    ShapeInv (ts ++ [⟨nT + 1, n, []⟩]) (nT + 1) ss nS reg := by
  obtain ⟨h1, h2, h3, h4, h5, h6, h7, h8⟩ := h
  refine ⟨?_, ?_, ?_, h4, h5, ?_, ?_, h8⟩
  · simp only [List.map_append, List.map_cons, List.map_nil]
    rw [List.nodup_append]
    refine ⟨h1, by simp, ?_⟩
    intro a ha b hb
    simp at hb; subst hb
    obtain ⟨t, ht, rfl⟩ := List.mem_map.mp ha
    exact hfresh t ht
  · simp only [List.map_append, List.map_cons, List.map_nil]
    rw [List.pairwise_append]
    refine ⟨h2, by simp, ?_⟩
    intro a ha b hb
    simp at hb; subst hb
    obtain ⟨t, ht, rfl⟩ := List.mem_map.mp ha
    have := h3 t ht; omega
  · intro t ht
    simp only [List.mem_append, List.mem_singleton] at ht
    rcases ht with ht | rfl
    · have := h3 t ht; omega
    · simp
  · intro e he; have := h6 e he; exact ⟨this.1, by omega⟩
  · intro t ht
    simp only [List.mem_append, List.mem_singleton] at ht
    rcases ht with ht | rfl
    · exact h7 t ht
    · simp only [attachedOf]
      have : ss.filter (fun e => e.topicId == nT + 1) = [] := by
        apply List.filter_eq_nil_iff.mpr
        intro e he
        have := (h6 e he).2
        simp; omega
      simp [this]

/-- DeleteTopic. -/
theorem ShapeInv_deleteTopic {ts : List TSh} {nT : Nat} {ss : List SSh} {nS : Nat} {reg : List (Name × PushCfg)}
    (h : ShapeInv ts nT ss nS reg) (k : Nat) :
    ShapeInv (ts.filter (fun t => t.tid != k)) nT ss nS reg := by
  obtain ⟨h1, h2, h3, h4, h5, h6, h7, h8⟩ := h
  refine ⟨?_, ?_, ?_, h4, h5, h6, ?_, h8⟩
  · exact h1.sublist (List.filter_sublist.map _)
  · exact h2.sublist (List.filter_sublist.map _)
  · intro t ht; exact h3 t (List.mem_filter.mp ht).1
  · intro t ht; exact h7 t (List.mem_filter.mp ht).1

theorem alookup_none_of {α β} [BEq α] [LawfulBEq α] (k : α) (l : List (α × β)) (h : ∀ p ∈ l, p.1 ≠ k) : alookup k l = none := by
  induction l with
  | nil => rfl
  | cons x xs ih =>
    obtain ⟨k', v⟩ := x
    have hk : k' ≠ k := h (k', v) (by simp)
    have : (k' == k) = false := by simpa using hk
    simp only [alookup, this]
    exact ih (fun p hp => h p (by simp [hp]))

theorem attachedOf_append (ss : List SSh) (e : SSh) (k : Nat) :
    attachedOf (ss ++ [e]) k = attachedOf ss k ++ (if e.topicId == k then [(e.name, e.sid)] else []) := by
  simp only [attachedOf, List.filter_append, List.map_append]
  congr 1
  by_cases h : e.topicId == k <;> simp [h]

theorem registryOf_append (ss : List SSh) (e : SSh) :
    registryOf (ss ++ [e]) = registryOf ss ++ (match e.push with | some c => [(e.name, c)] | none => []) := by
  simp only [registryOf, List.filterMap_append]
  congr 1
  cases h : e.push <;> simp [h]

theorem mem_attachedOf {ss : List SSh} {k : Nat} {p : Name × Nat} (h : p ∈ attachedOf ss k) : ∃ e ∈ ss, e.name = p.1 ∧ e.sid = p.2 := by
  simp only [attachedOf, List.mem_map, List.mem_filter] at h
  obtain ⟨e, ⟨he, _⟩, rfl⟩ := h
  exact ⟨e, he, rfl, rfl⟩

theorem mem_registryOf {ss : List SSh} {p : Name × PushCfg} (h : p ∈ registryOf ss) : ∃ e ∈ ss, e.name = p.1 := by
  simp only [registryOf, List.mem_filterMap] at h
  obtain ⟨e, he, hp⟩ := h
  cases hpush : e.push with
  | none => simp [hpush] at hp
  | some c => simp [hpush] at hp; exact ⟨e, he, by rw [← hp]⟩

def regAfter (sn : Name) (reg : List (Name × PushCfg)) : Option PushCfg → List (Name × PushCfg)
  | some c => if (alookup sn reg).isSome then reg else reg ++ [(sn, c)]
  | none => reg

/-- CreateSubscription with a fresh name on the live topic with internal id `k`. -/
theorem ShapeInv_createSub {ts : List TSh} {nT : Nat} {ss : List SSh} {nS : Nat} {reg : List (Name × PushCfg)}
    (h : ShapeInv ts nT ss nS reg) (sn : Name) (k : Nat) (pc : Option PushCfg) (hfresh : ∀ e ∈ ss, e.name ≠ sn) (hk : k ≤ nT)
    (ts' : List TSh) (ss' : List SSh)
    (hts : ts' = ts.map (fun x => if x.tid == k then (if (alookup sn x.subs).isSome then x else { x with subs := x.subs ++ [(sn, nS + 1)] }) else x))
    (hss : ss' = ss ++ [⟨nS + 1, sn, k, pc⟩]) (reg' : List (Name × PushCfg)) (hreg : reg' = regAfter sn reg pc) :
    ShapeInv ts' nT ss' (nS + 1) reg' := by
  subst hts hss hreg
  obtain ⟨h1, h2, h3, h4, h5, h6, h7, h8⟩ := h
  have hmapname : (ts.map (fun x => if x.tid == k then (if (alookup sn x.subs).isSome then x else { x with subs := x.subs ++ [(sn, nS + 1)] }) else x)).map (·.name) = ts.map (·.name) := by
    rw [List.map_map]; apply List.map_congr_left; intro x _; simp only [Function.comp]; split <;> (try split) <;> rfl
  have hmaptid : (ts.map (fun x => if x.tid == k then (if (alookup sn x.subs).isSome then x else { x with subs := x.subs ++ [(sn, nS + 1)] }) else x)).map (·.tid) = ts.map (·.tid) := by
    rw [List.map_map]; apply List.map_congr_left; intro x _; simp only [Function.comp]; split <;> (try split) <;> rfl
  have hlook : ∀ x ∈ ts, alookup sn x.subs = none := by
    intro x hx
    apply alookup_none_of
    intro p hp
    rw [h7 x hx] at hp
    obtain ⟨e, he, hn, _⟩ := mem_attachedOf hp
    rw [← hn]; exact hfresh e he
  have hreglook : alookup sn reg = none := by
    apply alookup_none_of
    intro p hp
    rw [h8] at hp
    obtain ⟨e, he, hn⟩ := mem_registryOf hp
    rw [← hn]; exact hfresh e he
  refine ⟨by rw [hmapname]; exact h1, by rw [hmaptid]; exact h2, ?_, ?_, ?_, ?_, ?_, ?_⟩
  · intro t ht
    simp only [List.mem_map] at ht
    obtain ⟨x, hx, rfl⟩ := ht
    have := h3 x hx
    split <;> (try split) <;> simpa using this
  · simp only [List.map_append, List.map_cons, List.map_nil]
    rw [List.nodup_append]
    refine ⟨h4, by simp, ?_⟩
    intro a ha b hb
    simp at hb; subst hb
    obtain ⟨e, he, rfl⟩ := List.mem_map.mp ha
    exact hfresh e he
  · simp only [List.map_append, List.map_cons, List.map_nil]
    rw [List.pairwise_append]
    refine ⟨h5, by simp, ?_⟩
    intro a ha b hb
    simp at hb; subst hb
    obtain ⟨e, he, rfl⟩ := List.mem_map.mp ha
    have := (h6 e he).1; omega
  · intro e he
    simp only [List.mem_append, List.mem_singleton] at he
    rcases he with he | rfl
    · have := h6 e he; exact ⟨by omega, this.2⟩
    · exact ⟨Nat.le_refl _, hk⟩
  · intro t ht
    simp only [List.mem_map] at ht
    obtain ⟨x, hx, rfl⟩ := ht
    by_cases hxk : x.tid == k
    · simp only [hxk, ↓reduceIte, hlook x hx, Option.isSome_none, Bool.false_eq_true]
      rw [attachedOf_append, h7 x hx]
      have hk' : x.tid = k := by simpa using hxk
      simp [hk']
    · simp only [hxk, Bool.false_eq_true, ↓reduceIte]
      rw [attachedOf_append, h7 x hx]
      have : ((⟨nS + 1, sn, k, pc⟩ : SSh).topicId == x.tid) = false := by
        simp only [beq_eq_false_iff_ne, ne_eq]
        intro hc; apply hxk; simp [hc]
      simp [this]
  · rw [registryOf_append, ← h8]
    cases pc with
    | none => simp [regAfter]
    | some c => simp [regAfter, hreglook]

theorem aerase_filter_eq {α β} [BEq α] [LawfulBEq α] (k : α) (l : List (α × β)) : aerase k l = l.filter (fun p => p.1 != k) := by
  induction l with
  | nil => rfl
  | cons x xs ih =>
    obtain ⟨k', v⟩ := x
    simp only [aerase, List.filter_cons]
    by_cases h : k' == k
    · have : (k' != k) = false := by simp [bne, h]
      simp [h, this, ih]
    · have h' : (k' == k) = false := by simpa using h
      have : (k' != k) = true := by simp [bne, h']
      simp [h', this, ih]

theorem eq_of_name {l : List SSh} (hnd : (l.map (·.name)).Nodup) {a b : SSh} (ha : a ∈ l) (hb : b ∈ l) (hab : a.name = b.name) : a = b := by
  induction l with
  | nil => simp at ha
  | cons c cs ih =>
    simp only [List.map_cons, List.nodup_cons] at hnd
    simp only [List.mem_cons] at ha hb
    rcases ha with rfl | ha <;> rcases hb with rfl | hb
    · rfl
    · exact absurd (by rw [hab]; exact List.mem_map_of_mem hb) hnd.1
    · exact absurd (by rw [← hab]; exact List.mem_map_of_mem ha) hnd.1
    · exact ih hnd.2 ha hb

theorem eq_of_sid {l : List SSh} (hp : (l.map (·.sid)).Pairwise (· < ·)) {a b : SSh} (ha : a ∈ l) (hb : b ∈ l) (hab : a.sid = b.sid) : a = b := by
  induction l with
  | nil => simp at ha
  | cons c cs ih =>
    simp only [List.map_cons, List.pairwise_cons] at hp
    simp only [List.mem_cons] at ha hb
    rcases ha with rfl | ha <;> rcases hb with rfl | hb
    · rfl
    · have := hp.1 _ (List.mem_map_of_mem hb); omega
    · have := hp.1 _ (List.mem_map_of_mem ha); omega
    · exact ih hp.2 ha hb

theorem registryOf_filter (n : Name) (l : List SSh) :
    (registryOf l).filter (fun p => p.1 != n) = registryOf (l.filter (fun e => e.name != n)) := by
  induction l with
  | nil => rfl
  | cons c cs ih =>
    simp only [registryOf, List.filterMap_cons, List.filter_cons] at ih ⊢
    cases hp : c.push with
    | none =>
      by_cases hc : (c.name != n) = true
      · simp [hc, hp, ih]
      · simp [hc, hp, ih]
    | some v =>
      by_cases hc : (c.name != n) = true
      · simp [hc, hp, ih]
      · simp [hc, hp, ih]

/-- DeleteSubscription of the entry `e0`. -/
theorem ShapeInv_deleteSub {ts : List TSh} {nT : Nat} {ss : List SSh} {nS : Nat} {reg : List (Name × PushCfg)}
    (h : ShapeInv ts nT ss nS reg) (e0 : SSh) (he0 : e0 ∈ ss) (ts' : List TSh) (ss' : List SSh)
    (hts : ts' = ts.map (fun x => if x.tid == e0.topicId then { x with subs := aerase e0.name x.subs } else x))
    (hss : ss' = ss.filter (fun e => e.sid != e0.sid)) :
    ShapeInv ts' nT ss' nS (aerase e0.name reg) := by
  subst hts hss
  obtain ⟨h1, h2, h3, h4, h5, h6, h7, h8⟩ := h
  have hfilt : ss.filter (fun e => e.sid != e0.sid) = ss.filter (fun e => e.name != e0.name) := by
    apply List.filter_congr
    intro x hx
    by_cases hc : x.sid = e0.sid
    · have := eq_of_sid h5 hx he0 hc; subst this; simp
    · have hn : ¬ x.name = e0.name := fun hn => hc (by rw [eq_of_name h4 hx he0 hn])
      have e1 : (x.sid != e0.sid) = true := by simpa using hc
      have e2 : (x.name != e0.name) = true := by simpa using hn
      rw [e1, e2]
  have hmapname : (ts.map (fun x => if x.tid == e0.topicId then { x with subs := aerase e0.name x.subs } else x)).map (·.name) = ts.map (·.name) := by
    rw [List.map_map]; apply List.map_congr_left; intro x _; simp only [Function.comp]; split <;> rfl
  have hmaptid : (ts.map (fun x => if x.tid == e0.topicId then { x with subs := aerase e0.name x.subs } else x)).map (·.tid) = ts.map (·.tid) := by
    rw [List.map_map]; apply List.map_congr_left; intro x _; simp only [Function.comp]; split <;> rfl
  refine ⟨by rw [hmapname]; exact h1, by rw [hmaptid]; exact h2, ?_, ?_, ?_, ?_, ?_, ?_⟩
  · intro t ht
    simp only [List.mem_map] at ht
    obtain ⟨x, hx, rfl⟩ := ht
    have := h3 x hx
    split
    · exact this
    · exact this
  · exact h4.sublist (List.filter_sublist.map _)
  · exact h5.sublist (List.filter_sublist.map _)
  · intro e he; exact h6 e (List.mem_filter.mp he).1
  · intro t ht
    simp only [List.mem_map] at ht
    obtain ⟨x, hx, rfl⟩ := ht
    by_cases hxk : x.tid == e0.topicId
    · simp only [hxk, ↓reduceIte]
      rw [h7 x hx, aerase_filter_eq, hfilt]
      simp only [attachedOf, List.filter_map, List.filter_filter]
      congr 1
      apply List.filter_congr
      intro y _
      simp [Function.comp, Bool.and_comm]
    · simp only [hxk, Bool.false_eq_true, ↓reduceIte]
      rw [h7 x hx]
      simp only [attachedOf, List.filter_filter]
      congr 1
      apply List.filter_congr
      intro y hy
      by_cases hy1 : y.topicId == x.tid
      · have : y.sid ≠ e0.sid := by
          intro hc
          have hye := eq_of_sid h5 hy he0 hc
          subst hye
          have : y.topicId = x.tid := by simpa using hy1
          exact hxk (by simp [this])
        simp [hy1, this]
      · simp [hy1]
  · rw [h8, aerase_filter_eq, hfilt]
    exact registryOf_filter e0.name ss

theorem find_none_names {sys : Sys} {n : Name} (h : sys.findTopic n = none) : ∀ t ∈ sys.tsh, t.name ≠ n := by
  intro t ht
  simp only [Sys.tsh, List.mem_map] at ht
  obtain ⟨x, hx, rfl⟩ := ht
  have := List.find?_eq_none.mp h x hx
  simpa using this

theorem findSub_none_names {sys : Sys} {n : Name} (h : sys.findSub n = none) : ∀ e ∈ sys.ssh, e.name ≠ n := by
  intro e he
  simp only [Sys.ssh, List.mem_map] at he
  obtain ⟨x, hx, rfl⟩ := he
  have := List.find?_eq_none.mp h x hx
  simpa using this

theorem tsh_publish (sys : Sys) (k m : Nat) :
    ({ sys with topics := sys.topics.map (fun x => if x.tid == k then { x with nextMsg := x.nextMsg + m } else x) } : Sys).tsh = sys.tsh := by
  simp only [Sys.tsh, List.map_map]
  apply List.map_congr_left
  intro x _
  simp only [Function.comp]
  split <;> rfl

/-- The invariant holds after every request, whatever the request and its outcome. -/
theorem SysInv_rpc {sys : Sys} (h : SysInv sys) (r : Req) : SysInv (sys.rpc r).1 := by
  have keep : ∀ s' : Sys, s'.skel = sys.skel → SysInv s' := by
    intro s' hs
    obtain ⟨a, b, c, d, e⟩ := shape_of_skel hs
    exact SysInv_of_shape h a b c d e
  cases r with
  | createTopic raw =>
    cases hp : parseTopicName raw with
    | none => simp only [Sys.rpc, hp]; exact h
    | some n =>
      cases hf : sys.findTopic n with
      | some t => simp only [Sys.rpc, hp, hf]; exact h
      | none =>
        simp only [Sys.rpc, hp, hf]
        have := ShapeInv_createTopic h n (find_none_names hf)
        unfold SysInv
        simpa [Sys.tsh, Sys.ssh] using this
  | getTopic raw => simp only [Sys.rpc]; (repeat' split) <;> exact h
  | deleteTopic raw =>
    cases hp : parseTopicName raw with
    | none => simp only [Sys.rpc, hp]; exact h
    | some n =>
      cases hf : sys.findTopic n with
      | none => simp only [Sys.rpc, hp, hf]; exact h
      | some t =>
        simp only [Sys.rpc, hp, hf]
        have := ShapeInv_deleteTopic h t.tid
        unfold SysInv
        simp only [Sys.tsh, Sys.ssh, List.filter_map] at this ⊢
        exact this
  | listTopics p s t => simp only [Sys.rpc]; (repeat' split) <;> exact h
  | listTopicSubs p s t => simp only [Sys.rpc]; (repeat' split) <;> exact h
  | getSub raw => simp only [Sys.rpc]; (repeat' split) <;> first | exact h | (apply keep; simp)
  | listSubs p s t => simp only [Sys.rpc]; (repeat' split) <;> first | exact h | (apply keep; simp)
  | unimplemented => exact h
  | publish raw ms =>
    cases hp : parseTopicName raw with
    | none => simp only [Sys.rpc, hp]; exact h
    | some n =>
      cases hf : sys.findTopic n with
      | none => simp only [Sys.rpc, hp, hf]; exact h
      | some t =>
        simp only [Sys.rpc, hp, hf]
        obtain ⟨a, b, c, d, e⟩ := shape_of_skel (skel_postAll (mkMsgs t.tid t.nextMsg sys.pubSeq ms 0) t.subs
          ({ sys with topics := sys.topics.map (fun x => if x.tid == t.tid then { x with nextMsg := x.nextMsg + ms.length } else x), pubSeq := sys.pubSeq + 1 } : Sys))
        refine SysInv_of_shape h ?_ b c d e
        rw [a]
        exact tsh_publish sys t.tid ms.length
  | pull raw mx ri =>
    simp only [Sys.rpc]
    (repeat' split) <;> first | exact h | (apply keep; simp)
  | ack raw ids =>
    simp only [Sys.rpc]
    (repeat' split) <;> first | exact h | (apply keep; simp)
  | modAck raw secs ids =>
    simp only [Sys.rpc]
    (repeat' split) <;> first | exact h | (apply keep; simp)
  | createSub rawN rawT ack push =>
    cases hpt : parseTopicName rawT with
    | none => simp only [Sys.rpc, hpt]; exact h
    | some tn =>
      cases hpn : parseSubName rawN with
      | none => simp only [Sys.rpc, hpt, hpn]; exact h
      | some sn =>
        -- the parsed push configuration
        have main : ∀ (pc : Option PushCfg), SysInv (match sys.findTopic tn with
            | none => (sys, Resp.err Status.notFound)
            | some t =>
              if (t.name.1 != sn.1) = true then (sys, Resp.err Status.invalidArgument)
              else match sys.findSub sn with
                | some _ => (sys, Resp.err Status.alreadyExists)
                | none =>
                  let sid := sys.nextSub + 1
                  let e : SubEnt := { sid := sid, name := sn, topicId := t.tid, ackSecs := effAckDeadlineSecs ack, push := pc,
                                      st := SubState.init (effAckDeadlineSecs ack * 1000000) }
                  let reg := match pc with
                    | some c => if (alookup sn sys.registry).isSome then sys.registry else sys.registry ++ [(sn, c)]
                    | none => sys.registry
                  let topics := sys.topics.map (fun (x : TopicEnt) =>
                    if x.tid == t.tid then
                      (if (alookup sn x.subs).isSome then x else { x with subs := x.subs ++ [(sn, sid)] })
                    else x)
                  let sys' : Sys := { sys with nextSub := sid, subs := sys.subs ++ [e], registry := reg, topics := topics }
                  (sys', Resp.sub (sys'.subRes e))).1 := by
          intro pc
          cases hf : sys.findTopic tn with
          | none => exact h
          | some t =>
            simp only
            by_cases hproj : (t.name.1 != sn.1) = true
            · simp only [hproj, ↓reduceIte]; exact h
            · simp only [hproj, Bool.false_eq_true, ↓reduceIte]
              cases hfs : sys.findSub sn with
              | some e => exact h
              | none =>
                simp only
                have hk : t.tid ≤ sys.nextTopic := by
                  have := h.tbound ⟨t.tid, t.name, t.subs⟩ (by
                    simp only [Sys.tsh, List.mem_map]
                    exact ⟨t, List.mem_of_find?_eq_some hf, rfl⟩)
                  exact this
                unfold SysInv
                apply ShapeInv_createSub h sn t.tid pc (findSub_none_names hfs) hk
                · simp only [Sys.tsh, List.map_map]
                  apply List.map_congr_left
                  intro x _
                  simp only [Function.comp]
                  split <;> (try split) <;> rfl
                · simp [Sys.ssh]
                · cases pc <;> rfl
        cases push with
        | none =>
          simp only [Sys.rpc, hpt, hpn]
          exact main none
        | some p =>
          cases hpc : parsePushCfg p with
          | none => simp only [Sys.rpc, hpt, hpn, hpc, Option.map_none]; exact h
          | some c =>
            simp only [Sys.rpc, hpt, hpn, hpc, Option.map_some]
            exact main (some c)
  | deleteSub raw =>
    cases hp : parseSubName raw with
    | none => simp only [Sys.rpc, hp]; exact h
    | some n =>
      cases he : sys.findSub n with
      | none => simp only [Sys.rpc, hp, he]; exact h
      | some e =>
        simp only [Sys.rpc, hp, he]
        have hmem : (⟨e.sid, e.name, e.topicId, e.push⟩ : SSh) ∈ sys.ssh := by
          simp only [Sys.ssh, List.mem_map]
          exact ⟨e, List.mem_of_find?_eq_some he, rfl⟩
        have hname : e.name = n := by
          have := List.find?_some he
          simpa using this
        unfold SysInv
        rw [← hname]
        apply ShapeInv_deleteSub h ⟨e.sid, e.name, e.topicId, e.push⟩ hmem
        · simp only [Sys.tsh, List.map_map]
          apply List.map_congr_left
          intro x _
          simp only [Function.comp]
          split <;> rfl
        · simp only [Sys.ssh, List.filter_map]
          rfl

/-! ### every operation of the sequential model -/

inductive SysOp where
  | rpc (r : Req)
  | advance (d : Nat)
  | streamOpen (k : Nat) (rawSub : Bytes) (maxMsgs : Int)
  | streamSend (k : Nat) (c : StreamCtl)
  | streamRead (k : Nat)
  | streamCloseReq (k : Nat)
  | streamDrop (k : Nat)

def Sys.apply (sys : Sys) : SysOp → Sys
  | .rpc r => (sys.rpc r).1
  | .advance d => sys.advance d
  | .streamOpen k raw mm => (sys.streamOpen k raw mm).1
  | .streamSend k c => sys.streamSend k c
  | .streamRead k => (sys.streamRead k).1
  | .streamCloseReq k => sys.streamCloseReq k
  | .streamDrop k => sys.streamDrop k

def Sys.execOps (sys : Sys) (ops : List SysOp) : Sys := ops.foldl Sys.apply sys

theorem skel_apply_nonrpc (sys : Sys) (op : SysOp) (h : ∀ r, op ≠ .rpc r) : (sys.apply op).skel = sys.skel := by
  cases op with
  | rpc r => exact absurd rfl (h r)
  | advance d =>
    simp only [Sys.apply, Sys.advance]
    split
    · rfl
    · rw [skel_advanceTo]; rfl
  | streamOpen k raw mm =>
    simp only [Sys.apply, Sys.streamOpen]
    (repeat' split) <;> first | rfl | (rw [skel_drainSub, skel_subTurn]; rfl) | (rw [skel_drainSub, skel_streams, skel_subTurn]; rfl)
  | streamSend k c =>
    simp only [Sys.apply, Sys.streamSend]
    split
    · rfl
    · split
      · rfl
      · split
        · rfl
        · split <;> split <;> simp
  | streamRead k =>
    simp only [Sys.apply, Sys.streamRead]
    split <;> rfl
  | streamCloseReq k => rfl
  | streamDrop k => rfl

theorem SysInv_apply {sys : Sys} (h : SysInv sys) (op : SysOp) : SysInv (sys.apply op) := by
  cases op with
  | rpc r => exact SysInv_rpc h r
  | advance d =>
    obtain ⟨a, b, c, d', e⟩ := shape_of_skel (skel_apply_nonrpc sys (.advance d) (by simp))
    exact SysInv_of_shape h a b c d' e
  | streamOpen k raw mm =>
    obtain ⟨a, b, c, d', e⟩ := shape_of_skel (skel_apply_nonrpc sys (.streamOpen k raw mm) (by simp))
    exact SysInv_of_shape h a b c d' e
  | streamSend k c =>
    obtain ⟨a, b, c', d', e⟩ := shape_of_skel (skel_apply_nonrpc sys (.streamSend k c) (by simp))
    exact SysInv_of_shape h a b c' d' e
  | streamRead k =>
    obtain ⟨a, b, c, d', e⟩ := shape_of_skel (skel_apply_nonrpc sys (.streamRead k) (by simp))
    exact SysInv_of_shape h a b c d' e
  | streamCloseReq k =>
    obtain ⟨a, b, c, d', e⟩ := shape_of_skel (skel_apply_nonrpc sys (.streamCloseReq k) (by simp))
    exact SysInv_of_shape h a b c d' e
  | streamDrop k =>
    obtain ⟨a, b, c, d', e⟩ := shape_of_skel (skel_apply_nonrpc sys (.streamDrop k) (by simp))
    exact SysInv_of_shape h a b c d' e

/-- The invariant holds after every history of requests, stream operations and time advances. -/
theorem SysInv_all (ops : List SysOp) : SysInv (Sys.init.execOps ops) := by
  have : ∀ (ops : List SysOp) (sys : Sys), SysInv sys → SysInv (sys.execOps ops) := by
    intro ops
    induction ops with
    | nil => intro sys h; exact h
    | cons op rest ih => intro sys h; exact ih _ (SysInv_apply h op)
  exact this ops _ SysInv_init

end Deltio
