import Deltio.Model.Tracker
/-
  Helper lemmas for `OutstandingMessageTracker`: the consistency invariant between the hash map
  and the expiration set, and what each operation does to the set of outstanding deliveries.
-/
namespace Deltio

def KeySorted (l : List (Nat × Nat)) : Prop := l.Pairwise (fun a b => keyLt a b = true)

/-- The invariant behind the `unwrap_unchecked`s of `take_expired`. -/
structure Tracker.Inv (t : Tracker) : Prop where
  nodup : (t.msgs.map (·.ack)).Nodup
  sorted : KeySorted t.exps
  agree : ∀ k, k ∈ t.exps ↔ ∃ d ∈ t.msgs, d.key = k

theorem mem_insertKey (k k' : Nat × Nat) (l : List (Nat × Nat)) :
    k' ∈ insertKey k l ↔ k' = k ∨ k' ∈ l := by
  induction l with
  | nil => simp [insertKey]
  | cons x xs ih =>
    simp only [insertKey]
    split
    · simp
    · split
      · rename_i h; simp at h; subst h; simp
      · simp [ih]; grind

theorem keyLt_trans {a b c : Nat × Nat} (h1 : keyLt a b = true) (h2 : keyLt b c = true) : keyLt a c = true := by
  simp [keyLt] at *; omega

theorem keyLt_irrefl (a : Nat × Nat) : keyLt a a = false := by simp [keyLt]

theorem keyLt_total {a b : Nat × Nat} (h1 : keyLt a b = false) (h2 : a ≠ b) : keyLt b a = true := by
  have : a.1 ≠ b.1 ∨ a.2 ≠ b.2 := by
    by_cases h : a.1 = b.1
    · right; intro h'; exact h2 (Prod.ext h h')
    · left; exact h
  simp [keyLt] at *; omega

theorem sorted_insertKey (k : Nat × Nat) (l : List (Nat × Nat)) (h : KeySorted l) : KeySorted (insertKey k l) := by
  unfold KeySorted at *
  induction l with
  | nil => simp [insertKey]
  | cons x xs ih =>
    simp only [insertKey]
    rw [List.pairwise_cons] at h
    split
    · rename_i hlt
      rw [List.pairwise_cons]
      refine ⟨?_, List.pairwise_cons.mpr h⟩
      intro y hy
      simp at hy
      rcases hy with rfl | hy
      · exact hlt
      · exact keyLt_trans hlt (h.1 y hy)
    · split
      · exact List.pairwise_cons.mpr h
      · rename_i hnlt hne
        rw [List.pairwise_cons]
        refine ⟨?_, ih h.2⟩
        intro y hy
        rw [mem_insertKey] at hy
        rcases hy with rfl | hy
        · apply keyLt_total
          · simpa using hnlt
          · intro he; apply hne; simp [he]
        · exact h.1 y hy

theorem mem_eraseKey (k k' : Nat × Nat) (l : List (Nat × Nat)) : k' ∈ eraseKey k l ↔ k' ∈ l ∧ k' ≠ k := by
  simp [eraseKey]

theorem sorted_eraseKey (k : Nat × Nat) (l : List (Nat × Nat)) (h : KeySorted l) : KeySorted (eraseKey k l) := by
  unfold KeySorted eraseKey at *
  exact h.sublist List.filter_sublist

theorem eraseKey_head (k : Nat × Nat) (l : List (Nat × Nat)) (h : KeySorted (k :: l)) : eraseKey k (k :: l) = l := by
  unfold KeySorted at h
  rw [List.pairwise_cons] at h
  unfold eraseKey
  have : (k != k) = false := by simp
  simp only [List.filter_cons, this]
  simp only [Bool.false_eq_true, ↓reduceIte]
  apply List.filter_eq_self.mpr
  intro y hy
  have := h.1 y hy
  have hne : y ≠ k := by
    intro he; subst he; simp [keyLt_irrefl] at this
  simpa using hne

theorem mem_eraseMsg (msgs : List Deliv) (a : Nat) (d : Deliv) :
    d ∈ Tracker.eraseMsg msgs a ↔ d ∈ msgs ∧ d.ack ≠ a := by
  simp [Tracker.eraseMsg]

theorem nodup_eraseMsg (msgs : List Deliv) (a : Nat) (h : (msgs.map (·.ack)).Nodup) :
    ((Tracker.eraseMsg msgs a).map (·.ack)).Nodup := by
  unfold Tracker.eraseMsg
  exact h.sublist (List.filter_sublist.map _)

theorem ack_unique {msgs : List Deliv} (h : (msgs.map (·.ack)).Nodup) {d d' : Deliv}
    (hd : d ∈ msgs) (hd' : d' ∈ msgs) (he : d.ack = d'.ack) : d = d' := by
  induction msgs with
  | nil => simp at hd
  | cons x xs ih =>
    simp only [List.map_cons, List.nodup_cons] at h
    simp only [List.mem_cons] at hd hd'
    rcases hd with rfl | hd <;> rcases hd' with rfl | hd'
    · rfl
    · exfalso; apply h.1; rw [he]; exact List.mem_map_of_mem hd'
    · exfalso; apply h.1; rw [← he]; exact List.mem_map_of_mem hd
    · exact ih h.2 hd hd'

theorem lookup_some {t : Tracker} {a : Nat} {d : Deliv} (h : t.lookup a = some d) : d ∈ t.msgs ∧ d.ack = a := by
  unfold Tracker.lookup at h
  have h1 := List.mem_of_find?_eq_some h
  have h2 := List.find?_some h
  exact ⟨h1, by simpa using h2⟩

theorem lookup_of_mem {t : Tracker} (hn : (t.msgs.map (·.ack)).Nodup) {d : Deliv} (hd : d ∈ t.msgs) :
    t.lookup d.ack = some d := by
  unfold Tracker.lookup
  cases h : t.msgs.find? (·.ack == d.ack) with
  | none =>
    have := List.find?_eq_none.mp h d hd
    simp at this
  | some d' =>
    have h1 := List.mem_of_find?_eq_some h
    have h2 := List.find?_some h
    have : d' = d := ack_unique hn h1 hd (by simpa using h2)
    rw [this]

theorem lookup_none {t : Tracker} {a : Nat} (h : t.lookup a = none) : ∀ d ∈ t.msgs, d.ack ≠ a := by
  unfold Tracker.lookup at h
  intro d hd
  have := List.find?_eq_none.mp h d hd
  simpa using this

theorem Inv_empty : Tracker.empty.Inv := by
  constructor <;> simp [Tracker.empty, KeySorted]

/-- Removing one outstanding delivery from both structures. -/
theorem Inv_removeOne {t : Tracker} (h : t.Inv) {a : Nat} {d : Deliv} (hl : t.lookup a = some d) :
    ({ msgs := Tracker.eraseMsg t.msgs a, exps := eraseKey d.key t.exps } : Tracker).Inv := by
  obtain ⟨hd, ha⟩ := lookup_some hl
  constructor
  · exact nodup_eraseMsg _ _ h.nodup
  · exact sorted_eraseKey _ _ h.sorted
  · intro k
    simp only [mem_eraseKey, mem_eraseMsg]
    constructor
    · rintro ⟨hk, hne⟩
      obtain ⟨d', hd', hk'⟩ := (h.agree k).mp hk
      refine ⟨d', ⟨hd', ?_⟩, hk'⟩
      intro hc
      have : d' = d := ack_unique h.nodup hd' hd (by rw [hc, ha])
      subst this; exact hne hk'.symm
    · rintro ⟨d', ⟨hd', hne⟩, hk'⟩
      refine ⟨(h.agree k).mpr ⟨d', hd', hk'⟩, ?_⟩
      intro hc
      apply hne
      rw [← hk'] at hc
      have : d'.ack = d.ack := by
        have := congrArg Prod.snd hc
        simpa [Deliv.key] using this
      rw [this, ha]

theorem Inv_add {t : Tracker} (h : t.Inv) (d : Deliv) (hfresh : ∀ x ∈ t.msgs, x.ack ≠ d.ack) : (t.add d).Inv := by
  have he : Tracker.eraseMsg t.msgs d.ack = t.msgs := by
    unfold Tracker.eraseMsg
    apply List.filter_eq_self.mpr
    intro x hx
    simpa using hfresh x hx
  unfold Tracker.add
  rw [he]
  constructor
  · simp only [List.map_append, List.map_cons, List.map_nil]
    rw [List.nodup_append]
    refine ⟨h.nodup, by simp, ?_⟩
    intro a ha b hb
    simp at hb; subst hb
    obtain ⟨x, hx, hxa⟩ := List.mem_map.mp ha
    intro he'; exact hfresh x hx (by rw [hxa, he'])
  · exact sorted_insertKey _ _ h.sorted
  · intro k
    simp only [mem_insertKey, List.mem_append, List.mem_singleton]
    constructor
    · rintro (rfl | hk)
      · exact ⟨d, Or.inr rfl, rfl⟩
      · obtain ⟨x, hx, hk'⟩ := (h.agree k).mp hk
        exact ⟨x, Or.inl hx, hk'⟩
    · rintro ⟨x, (hx | rfl), hk'⟩
      · exact Or.inr ((h.agree k).mpr ⟨x, hx, hk'⟩)
      · exact Or.inl hk'.symm

theorem Inv_remove : ∀ (ids : List Nat) {t : Tracker}, t.Inv → (t.remove ids).1.Inv := by
  intro ids
  induction ids with
  | nil => intro t h; simpa [Tracker.remove] using h
  | cons a rest ih =>
    intro t h
    unfold Tracker.remove
    split
    · rename_i d hl
      simp only
      exact ih (Inv_removeOne h hl)
    · exact ih h

/-- Replacing the deadline of one outstanding delivery in both structures. -/
theorem Inv_modifyOne {t : Tracker} (h : t.Inv) {a dl : Nat} {d : Deliv} (hl : t.lookup a = some d) :
    ({ msgs := t.msgs.map (fun x => if x.ack == a then { d with deadline := dl } else x),
       exps := insertKey ({ d with deadline := dl } : Deliv).key (eraseKey d.key t.exps) } : Tracker).Inv := by
  obtain ⟨hd, ha⟩ := lookup_some hl
  have hacks : (t.msgs.map (fun x => if x.ack == a then { d with deadline := dl } else x)).map (·.ack) = t.msgs.map (·.ack) := by
    rw [List.map_map]
    apply List.map_congr_left
    intro x _
    simp only [Function.comp]
    split
    · rename_i hx; simp at hx; simp [ha, hx]
    · rfl
  constructor
  · rw [hacks]; exact h.nodup
  · exact sorted_insertKey _ _ (sorted_eraseKey _ _ h.sorted)
  · intro k
    simp only [mem_insertKey, mem_eraseKey, List.mem_map]
    constructor
    · rintro (rfl | ⟨hk, hne⟩)
      · exact ⟨_, ⟨d, hd, by simp [ha]⟩, rfl⟩
      · obtain ⟨x, hx, hk'⟩ := (h.agree k).mp hk
        refine ⟨x, ⟨x, hx, ?_⟩, hk'⟩
        split
        · rename_i hxa
          simp at hxa
          have : x = d := ack_unique h.nodup hx hd (by rw [hxa, ha])
          subst this; exact absurd hk'.symm hne
        · rfl
    · rintro ⟨y, ⟨x, hx, hy⟩, hk'⟩
      split at hy
      · left; rw [← hk', ← hy]
      · rename_i hxa
        subst hy
        right
        refine ⟨(h.agree k).mpr ⟨_, hx, hk'⟩, ?_⟩
        intro hc
        apply hxa
        rw [← hk'] at hc
        have : x.ack = d.ack := by
          have := congrArg Prod.snd hc
          simpa [Deliv.key] using this
        simp [this, ha]

theorem Inv_modify : ∀ (mods : List (Nat × Option Nat)) {t : Tracker}, t.Inv → (t.modify mods).1.Inv := by
  intro mods
  induction mods with
  | nil => intro t h; simpa [Tracker.modify] using h
  | cons m rest ih =>
    intro t h
    obtain ⟨a, nd⟩ := m
    unfold Tracker.modify
    split
    · rename_i d hl
      cases nd with
      | some dl => simp only; exact ih (Inv_modifyOne h hl)
      | none => simp only; exact ih (Inv_removeOne h hl)
    · exact ih h

/-- The loop of `take_expired` never meets an expiration key without a delivery, and keeps
    the invariant. -/
theorem takeExpiredGo_inv (now : Nat) :
    ∀ (es : List (Nat × Nat)) (ms acc : List Deliv), ({ msgs := ms, exps := es } : Tracker).Inv →
      ∃ es' ms' acc', takeExpiredGo now es ms acc = some (es', ms', acc') ∧
        ({ msgs := ms', exps := es' } : Tracker).Inv := by
  intro es
  induction es with
  | nil => intro ms acc h; exact ⟨[], ms, acc, by simp [takeExpiredGo], h⟩
  | cons k rest ih =>
    intro ms acc h
    obtain ⟨dl, a⟩ := k
    unfold takeExpiredGo
    split
    · exact ⟨_, _, _, rfl, h⟩
    · obtain ⟨d, hd, hk⟩ := (h.agree (dl, a)).mp (by simp)
      have hack : d.ack = a := by
        have := congrArg Prod.snd hk; simpa [Deliv.key] using this
      have hl : ({ msgs := ms, exps := (dl, a) :: rest } : Tracker).lookup a = some d := by
        rw [← hack]; exact lookup_of_mem h.nodup hd
      have hl' : ms.find? (·.ack == a) = some d := hl
      rw [hl']
      simp only
      have hinv := Inv_removeOne h hl
      simp only at hinv
      rw [hk, eraseKey_head _ _ h.sorted] at hinv
      exact ih _ _ hinv

theorem Inv_takeExpired {t : Tracker} (h : t.Inv) (now : Nat) :
    ∃ t' ds, t.takeExpired now = some (t', ds) ∧ t'.Inv := by
  obtain ⟨es', ms', acc', he, hi⟩ := takeExpiredGo_inv now t.exps t.msgs [] h
  exact ⟨{ msgs := ms', exps := es' }, acc', by simp [Tracker.takeExpired, he], hi⟩

end Deltio
