import Deltio.Lemmas.Tracker
import Deltio.Model.SubActor
/-
  Helper lemmas for the subscription actor: closed form of the pull loop, permutation
  (conservation) lemmas for every tracker operation, invariant preservation per turn.
-/
namespace Deltio

def dummyMsg : Msg := ⟨0, [], [], 0⟩

/-- The deliveries a pull hands out: the first `n` backlog messages with consecutive ack ids. -/
def mkDelivs (dl na : Nat) : List Msg → List Deliv
  | [] => []
  | m :: rest => { ack := na, msg := m, deadline := dl } :: mkDelivs dl (na + 1) rest

@[simp] theorem mkDelivs_length (dl na : Nat) (ms : List Msg) : (mkDelivs dl na ms).length = ms.length := by
  induction ms generalizing na with
  | nil => rfl
  | cons m rest ih => simp [mkDelivs, ih]

@[simp] theorem mkDelivs_msgs (dl na : Nat) (ms : List Msg) : (mkDelivs dl na ms).map (·.msg) = ms := by
  induction ms generalizing na with
  | nil => rfl
  | cons m rest ih => simp [mkDelivs, ih]

theorem mem_mkDelivs {dl na : Nat} {ms : List Msg} {d : Deliv} (h : d ∈ mkDelivs dl na ms) :
    na ≤ d.ack ∧ d.ack < na + ms.length ∧ d.deadline = dl ∧ d.msg ∈ ms := by
  induction ms generalizing na with
  | nil => simp [mkDelivs] at h
  | cons m rest ih =>
    simp only [mkDelivs, List.mem_cons] at h
    rcases h with rfl | h
    · simp
    · have := ih h
      simp only [List.length_cons, List.mem_cons]
      refine ⟨by omega, by omega, this.2.2.1, Or.inr this.2.2.2⟩

theorem mkDelivs_acks_nodup (dl na : Nat) (ms : List Msg) : ((mkDelivs dl na ms).map (·.ack)).Nodup := by
  induction ms generalizing na with
  | nil => simp [mkDelivs]
  | cons m rest ih =>
    simp only [mkDelivs, List.map_cons, List.nodup_cons]
    refine ⟨?_, ih (na + 1)⟩
    intro hmem
    obtain ⟨d, hd, hda⟩ := List.mem_map.mp hmem
    have := (mem_mkDelivs hd).1
    omega

/-- Number of messages a pull loop takes when `k` results are already collected. -/
def takeCount (cap k len : Nat) : Nat := min len (max (cap - k) 1)

/-- Closed form of the pull loop: backlog rest, next ack id, tracker, result. -/
theorem pullLoop_closed (cap dl : Nat) :
    ∀ (bl : List Msg) (na : Nat) (out : Tracker) (res : List Deliv),
      pullLoop cap dl bl na out res =
        (bl.drop (takeCount cap res.length bl.length), na + takeCount cap res.length bl.length,
         (mkDelivs dl na (bl.take (takeCount cap res.length bl.length))).foldl Tracker.add out,
         res ++ mkDelivs dl na (bl.take (takeCount cap res.length bl.length))) := by
  intro bl
  induction bl with
  | nil => intro na out res; simp [pullLoop, takeCount, mkDelivs]
  | cons m rest ih =>
    intro na out res
    simp only [pullLoop]
    split
    · rename_i hge
      simp only [List.length_append, List.length_cons, List.length_nil] at hge
      have hn : takeCount cap res.length (m :: rest).length = 1 := by
        simp only [takeCount, List.length_cons]; omega
      rw [hn]
      simp [mkDelivs]
    · rename_i hlt
      simp only [List.length_append, List.length_cons, List.length_nil, ge_iff_le, Nat.not_le] at hlt
      rw [ih]
      have hn : takeCount cap res.length (m :: rest).length
          = takeCount cap (res ++ [({ ack := na, msg := m, deadline := dl } : Deliv)]).length rest.length + 1 := by
        simp only [takeCount, List.length_cons, List.length_append, List.length_nil]; omega
      rw [hn]
      simp [mkDelivs, Nat.add_assoc, Nat.add_comm 1]

theorem add_msgs_fresh (t : Tracker) (d : Deliv) (hfresh : ∀ x ∈ t.msgs, x.ack ≠ d.ack) :
    (t.add d).msgs = t.msgs ++ [d] := by
  unfold Tracker.add Tracker.eraseMsg
  simp only
  congr 1
  apply List.filter_eq_self.mpr
  intro x hx
  simpa using hfresh x hx

/-- Adding deliveries with consecutive ack ids above everything outstanding. -/
theorem foldl_add (dl : Nat) : ∀ (ms : List Msg) (na : Nat) (t : Tracker), t.Inv → (∀ x ∈ t.msgs, x.ack < na) →
    ((mkDelivs dl na ms).foldl Tracker.add t).Inv ∧
    ((mkDelivs dl na ms).foldl Tracker.add t).msgs = t.msgs ++ mkDelivs dl na ms := by
  intro ms
  induction ms with
  | nil => intro na t h _; simp [mkDelivs, h]
  | cons m rest ih =>
    intro na t h hlt
    simp only [mkDelivs, List.foldl_cons]
    have hfresh : ∀ x ∈ t.msgs, x.ack ≠ ({ ack := na, msg := m, deadline := dl } : Deliv).ack := by
      intro x hx; have := hlt x hx; simp; omega
    have hinv := Inv_add h _ hfresh
    have hm := add_msgs_fresh t _ hfresh
    have hlt' : ∀ x ∈ (t.add { ack := na, msg := m, deadline := dl }).msgs, x.ack < na + 1 := by
      intro x hx
      rw [hm] at hx
      simp only [List.mem_append, List.mem_singleton] at hx
      rcases hx with hx | rfl
      · have := hlt x hx; omega
      · simp
    obtain ⟨h1, h2⟩ := ih (na + 1) _ hinv hlt'
    refine ⟨h1, ?_⟩
    rw [h2, hm]; simp

/-! ### what `remove`, `modify`, `takeExpired` do to the outstanding set -/

theorem eraseMsg_perm {msgs : List Deliv} (hn : (msgs.map (·.ack)).Nodup) {d : Deliv} (hd : d ∈ msgs) :
    (Tracker.eraseMsg msgs d.ack ++ [d]).Perm msgs := by
  induction msgs with
  | nil => simp at hd
  | cons x xs ih =>
    simp only [List.map_cons, List.nodup_cons] at hn
    simp only [Tracker.eraseMsg, List.filter_cons]
    by_cases hx : x.ack = d.ack
    · have hxd : x = d := ack_unique (by simpa using hn) (List.mem_cons_self) hd hx
      subst hxd
      simp only [bne_self_eq_false, Bool.false_eq_true, ↓reduceIte]
      have : xs.filter (fun y => y.ack != x.ack) = xs := by
        apply List.filter_eq_self.mpr
        intro y hy
        have : y.ack ≠ x.ack := by
          intro he; apply hn.1; rw [← he]; exact List.mem_map_of_mem hy
        simpa using this
      rw [this]
      exact List.perm_append_singleton x xs
    · have hd' : d ∈ xs := by
        simp only [List.mem_cons] at hd
        rcases hd with rfl | hd
        · exact absurd rfl hx
        · exact hd
      have hne : (x.ack != d.ack) = true := by simpa using hx
      simp only [hne, ↓reduceIte, List.cons_append]
      exact List.Perm.cons x (ih hn.2 hd')

theorem remove_perm : ∀ (ids : List Nat) {t : Tracker}, t.Inv →
    ((t.remove ids).1.msgs ++ (t.remove ids).2).Perm t.msgs := by
  intro ids
  induction ids with
  | nil => intro t _; simp [Tracker.remove]
  | cons a rest ih =>
    intro t h
    unfold Tracker.remove
    split
    · rename_i d hl
      simp only
      obtain ⟨hd, ha⟩ := lookup_some hl
      have hinv := Inv_removeOne h hl
      have ih' := ih hinv
      simp only at ih'
      have hp := eraseMsg_perm h.nodup hd
      rw [ha] at hp
      -- (rest.msgs ++ d :: ds) ~ rest.msgs ++ ds ++ [d] ~ eraseMsg ++ [d] ~ msgs
      refine List.Perm.trans ?_ hp
      refine List.Perm.trans ?_ (List.Perm.append_right [d] ih')
      simp only [List.append_assoc]
      exact List.Perm.append_left _ (List.perm_append_singleton d _).symm
    · exact ih h

theorem mem_remove_msgs : ∀ (ids : List Nat) (t : Tracker) (d : Deliv),
    d ∈ (t.remove ids).1.msgs ↔ d ∈ t.msgs ∧ d.ack ∉ ids := by
  intro ids
  induction ids with
  | nil => intro t d; simp [Tracker.remove]
  | cons a rest ih =>
    intro t d
    unfold Tracker.remove
    split
    · rename_i d0 hl
      simp only
      rw [ih]
      simp only [mem_eraseMsg, List.mem_cons, not_or]
      constructor
      · rintro ⟨⟨h1, h2⟩, h3⟩; exact ⟨h1, h2, h3⟩
      · rintro ⟨h1, h2, h3⟩; exact ⟨⟨h1, h2⟩, h3⟩
    · rename_i hl
      rw [ih]
      simp only [List.mem_cons, not_or]
      constructor
      · rintro ⟨h1, h3⟩; exact ⟨h1, lookup_none hl d h1, h3⟩
      · rintro ⟨h1, _, h3⟩; exact ⟨h1, h3⟩

theorem mem_remove_removed : ∀ (ids : List Nat) (t : Tracker) (d : Deliv),
    d ∈ (t.remove ids).2 → d ∈ t.msgs ∧ d.ack ∈ ids := by
  intro ids
  induction ids with
  | nil => intro t d h; simp [Tracker.remove] at h
  | cons a rest ih =>
    intro t d h
    unfold Tracker.remove at h
    split at h
    · rename_i d0 hl
      simp only [List.mem_cons] at h
      obtain ⟨hd0, ha0⟩ := lookup_some hl
      rcases h with rfl | h
      · exact ⟨hd0, by simp [ha0]⟩
      · have := ih _ d h
        simp only [mem_eraseMsg] at this
        exact ⟨this.1.1, by simp [this.2]⟩
    · have := ih t d h
      exact ⟨this.1, by simp [this.2]⟩

/-- `modify` permutes: what stays (deadlines possibly replaced) plus what is nacked carry exactly
    the messages that were outstanding. -/
theorem modify_perm : ∀ (mods : List (Nat × Option Nat)) {t : Tracker}, t.Inv →
    (((t.modify mods).1.msgs.map (·.msg)) ++ (t.modify mods).2.map (·.msg)).Perm (t.msgs.map (·.msg)) := by
  intro mods
  induction mods with
  | nil => intro t _; simp [Tracker.modify]
  | cons m rest ih =>
    intro t h
    obtain ⟨a, nd⟩ := m
    unfold Tracker.modify
    split
    · rename_i d hl
      obtain ⟨hd, ha⟩ := lookup_some hl
      cases nd with
      | some dl =>
        simp only
        have hinv := Inv_modifyOne (dl := dl) h hl
        refine List.Perm.trans (ih hinv) ?_
        simp only
        rw [List.map_map]
        apply List.Perm.of_eq
        apply List.map_congr_left
        intro x hx
        simp only [Function.comp]
        split
        · rename_i hxa
          simp at hxa
          have : x = d := ack_unique h.nodup hx hd (by rw [hxa, ha])
          rw [this]
        · rfl
      | none =>
        simp only
        have hinv := Inv_removeOne h hl
        have ih' := ih hinv
        simp only at ih'
        have hp := (eraseMsg_perm h.nodup hd).map (·.msg)
        rw [ha] at hp
        simp only [List.map_append, List.map_cons, List.map_nil] at hp
        refine List.Perm.trans ?_ hp
        refine List.Perm.trans ?_ (List.Perm.append_right [d.msg] ih')
        simp only [List.map_cons, List.append_assoc]
        exact List.Perm.append_left _ (List.perm_append_singleton d.msg _).symm
    · exact ih h

/-- Whatever is outstanding after `modify` was outstanding before, with the same ack id and
    message (only the deadline may differ). -/
theorem mem_modify_msgs : ∀ (mods : List (Nat × Option Nat)) (t : Tracker) (d : Deliv),
    d ∈ (t.modify mods).1.msgs → ∃ d0 ∈ t.msgs, d0.ack = d.ack ∧ d0.msg = d.msg := by
  intro mods
  induction mods with
  | nil => intro t d h; exact ⟨d, by simpa [Tracker.modify] using h, rfl, rfl⟩
  | cons m rest ih =>
    intro t d h
    obtain ⟨a, nd⟩ := m
    unfold Tracker.modify at h
    split at h
    · rename_i d1 hl
      obtain ⟨hd1, ha1⟩ := lookup_some hl
      cases nd with
      | some dl =>
        simp only at h
        obtain ⟨d0, hd0, e1, e2⟩ := ih _ d h
        simp only [List.mem_map] at hd0
        obtain ⟨x, hx, hx0⟩ := hd0
        split at hx0
        · rename_i hxa
          subst hx0
          exact ⟨d1, hd1, by simpa using e1, by simpa using e2⟩
        · subst hx0; exact ⟨x, hx, e1, e2⟩
      | none =>
        simp only at h
        obtain ⟨d0, hd0, e1, e2⟩ := ih _ d h
        simp only [mem_eraseMsg] at hd0
        exact ⟨d0, hd0.1, e1, e2⟩
    · exact ih t d h

theorem modify_acks_lt (mods : List (Nat × Option Nat)) {t : Tracker} (_h : t.Inv) {n : Nat}
    (hlt : ∀ d ∈ t.msgs, d.ack < n) : ∀ d ∈ (t.modify mods).1.msgs, d.ack < n := by
  intro d hd
  obtain ⟨d0, hd0, e1, _⟩ := mem_modify_msgs mods t d hd
  rw [← e1]; exact hlt d0 hd0

theorem takeExpiredGo_perm (now : Nat) :
    ∀ (es : List (Nat × Nat)) (ms acc : List Deliv), ({ msgs := ms, exps := es } : Tracker).Inv →
      ∀ es' ms' acc', takeExpiredGo now es ms acc = some (es', ms', acc') →
        ∃ taken, acc' = acc ++ taken ∧ (ms' ++ taken).Perm ms ∧ (∀ d ∈ taken, d.deadline ≤ now) ∧
          (∀ d ∈ ms', now < d.deadline) := by
  intro es
  induction es with
  | nil =>
    intro ms acc h es' ms' acc' he
    simp [takeExpiredGo] at he
    obtain ⟨_, rfl, rfl⟩ := he
    refine ⟨[], by simp, by simp, by simp, ?_⟩
    intro d hd
    have := (h.agree d.key).mpr ⟨d, hd, rfl⟩
    simp at this
  | cons k rest ih =>
    intro ms acc h es' ms' acc' he
    obtain ⟨dl, a⟩ := k
    unfold takeExpiredGo at he
    split at he
    · rename_i hlt
      simp at he
      obtain ⟨_, rfl, rfl⟩ := he
      refine ⟨[], by simp, by simp, by simp, ?_⟩
      intro d hd
      have hk := (h.agree d.key).mpr ⟨d, hd, rfl⟩
      simp only [List.mem_cons] at hk
      rcases hk with hk | hk
      · have : d.deadline = dl := by have := congrArg Prod.fst hk; simpa [Deliv.key] using this
        omega
      · have hs := h.sorted
        unfold KeySorted at hs
        rw [List.pairwise_cons] at hs
        have := hs.1 _ hk
        simp only [keyLt, Deliv.key, Bool.or_eq_true, Bool.and_eq_true, beq_iff_eq] at this
        rcases this with h1 | ⟨h1, _⟩
        · have := of_decide_eq_true h1; omega
        · omega
    · rename_i hge
      obtain ⟨d, hd, hk⟩ := (h.agree (dl, a)).mp (by simp)
      have hack : d.ack = a := by
        have := congrArg Prod.snd hk; simpa [Deliv.key] using this
      have hdl : d.deadline = dl := by
        have := congrArg Prod.fst hk; simpa [Deliv.key] using this
      have hl : ({ msgs := ms, exps := (dl, a) :: rest } : Tracker).lookup a = some d := by
        rw [← hack]; exact lookup_of_mem h.nodup hd
      have hl' : ms.find? (·.ack == a) = some d := hl
      rw [hl'] at he
      simp only at he
      have hinv := Inv_removeOne h hl
      simp only at hinv
      rw [hk, eraseKey_head _ _ h.sorted] at hinv
      obtain ⟨taken, h1, h2, h3, h4⟩ := ih _ _ hinv _ _ _ he
      refine ⟨d :: taken, by simp [h1], ?_, ?_, h4⟩
      · have hp := eraseMsg_perm h.nodup hd
        rw [hack] at hp
        refine List.Perm.trans ?_ hp
        refine List.Perm.trans ?_ (List.Perm.append_right [d] h2)
        simp only [List.append_assoc]
        exact List.Perm.append_left _ (List.perm_append_singleton d _).symm
      · intro x hx
        simp only [List.mem_cons] at hx
        rcases hx with rfl | hx
        · omega
        · exact h3 x hx

theorem takeExpired_spec {t : Tracker} (h : t.Inv) (now : Nat) {t' : Tracker} {ds : List Deliv}
    (he : t.takeExpired now = some (t', ds)) :
    t'.Inv ∧ (t'.msgs ++ ds).Perm t.msgs ∧ (∀ d ∈ ds, d.deadline ≤ now) ∧ (∀ d ∈ t'.msgs, now < d.deadline) := by
  unfold Tracker.takeExpired at he
  split at he
  · rename_i es ms acc hgo
    simp at he
    obtain ⟨rfl, rfl⟩ := he
    obtain ⟨es', ms', acc', he', hi⟩ := takeExpiredGo_inv now t.exps t.msgs [] h
    rw [hgo] at he'
    simp at he'
    obtain ⟨rfl, rfl, rfl⟩ := he'
    obtain ⟨taken, h1, h2, h3, h4⟩ := takeExpiredGo_perm now t.exps t.msgs [] h _ _ _ hgo
    simp at h1
    subst h1
    exact ⟨hi, h2, h3, h4⟩
  · simp at he

end Deltio
