import Deltio.Model.Paging
/-
  Helper lemmas: base64 round trip, page-token round trip.
-/
namespace Deltio

theorem b64Val_char : ∀ n, n < 64 → b64Val (b64Char n) = some n := by decide
theorem b64Char_ne_pad : ∀ n, n < 64 → b64Char n ≠ b64Pad := by decide

def AllBytes (l : List Nat) : Prop := ∀ b ∈ l, b < 256

theorem b64_roundtrip_one (a : Nat) (ha : a < 256) : b64Decode (b64Encode [a]) = some [a] := by
  unfold b64Encode b64Decode
  have h1 := b64Val_char (a / 4) (by omega)
  have h2 := b64Val_char ((a % 4) * 16) (by omega)
  simp [h1, h2]
  omega

theorem b64_roundtrip_two (a b : Nat) (ha : a < 256) (hb : b < 256) :
    b64Decode (b64Encode [a, b]) = some [a, b] := by
  unfold b64Encode b64Decode
  have h1 := b64Val_char (a / 4) (by omega)
  have h2 := b64Val_char ((a % 4) * 16 + b / 16) (by omega)
  have h3 := b64Val_char ((b % 16) * 4) (by omega)
  have n3 := b64Char_ne_pad ((b % 16) * 4) (by omega)
  simp [h1, h2, h3, n3]
  omega

theorem b64Encode_ne_nil (a : Nat) (l : List Nat) : b64Encode (a :: l) ≠ [] := by
  cases l with
  | nil => simp [b64Encode]
  | cons b l =>
    cases l with
    | nil => simp [b64Encode]
    | cons c l => simp [b64Encode]

theorem b64_roundtrip : ∀ (n : Nat) (bs : List Nat), bs.length ≤ n → AllBytes bs →
    b64Decode (b64Encode bs) = some bs := by
  intro n
  induction n with
  | zero =>
    intro bs hl _
    have : bs = [] := List.length_eq_zero_iff.mp (by omega)
    subst this; simp [b64Encode, b64Decode]
  | succ n ih =>
    intro bs hl hb
    match bs, hl, hb with
    | [], _, _ => simp [b64Encode, b64Decode]
    | [a], _, hb => exact b64_roundtrip_one a (hb a (by simp))
    | [a, b], _, hb => exact b64_roundtrip_two a b (hb a (by simp)) (hb b (by simp))
    | a :: b :: c :: rest, hl, hb =>
      have ha : a < 256 := hb a (by simp)
      have hb' : b < 256 := hb b (by simp)
      have hc : c < 256 := hb c (by simp)
      have hrest : AllBytes rest := fun x hx => hb x (by simp [hx])
      have ihr := ih rest (by simp at hl; omega) hrest
      have h1 := b64Val_char (a / 4) (by omega)
      have h2 := b64Val_char ((a % 4) * 16 + b / 16) (by omega)
      have h3 := b64Val_char ((b % 16) * 4 + c / 64) (by omega)
      have h4 := b64Val_char (c % 64) (by omega)
      have n3 := b64Char_ne_pad ((b % 16) * 4 + c / 64) (by omega)
      have n4 := b64Char_ne_pad (c % 64) (by omega)
      cases rest with
      | nil =>
        simp only [b64Encode]
        unfold b64Decode
        simp [h1, h2, h3, h4, n3, n4]
        omega
      | cons r rs =>
        have hne := b64Encode_ne_nil r rs
        simp only [b64Encode] at ihr ⊢
        generalize hE : b64Encode (r :: rs) = E at hne ihr
        cases E with
        | nil => exact absurd rfl hne
        | cons e es =>
          unfold b64Decode
          simp [h1, h2, h3, h4, ihr]
          omega

/-- The base64 encoding used for page tokens and push payloads is lossless. -/
theorem b64_decode_encode (bs : List Nat) (h : AllBytes bs) : b64Decode (b64Encode bs) = some bs :=
  b64_roundtrip bs.length bs (Nat.le_refl _) h

theorem leBytes8_bytes (n : Nat) : AllBytes (leBytes8 n) := by
  intro b hb
  simp [leBytes8] at hb
  omega

theorem ofLe_leBytes8 (n : Nat) (h : n < 18446744073709551616) : ofLeBytes8 (leBytes8 n) = some n := by
  simp [leBytes8, ofLeBytes8]
  omega

theorem decode_encode_token (n : Nat) (h : n < 18446744073709551616) :
    decodeToken (encodeToken n) = some n := by
  unfold decodeToken encodeToken
  rw [b64_decode_encode _ (leBytes8_bytes n)]
  exact ofLe_leBytes8 n h

end Deltio
