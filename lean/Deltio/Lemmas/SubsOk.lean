import Deltio.Lemmas.SysSub
import Deltio.Lemmas.SubTurn
import Deltio.Lemmas.SysInv
/-
  System level: in every state reached by requests, stream operations and time advances, every
  registered subscription's actor state satisfies `SubInv` (tracker consistent, ack ids below the
  counter) and is not marked deleted (a deleted subscription is removed from the manager).
-/
namespace Deltio

def SubsOk (sys : Sys) : Prop := ∀ e ∈ sys.subs, SubInv e.st ∧ e.st.deleted = false

theorem turn_ok {s : SubState} (h : SubInv s ∧ s.deleted = false) (t : SubTurn) (ht : t ≠ .deleteBegin) :
    SubInv (s.turn t).1 ∧ (s.turn t).1.deleted = false :=
  ⟨SubInv_turn h.1 t, by rw [turn_deleted t ht]; exact h.2⟩

theorem findSubById_mem {sys : Sys} {sid : Nat} {e : SubEnt} (h : sys.findSubById sid = some e) : e ∈ sys.subs :=
  List.mem_of_find?_eq_some h

theorem SubsOk_setSubState {sys : Sys} (h : SubsOk sys) (sid : Nat) (st : SubState) (hst : SubInv st ∧ st.deleted = false) :
    SubsOk (sys.setSubState sid st) := by
  intro e he
  unfold Sys.setSubState at he
  simp only [List.mem_map] at he
  obtain ⟨x, hx, rfl⟩ := he
  split
  · exact hst
  · exact h x hx

theorem SubsOk_streams {sys : Sys} (h : SubsOk sys) (f : List Stream) : SubsOk { sys with streams := f } := h
theorem SubsOk_clock {sys : Sys} (h : SubsOk sys) (c : Nat) : SubsOk { sys with clock := c } := h

theorem SubsOk_subTurn {sys : Sys} (h : SubsOk sys) (sid : Nat) (t : SubTurn) (ht : t ≠ .deleteBegin) :
    SubsOk (sys.subTurn sid t).1 := by
  unfold Sys.subTurn
  split
  · exact h
  · rename_i e he
    exact SubsOk_setSubState h sid _ (turn_ok (turn_ok (h e (findSubById_mem he)) t ht) _ (by simp))

theorem SubsOk_subExpire {sys : Sys} (h : SubsOk sys) (sid : Nat) : SubsOk (sys.subExpire sid) := by
  unfold Sys.subExpire
  split
  · exact h
  · rename_i e he
    exact SubsOk_setSubState h sid _ (turn_ok (h e (findSubById_mem he)) _ (by simp))

theorem SubsOk_drainStream (k sid : Nat) : ∀ (fuel : Nat) (sys : Sys), SubsOk sys → SubsOk (drainStream k sid fuel sys) := by
  intro fuel
  induction fuel with
  | zero => intro sys h; exact h
  | succ n ih =>
    intro sys h
    unfold drainStream
    split
    · exact h
    · split
      · exact h
      · split
        · exact h
        · split
          · exact h
          · rename_i s _ _ _ _ _ _
            apply ih
            have h1 : SubsOk (sys.subTurn sid (.pull s.max16 sys.clock)).1 := SubsOk_subTurn h sid _ (by simp)
            exact fun e he => h1 e he

theorem SubsOk_drainSub {sys : Sys} (h : SubsOk sys) (sid : Nat) : SubsOk (sys.drainSub sid) := by
  unfold Sys.drainSub
  generalize (sys.streams.filter (fun s => s.sid == sid && !s.ended)) = l
  induction l generalizing sys with
  | nil => exact h
  | cons s rest ih => simp only [List.foldl_cons]; exact ih (SubsOk_drainStream _ _ _ _ h)

theorem SubsOk_subReq {sys : Sys} (h : SubsOk sys) (sid : Nat) (t : SubTurn) (ht : t ≠ .deleteBegin) :
    SubsOk (sys.subReq sid t).1 := by
  simp only [Sys.subReq]; exact SubsOk_drainSub (SubsOk_subTurn h sid t ht) sid

theorem SubsOk_touch {sys : Sys} (h : SubsOk sys) (sid : Nat) : SubsOk (sys.touch sid) := by
  simp only [Sys.touch]; exact SubsOk_drainSub (SubsOk_subExpire h sid) sid

theorem SubsOk_touchAll : ∀ (l : List Nat) {sys : Sys}, SubsOk sys → SubsOk (sys.touchAll l) := by
  intro l
  induction l with
  | nil => intro sys h; exact h
  | cons x rest ih => intro sys h; simp only [Sys.touchAll]; exact ih (SubsOk_touch h x)

theorem SubsOk_postAll (ms : List Msg) : ∀ (l : List (Name × Nat)) {sys : Sys}, SubsOk sys → SubsOk (sys.postAll ms l) := by
  intro l
  induction l with
  | nil => intro sys h; exact h
  | cons x rest ih =>
    intro sys h; obtain ⟨n, sid⟩ := x
    simp only [Sys.postAll]
    exact ih (SubsOk_drainSub (SubsOk_subTurn h sid _ (by simp)) sid)

theorem SubsOk_advanceTo (frac : Nat) : ∀ (fuel target : Nat) {sys : Sys}, SubsOk sys → SubsOk (Sys.advanceTo frac fuel target sys) := by
  intro fuel
  induction fuel with
  | zero => intro target sys h; exact h
  | succ n ih =>
    intro target sys h
    unfold Sys.advanceTo
    split
    · split
      · exact ih _ (SubsOk_drainSub (SubsOk_subExpire (SubsOk_clock h _) _) _)
      · exact h
    · exact h

end Deltio

namespace Deltio

theorem SubsOk_init : SubsOk Sys.init := by intro e he; simp [Sys.init] at he

theorem SubsOk_fst {β : Type} {a : Sys} {r : β} (h : SubsOk a) : SubsOk (a, r).fst := h

theorem SubsOk_rpc {sys : Sys} (h : SubsOk sys) (r : Req) : SubsOk (sys.rpc r).1 := by
  cases r with
  | createTopic raw => simp only [Sys.rpc]; (repeat' split) <;> exact h
  | getTopic raw => simp only [Sys.rpc]; (repeat' split) <;> exact h
  | deleteTopic raw => simp only [Sys.rpc]; (repeat' split) <;> exact h
  | listTopics p s t => simp only [Sys.rpc]; (repeat' split) <;> exact h
  | listTopicSubs p s t => simp only [Sys.rpc]; (repeat' split) <;> exact h
  | unimplemented => exact h
  | getSub raw => simp only [Sys.rpc]; (repeat' split) <;> first | exact SubsOk_fst h | exact SubsOk_fst (SubsOk_touch h _)
  | listSubs p s t => simp only [Sys.rpc]; (repeat' split) <;> first | exact SubsOk_fst h | exact SubsOk_fst (SubsOk_touchAll _ h)
  | ack raw ids => simp only [Sys.rpc]; (repeat' split) <;> first | exact SubsOk_fst h | exact SubsOk_fst (SubsOk_subReq h _ _ (by simp))
  | modAck raw secs ids => simp only [Sys.rpc]; (repeat' split) <;> first | exact SubsOk_fst h | exact SubsOk_fst (SubsOk_drainSub (SubsOk_subTurn h _ _ (by simp)) _)
  | pull raw mx ri =>
    simp only [Sys.rpc]
    (repeat' split) <;> first
      | exact SubsOk_fst h
      | exact SubsOk_fst (SubsOk_drainSub (SubsOk_subTurn h _ _ (by simp)) _)
      | exact SubsOk_fst (SubsOk_subTurn (SubsOk_subTurn h _ _ (by simp)) _ _ (by simp))
      | exact SubsOk_fst (SubsOk_subTurn (SubsOk_advanceTo _ _ _ (SubsOk_subTurn h _ _ (by simp))) _ _ (by simp))
      | exact SubsOk_fst (SubsOk_advanceTo _ _ _ (SubsOk_subTurn h _ _ (by simp)))
  | publish raw ms =>
    simp only [Sys.rpc]; (repeat' split) <;> first | exact SubsOk_fst h | exact SubsOk_fst (SubsOk_postAll _ _ h)
  | deleteSub raw =>
    simp only [Sys.rpc]; (repeat' split) <;> first | exact SubsOk_fst h | skip
    intro e he
    simp only [List.mem_filter] at he
    exact h e he.1
  | createSub rawN rawT ack push =>
    simp only [Sys.rpc]; (repeat' split) <;> first | exact SubsOk_fst h | skip
    all_goals
      intro e he
      simp only [List.mem_append, List.mem_singleton] at he
      rcases he with he | rfl
      · exact h e he
      · exact ⟨SubInv_init _, rfl⟩

theorem SubsOk_apply {sys : Sys} (h : SubsOk sys) (op : SysOp) : SubsOk (sys.apply op) := by
  cases op with
  | rpc r => exact SubsOk_rpc h r
  | advance d =>
    simp only [Sys.apply, Sys.advance]
    split
    · exact h
    · exact SubsOk_advanceTo _ _ _ (SubsOk_clock h _)
  | streamOpen k raw mm =>
    simp only [Sys.apply, Sys.streamOpen]
    (repeat' split)
    all_goals first
      | exact SubsOk_fst h
      | (apply SubsOk_fst; apply SubsOk_drainSub
         first
           | exact SubsOk_subTurn (SubsOk_streams h _) _ _ (by simp)
           | (have h1 := SubsOk_subTurn (SubsOk_streams h (List.filter (fun x => x.k != k) sys.streams ++ [{ k := k, sid := _, max16 := _, outbox := [], ended := false }])) _ (SubTurn.pull _ sys.clock) (by simp)
              exact fun e he => h1 e he))
  | streamSend k c =>
    simp only [Sys.apply, Sys.streamSend]
    (repeat' split) <;> first
      | exact h
      | exact SubsOk_streams h _
      | exact SubsOk_subReq h _ _ (by simp)
      | exact SubsOk_subReq (SubsOk_subReq h _ _ (by simp)) _ _ (by simp)
  | streamRead k =>
    simp only [Sys.apply, Sys.streamRead]
    split
    · exact h
    · exact SubsOk_streams h _
  | streamCloseReq k => exact SubsOk_streams h _
  | streamDrop k => exact SubsOk_streams h _

/-- In every state reached from the empty system by any sequence of requests, stream operations
    and time advances, every registered subscription satisfies the actor invariant (its tracker's
    two structures agree, ack ids are below the counter) and is not marked deleted. -/
theorem SubsOk_all (ops : List SysOp) : SubsOk (Sys.init.execOps ops) := by
  have : ∀ (ops : List SysOp) (sys : Sys), SubsOk sys → SubsOk (sys.execOps ops) := by
    intro ops
    induction ops with
    | nil => intro sys h; exact h
    | cons o rest ih => intro sys h; exact ih _ (SubsOk_apply h o)
  exact this ops _ SubsOk_init

end Deltio
