import Deltio.Lemmas.SysSub
import Deltio.Lemmas.SubTurn
import Deltio.Lemmas.SysInv
/-
  System level: in every state reached by requests, stream operations and time advances, every
  registered subscription's actor state satisfies `SubInv` (tracker consistent, ack ids below the
  counter) and is not marked deleted (a deleted subscription is removed from the manager).
-/
namespace Deltio

/-- A predicate on actor states that holds initially and that every non-deleting turn preserves. -/
structure TurnStable (P : SubState → Prop) : Prop where
  init : ∀ dl, 0 < dl → P (SubState.init dl)
  step : ∀ s t, P s → t ≠ .deleteBegin → t ≠ .deleteEnd → P (s.turn t).1

def SubsAll (P : SubState → Prop) (sys : Sys) : Prop := ∀ e ∈ sys.subs, P e.st

theorem findSubById_mem {sys : Sys} {sid : Nat} {e : SubEnt} (h : sys.findSubById sid = some e) : e ∈ sys.subs :=
  List.mem_of_find?_eq_some h

section
variable {P : SubState → Prop} (hP : TurnStable P)
include hP

omit hP in
theorem SubsAll_setSubState {sys : Sys} (h : SubsAll P sys) (sid : Nat) (st : SubState) (hst : P st) :
    SubsAll P (sys.setSubState sid st) := by
  intro e he
  unfold Sys.setSubState at he
  simp only [List.mem_map] at he
  obtain ⟨x, hx, rfl⟩ := he
  split
  · exact hst
  · exact h x hx

omit hP in
theorem SubsAll_streams {sys : Sys} (h : SubsAll P sys) (f : List Stream) : SubsAll P { sys with streams := f } := h
omit hP in
theorem SubsAll_clock {sys : Sys} (h : SubsAll P sys) (c : Nat) : SubsAll P { sys with clock := c } := h

theorem SubsAll_subTurn {sys : Sys} (h : SubsAll P sys) (sid : Nat) (t : SubTurn) (ht : t ≠ .deleteBegin ∧ t ≠ .deleteEnd) :
    SubsAll P (sys.subTurn sid t).1 := by
  unfold Sys.subTurn
  split
  · exact h
  · rename_i e he
    exact SubsAll_setSubState h sid _ (hP.step _ _ (hP.step _ _ (h e (findSubById_mem he)) ht.1 ht.2) (by simp) (by simp))

theorem SubsAll_subExpire {sys : Sys} (h : SubsAll P sys) (sid : Nat) : SubsAll P (sys.subExpire sid) := by
  unfold Sys.subExpire
  split
  · exact h
  · rename_i e he
    exact SubsAll_setSubState h sid _ (hP.step _ _ (h e (findSubById_mem he)) (by simp) (by simp))

theorem SubsAll_drainStream (k sid : Nat) : ∀ (fuel : Nat) (sys : Sys), SubsAll P sys → SubsAll P (drainStream k sid fuel sys) := by
  intro fuel
  induction fuel with
  | zero => intro sys h; exact h
  | succ n ih =>
    intro sys h
    unfold drainStream
    split
    · exact h
    · split
      · exact h
      · split
        · exact h
        · split
          · exact h
          · rename_i s _ _ _ _ _ _
            apply ih
            have h1 : SubsAll P (sys.subTurn sid (.pull s.max16 sys.clock)).1 := SubsAll_subTurn hP h sid _ (by simp)
            exact fun e he => h1 e he

theorem SubsAll_drainSub {sys : Sys} (h : SubsAll P sys) (sid : Nat) : SubsAll P (sys.drainSub sid) := by
  unfold Sys.drainSub
  generalize (sys.streams.filter (fun s => s.sid == sid && !s.ended)) = l
  induction l generalizing sys with
  | nil => exact h
  | cons s rest ih => simp only [List.foldl_cons]; exact ih (SubsAll_drainStream hP _ _ _ _ h)

theorem SubsAll_subReq {sys : Sys} (h : SubsAll P sys) (sid : Nat) (t : SubTurn) (ht : t ≠ .deleteBegin ∧ t ≠ .deleteEnd) :
    SubsAll P (sys.subReq sid t).1 := by
  simp only [Sys.subReq]; exact SubsAll_drainSub hP (SubsAll_subTurn hP h sid t ht) sid

theorem SubsAll_touch {sys : Sys} (h : SubsAll P sys) (sid : Nat) : SubsAll P (sys.touch sid) := by
  simp only [Sys.touch]; exact SubsAll_drainSub hP (SubsAll_subExpire hP h sid) sid

theorem SubsAll_touchAll : ∀ (l : List Nat) {sys : Sys}, SubsAll P sys → SubsAll P (sys.touchAll l) := by
  intro l
  induction l with
  | nil => intro sys h; exact h
  | cons x rest ih => intro sys h; simp only [Sys.touchAll]; exact ih (SubsAll_touch hP h x)

theorem SubsAll_postAll (ms : List Msg) : ∀ (l : List (Name × Nat)) {sys : Sys}, SubsAll P sys → SubsAll P (sys.postAll ms l) := by
  intro l
  induction l with
  | nil => intro sys h; exact h
  | cons x rest ih =>
    intro sys h; obtain ⟨n, sid⟩ := x
    simp only [Sys.postAll]
    exact ih (SubsAll_drainSub hP (SubsAll_subTurn hP h sid _ (by simp)) sid)

theorem SubsAll_advanceTo (frac : Nat) : ∀ (fuel target : Nat) {sys : Sys}, SubsAll P sys → SubsAll P (Sys.advanceTo frac fuel target sys) := by
  intro fuel
  induction fuel with
  | zero => intro target sys h; exact h
  | succ n ih =>
    intro target sys h
    unfold Sys.advanceTo
    split
    · split
      · exact ih _ (SubsAll_drainSub hP (SubsAll_subExpire hP (SubsAll_clock h _) _) _)
      · exact h
    · exact h

end

end Deltio

namespace Deltio

section
variable {P : SubState → Prop} (hP : TurnStable P)
include hP

omit hP in
theorem SubsAll_init : SubsAll P Sys.init := by intro e he; simp [Sys.init] at he

omit hP in
theorem SubsAll_fst {β : Type} {a : Sys} {r : β} (h : SubsAll P a) : SubsAll P (a, r).fst := h

theorem SubsAll_rpc {sys : Sys} (h : SubsAll P sys) (r : Req) : SubsAll P (sys.rpc r).1 := by
  cases r with
  | createTopic raw => simp only [Sys.rpc]; (repeat' split) <;> exact h
  | getTopic raw => simp only [Sys.rpc]; (repeat' split) <;> exact h
  | deleteTopic raw => simp only [Sys.rpc]; (repeat' split) <;> exact h
  | listTopics p s t => simp only [Sys.rpc]; (repeat' split) <;> exact h
  | listTopicSubs p s t => simp only [Sys.rpc]; (repeat' split) <;> exact h
  | unimplemented => exact h
  | getSub raw => simp only [Sys.rpc]; (repeat' split) <;> first | exact SubsAll_fst h | exact SubsAll_fst (SubsAll_touch hP h _)
  | listSubs p s t => simp only [Sys.rpc]; (repeat' split) <;> first | exact SubsAll_fst h | exact SubsAll_fst (SubsAll_touchAll hP _ h)
  | ack raw ids => simp only [Sys.rpc]; (repeat' split) <;> first | exact SubsAll_fst h | exact SubsAll_fst (SubsAll_subReq hP h _ _ (by simp))
  | modAck raw secs ids => simp only [Sys.rpc]; (repeat' split) <;> first | exact SubsAll_fst h | exact SubsAll_fst (SubsAll_drainSub hP (SubsAll_subTurn hP h _ _ (by simp)) _)
  | pull raw mx ri =>
    simp only [Sys.rpc]
    (repeat' split) <;> first
      | exact SubsAll_fst h
      | exact SubsAll_fst (SubsAll_drainSub hP (SubsAll_subTurn hP h _ _ (by simp)) _)
      | exact SubsAll_fst (SubsAll_subTurn hP (SubsAll_subTurn hP h _ _ (by simp)) _ _ (by simp))
      | exact SubsAll_fst (SubsAll_subTurn hP (SubsAll_advanceTo hP _ _ _ (SubsAll_subTurn hP h _ _ (by simp))) _ _ (by simp))
      | exact SubsAll_fst (SubsAll_advanceTo hP _ _ _ (SubsAll_subTurn hP h _ _ (by simp)))
  | publish raw ms =>
    simp only [Sys.rpc]; (repeat' split) <;> first | exact SubsAll_fst h | exact SubsAll_fst (SubsAll_postAll hP _ _ h)
  | deleteSub raw =>
    simp only [Sys.rpc]; (repeat' split) <;> first | exact SubsAll_fst h | skip
    intro e he
    simp only [List.mem_filter] at he
    exact h e he.1
  | createSub rawN rawT ack push =>
    simp only [Sys.rpc]; (repeat' split) <;> first | exact SubsAll_fst h | skip
    all_goals
      intro e he
      simp only [List.mem_append, List.mem_singleton] at he
      rcases he with he | rfl
      · exact h e he
      · apply hP.init
        have : 10 ≤ effAckDeadlineSecs ack := by unfold effAckDeadlineSecs; split <;> omega
        omega

theorem SubsAll_apply {sys : Sys} (h : SubsAll P sys) (op : SysOp) : SubsAll P (sys.apply op) := by
  cases op with
  | rpc r => exact SubsAll_rpc hP h r
  | advance d =>
    simp only [Sys.apply, Sys.advance]
    split
    · exact h
    · exact SubsAll_advanceTo hP _ _ _ (SubsAll_clock h _)
  | streamOpen k raw mm =>
    simp only [Sys.apply, Sys.streamOpen]
    (repeat' split)
    all_goals first
      | exact SubsAll_fst h
      | (apply SubsAll_fst; apply SubsAll_drainSub hP
         first
           | exact SubsAll_subTurn hP (SubsAll_streams h _) _ _ (by simp)
           | (have h1 := SubsAll_subTurn hP (SubsAll_streams h (List.filter (fun x => x.k != k) sys.streams ++ [{ k := k, sid := _, max16 := _, outbox := [], ended := false }])) _ (SubTurn.pull _ sys.clock) (by simp)
              exact fun e he => h1 e he))
  | streamSend k c =>
    simp only [Sys.apply, Sys.streamSend]
    (repeat' split) <;> first
      | exact h
      | exact SubsAll_streams h _
      | exact SubsAll_subReq hP h _ _ (by simp)
      | exact SubsAll_subReq hP (SubsAll_subReq hP h _ _ (by simp)) _ _ (by simp)
  | streamRead k =>
    simp only [Sys.apply, Sys.streamRead]
    split
    · exact h
    · exact SubsAll_streams h _
  | streamCloseReq k => exact SubsAll_streams h _
  | streamDrop k => exact SubsAll_streams h _

/-- In every state reached from the empty system by any sequence of requests, stream operations
    and time advances, every registered subscription satisfies the actor invariant (its tracker's
    two structures agree, ack ids are below the counter) and is not marked deleted. -/
theorem SubsAll_all (ops : List SysOp) : SubsAll P (Sys.init.execOps ops) := by
  have : ∀ (ops : List SysOp) (sys : Sys), SubsAll P sys → SubsAll P (sys.execOps ops) := by
    intro ops
    induction ops with
    | nil => intro sys h; exact h
    | cons o rest ih => intro sys h; exact ih _ (SubsAll_apply hP h o)
  exact this ops _ SubsAll_init

end

end Deltio

namespace Deltio

/-! ### Instances -/

theorem okStable : TurnStable (fun st => SubInv st ∧ st.deleted = false) :=
  ⟨fun dl _ => ⟨SubInv_init dl, rfl⟩,
   fun _ t h ht _ => ⟨SubInv_turn h.1 t, by rw [turn_deleted t ht]; exact h.2⟩⟩

def SubsOk (sys : Sys) : Prop := SubsAll (fun st => SubInv st ∧ st.deleted = false) sys

theorem SubsOk_subTurn {sys : Sys} (h : SubsOk sys) (sid : Nat) (t : SubTurn) (ht : t ≠ .deleteBegin ∧ t ≠ .deleteEnd) :
    SubsOk (sys.subTurn sid t).1 := SubsAll_subTurn okStable h sid t ht
theorem SubsOk_subExpire {sys : Sys} (h : SubsOk sys) (sid : Nat) : SubsOk (sys.subExpire sid) := SubsAll_subExpire okStable h sid
theorem SubsOk_drainSub {sys : Sys} (h : SubsOk sys) (sid : Nat) : SubsOk (sys.drainSub sid) := SubsAll_drainSub okStable h sid
theorem SubsOk_clock {sys : Sys} (h : SubsOk sys) (c : Nat) : SubsOk { sys with clock := c } := h
theorem SubsOk_advanceTo (frac fuel target : Nat) {sys : Sys} (h : SubsOk sys) : SubsOk (Sys.advanceTo frac fuel target sys) :=
  SubsAll_advanceTo okStable frac fuel target h
theorem SubsOk_rpc {sys : Sys} (h : SubsOk sys) (r : Req) : SubsOk (sys.rpc r).1 := SubsAll_rpc okStable h r
theorem SubsOk_apply {sys : Sys} (h : SubsOk sys) (op : SysOp) : SubsOk (sys.apply op) := SubsAll_apply okStable h op

/-- In every state reached from the empty system by any sequence of requests, stream operations
    and time advances, every registered subscription satisfies the actor invariant (its tracker's
    two structures agree, ack ids are below the counter) and is not marked deleted. -/
theorem SubsOk_all (ops : List SysOp) : SubsOk (Sys.init.execOps ops) := SubsAll_all okStable ops

/-- The actor states that arise from a fresh subscription by some sequence of non-deleting turns. -/
def IsTurnRun (st : SubState) : Prop := ∃ dl ts, NoDelete ts ∧ st = (SubState.init dl).exec ts

theorem runStable : TurnStable IsTurnRun := by
  constructor
  · intro dl _; exact ⟨dl, [], (by intro t ht; cases ht), rfl⟩
  · intro s t ⟨dl, ts, hn, hs⟩ h1 h2
    refine ⟨dl, ts ++ [t], ?_, ?_⟩
    · intro x hx
      simp only [List.mem_append, List.mem_singleton] at hx
      rcases hx with hx | rfl
      · exact hn x hx
      · exact ⟨h1, h2⟩
    · rw [exec_append, ← hs]; rfl

/-- **Bridge from the system to the actor theorems.** After ANY history of requests, stream
    operations and time advances, the state of every registered subscription is the result of some
    sequence of non-deleting actor turns from a fresh subscription. Every L1 theorem — they
    quantify over all such turn sequences (C01 conservation, C02 finality, C03 leases, C04 deadlines,
    C05 modifications, C08 order) — therefore holds of every subscription in every reachable
    state of the system model, concurrent consumers or not. -/
theorem Sys_subs_are_turn_runs (ops : List SysOp) : ∀ e ∈ (Sys.init.execOps ops).subs, IsTurnRun e.st :=
  SubsAll_all runStable ops

end Deltio
