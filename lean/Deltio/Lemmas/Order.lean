import Deltio.Lemmas.SubRun
/-
  First-delivery order (C08): ghost-instrumented run of a subscription actor.
  `D` = ids delivered so far, `F` = the sequence of FIRST deliveries so far, `hi` = largest id posted.
-/
namespace Deltio

/-- Ids are increasing along the list. -/
def Incr (l : List Nat) : Prop := l.Pairwise (· < ·)

/-- The not-yet-delivered part of the backlog, in queue order. -/
def freshOf (D : List Nat) (bl : List Msg) : List Nat := (bl.map (·.id)).filter (fun i => !D.contains i)

structure OrderInv (s : SubState) (D F : List Nat) (hi : Nat) : Prop where
  outD : ∀ d ∈ s.out.msgs, d.msg.id ∈ D
  freshIncr : Incr (freshOf D s.backlog)
  freshAbove : ∀ i ∈ freshOf D s.backlog, ∀ d ∈ D, d < i
  bound : (∀ m ∈ s.backlog, m.id ≤ hi) ∧ (∀ d ∈ D, d ≤ hi)
  fIncr : Incr F
  fSub : ∀ i ∈ F, i ∈ D
  nodup : ((held s).map (·.id)).Nodup

theorem freshOf_append (D : List Nat) (a b : List Msg) : freshOf D (a ++ b) = freshOf D a ++ freshOf D b := by
  simp [freshOf]

theorem freshOf_of_delivered (D : List Nat) (ms : List Msg) (h : ∀ m ∈ ms, m.id ∈ D) : freshOf D ms = [] := by
  simp only [freshOf, List.filter_eq_nil_iff, List.mem_map]
  rintro i ⟨m, hm, rfl⟩
  simp [h m hm]

theorem incr_append {a b : List Nat} (ha : Incr a) (hb : Incr b) (hab : ∀ x ∈ a, ∀ y ∈ b, x < y) : Incr (a ++ b) := by
  unfold Incr at *
  exact List.pairwise_append.mpr ⟨ha, hb, hab⟩

/-- Re-queueing already delivered messages (nack, expiry) at the back changes nothing fresh. -/
theorem orderInv_requeue {s : SubState} {D F : List Nat} {hi : Nat} (h : OrderInv s D F hi) (s' : SubState)
    (re : List Msg) (hre : ∀ m ∈ re, m.id ∈ D) (hbl : s'.backlog = s.backlog ++ re)
    (hout : ∀ d ∈ s'.out.msgs, d.msg.id ∈ D) (hnd : ((held s').map (·.id)).Nodup) : OrderInv s' D F hi := by
  have hf : freshOf D s'.backlog = freshOf D s.backlog := by
    rw [hbl, freshOf_append, freshOf_of_delivered D re hre]; simp
  refine ⟨hout, by rw [hf]; exact h.freshIncr, by rw [hf]; exact h.freshAbove, ⟨?_, h.bound.2⟩, h.fIncr, h.fSub, hnd⟩
  intro m hm
  rw [hbl] at hm
  simp only [List.mem_append] at hm
  rcases hm with hm | hm
  · exact h.bound.1 m hm
  · exact h.bound.2 _ (hre m hm)

theorem mkDelivs_ids (dl na : Nat) (ms : List Msg) : (mkDelivs dl na ms).map (fun x => x.msg.id) = ms.map (fun x => x.id) := by
  induction ms generalizing na with
  | nil => rfl
  | cons m rest ih => simp [mkDelivs, ih]

theorem held_nodup_turn {s : SubState} (h : SubInv s) (hd : s.deleted = false) (t : SubTurn) (ht : t ≠ .deleteEnd)
    (hnd : ((held s ++ postedBy t).map (·.id)).Nodup) : ((held (s.turn t).1).map (·.id)).Nodup := by
  have hc := turn_conserve h hd t ht
  have := ((hc.map (·.id)).nodup_iff).mpr hnd
  rw [List.map_append] at this
  exact (List.nodup_append.mp this).1

/-- A pull turn: the first deliveries it makes are increasing and above every earlier delivery. -/
theorem orderInv_pull {s : SubState} {D F : List Nat} {hi : Nat} (h : OrderInv s D F hi) (hs : SubInv s) (hd : s.deleted = false)
    (max16 now : Nat) :
    let taken := ((s.turn (.pull max16 now)).2.delivered.map (·.msg.id))
    OrderInv (s.turn (.pull max16 now)).1 (D ++ taken) (F ++ taken.filter (fun i => !D.contains i)) hi := by
  intro taken
  have hp := pull_turn s max16 now hd
  obtain ⟨_, h2⟩ := foldl_add (roundDeadline (now + s.ackDl)) (s.backlog.take (pullN s max16)) s.nextAck s.out hs.out hs.acks
  have htaken : taken = (s.backlog.take (pullN s max16)).map (·.id) := by
    simp only [taken]
    rw [hp.2]
    exact mkDelivs_ids _ _ _
  have hsplit : s.backlog = s.backlog.take (pullN s max16) ++ s.backlog.drop (pullN s max16) := (List.take_append_drop _ _).symm
  have hfsplit : freshOf D s.backlog = freshOf D (s.backlog.take (pullN s max16)) ++ freshOf D (s.backlog.drop (pullN s max16)) := by
    conv => lhs; rw [hsplit]
    exact freshOf_append _ _ _
  have hftaken : taken.filter (fun i => !D.contains i) = freshOf D (s.backlog.take (pullN s max16)) := by
    rw [htaken]; rfl
  -- ids of the backlog are pairwise distinct
  have hblnd : (s.backlog.map (·.id)).Nodup := by
    have := h.nodup
    unfold held at this
    rw [List.map_append] at this
    exact (List.nodup_append.mp this).1
  have hdisj : ∀ i ∈ (s.backlog.drop (pullN s max16)).map (·.id), i ∉ taken := by
    intro i hi hit
    rw [htaken] at hit
    rw [hsplit, List.map_append, List.nodup_append] at hblnd
    exact hblnd.2.2 i hit i hi rfl
  have hfdrop : freshOf (D ++ taken) (s.backlog.drop (pullN s max16)) = freshOf D (s.backlog.drop (pullN s max16)) := by
    unfold freshOf
    apply List.filter_congr
    intro i hi
    have := hdisj i hi
    simp [this]
  have hinc := h.freshIncr
  rw [hfsplit] at hinc
  unfold Incr at hinc
  have hinc' := List.pairwise_append.mp hinc
  have hnd' : ((held (s.turn (.pull max16 now)).1).map (·.id)).Nodup :=
    held_nodup_turn hs hd _ (by simp) (by simpa [postedBy] using h.nodup)
  rw [hp.1] at hnd' ⊢
  refine ⟨?_, ?_, ?_, ⟨?_, ?_⟩, ?_, ?_, hnd'⟩
  · intro d hdm
    simp only at hdm
    rw [h2] at hdm
    simp only [List.mem_append] at hdm ⊢
    rcases hdm with hdm | hdm
    · exact Or.inl (h.outD d hdm)
    · right
      rw [htaken]
      exact List.mem_map_of_mem (mem_mkDelivs hdm).2.2.2
  · simp only
    rw [hfdrop]
    exact hinc'.2.1
  · simp only
    rw [hfdrop]
    intro i hi d hdm
    simp only [List.mem_append] at hdm
    rcases hdm with hdm | hdm
    · exact h.freshAbove i (by rw [hfsplit]; exact List.mem_append_right _ hi) d hdm
    · by_cases hdD : d ∈ D
      · exact h.freshAbove i (by rw [hfsplit]; exact List.mem_append_right _ hi) d hdD
      · have hdf : d ∈ freshOf D (s.backlog.take (pullN s max16)) := by
          rw [← hftaken]
          simp only [List.mem_filter]
          exact ⟨hdm, by simpa [List.contains_iff_mem] using hdD⟩
        exact hinc'.2.2 d hdf i hi
  · intro m hm
    exact h.bound.1 m (List.mem_of_mem_drop hm)
  · intro d hdm
    simp only [List.mem_append] at hdm
    rcases hdm with hdm | hdm
    · exact h.bound.2 d hdm
    · rw [htaken] at hdm
      obtain ⟨m, hm, rfl⟩ := List.mem_map.mp hdm
      exact h.bound.1 m (List.mem_of_mem_take hm)
  · rw [hftaken]
    apply incr_append h.fIncr hinc'.1
    intro x hx y hy
    exact h.freshAbove y (by rw [hfsplit]; exact List.mem_append_left _ hy) x (h.fSub x hx)
  · intro i hi
    simp only [List.mem_append, List.mem_filter] at hi ⊢
    rcases hi with hi | hi
    · exact Or.inl (h.fSub i hi)
    · exact Or.inr hi.1

theorem le_foldl_max (l : List Nat) (a : Nat) : a ≤ l.foldl max a ∧ ∀ x ∈ l, x ≤ l.foldl max a := by
  induction l generalizing a with
  | nil => simp
  | cons y ys ih =>
    simp only [List.foldl_cons, List.mem_cons]
    have := ih (max a y)
    refine ⟨by omega, ?_⟩
    rintro x (rfl | hx)
    · omega
    · exact this.2 x hx

/-- A post of fresh, increasing ids above everything posted before. -/
theorem orderInv_post {s : SubState} {D F : List Nat} {hi : Nat} (h : OrderInv s D F hi) (hs : SubInv s) (hd : s.deleted = false)
    (ms : List Msg) (hinc : Incr (ms.map (·.id))) (habove : ∀ m ∈ ms, hi < m.id) :
    OrderInv (s.turn (.post ms)).1 D F ((ms.map (·.id)).foldl max hi) := by
  have hfm : freshOf D ms = ms.map (·.id) := by
    unfold freshOf
    apply List.filter_eq_self.mpr
    intro i hi'
    obtain ⟨m, hm, rfl⟩ := List.mem_map.mp hi'
    have : m.id ∉ D := fun hc => by have := h.bound.2 _ hc; have := habove m hm; omega
    simpa using this
  have hheld : ∀ m ∈ held s, m.id ≤ hi := by
    intro m hm
    unfold held at hm
    simp only [List.mem_append, List.mem_map] at hm
    rcases hm with hm | ⟨d, hdm, rfl⟩
    · exact h.bound.1 m hm
    · exact h.bound.2 _ (h.outD d hdm)
  have hnd : ((held s ++ postedBy (.post ms)).map (·.id)).Nodup := by
    simp only [postedBy, List.map_append]
    rw [List.nodup_append]
    refine ⟨h.nodup, hinc.imp (fun hlt => Nat.ne_of_lt hlt), ?_⟩
    intro a ha b hb hab
    obtain ⟨m, hm, rfl⟩ := List.mem_map.mp ha
    obtain ⟨m', hm', rfl⟩ := List.mem_map.mp hb
    have := hheld m hm; have := habove m' hm'; omega
  have hnd' := held_nodup_turn hs hd (.post ms) (by simp) hnd
  have hmax := le_foldl_max (ms.map (·.id)) hi
  simp only [SubState.turn, hd, Bool.false_eq_true, ↓reduceIte] at hnd' ⊢
  refine ⟨h.outD, ?_, ?_, ⟨?_, ?_⟩, h.fIncr, h.fSub, hnd'⟩
  · simp only
    rw [freshOf_append, hfm]
    apply incr_append h.freshIncr hinc
    intro x hx y hy
    obtain ⟨m, hm, rfl⟩ := List.mem_map.mp hy
    have hxb : x ≤ hi := by
      simp only [freshOf, List.mem_filter, List.mem_map] at hx
      obtain ⟨⟨m0, hm0, rfl⟩, _⟩ := hx
      exact h.bound.1 m0 hm0
    have := habove m hm; omega
  · simp only
    rw [freshOf_append, hfm]
    intro i hi' d hdm
    simp only [List.mem_append] at hi'
    rcases hi' with hi' | hi'
    · exact h.freshAbove i hi' d hdm
    · obtain ⟨m, hm, rfl⟩ := List.mem_map.mp hi'
      have := h.bound.2 d hdm; have := habove m hm; omega
  · intro m hm
    simp only [List.mem_append] at hm
    rcases hm with hm | hm
    · have := h.bound.1 m hm; omega
    · exact hmax.2 _ (List.mem_map_of_mem hm)
  · intro d hdm; have := h.bound.2 d hdm; omega

/-- Ack, modify (extend or nack), expiry: nothing fresh is touched. -/
theorem orderInv_other {s : SubState} {D F : List Nat} {hi : Nat} (h : OrderInv s D F hi) (hs : SubInv s) (hd : s.deleted = false)
    (t : SubTurn) (ht : (∃ ids, t = .ack ids) ∨ (∃ mods, t = .modify mods) ∨ (∃ now, t = .expire now) ∨ t = .getStats ∨ t = .getInfo) :
    OrderInv (s.turn t).1 D F hi := by
  have hne : t ≠ .deleteEnd := by rcases ht with ⟨_, rfl⟩ | ⟨_, rfl⟩ | ⟨_, rfl⟩ | rfl | rfl <;> simp
  have hpost : postedBy t = [] := by rcases ht with ⟨_, rfl⟩ | ⟨_, rfl⟩ | ⟨_, rfl⟩ | rfl | rfl <;> rfl
  have hnd' := held_nodup_turn hs hd t hne (by rw [hpost]; simpa using h.nodup)
  rcases ht with ⟨ids, rfl⟩ | ⟨mods, rfl⟩ | ⟨now, rfl⟩ | rfl | rfl
  · apply orderInv_requeue h _ [] (by simp) _ _ hnd'
    · simp [SubState.turn, hd]
    · intro d hdm
      simp only [SubState.turn, hd, Bool.false_eq_true, ↓reduceIte] at hdm
      exact h.outD d ((mem_remove_msgs ids s.out d).mp hdm).1
  · have hp := modify_perm mods hs.out
    apply orderInv_requeue h _ ((s.out.modify mods).2.map (·.msg)) _ _ _ hnd'
    · intro m hm
      have : m ∈ s.out.msgs.map (·.msg) := (hp.mem_iff).mp (List.mem_append_right _ hm)
      obtain ⟨d, hdm, rfl⟩ := List.mem_map.mp this
      exact h.outD d hdm
    · simp [SubState.turn, hd]
    · intro d hdm
      simp only [SubState.turn, hd, Bool.false_eq_true, ↓reduceIte] at hdm
      have : d.msg ∈ s.out.msgs.map (·.msg) := (hp.mem_iff).mp (List.mem_append_left _ (List.mem_map_of_mem hdm))
      obtain ⟨d0, hd0, he⟩ := List.mem_map.mp this
      rw [← he]; exact h.outD d0 hd0
  · obtain ⟨t', ds, he, hi'⟩ := Inv_takeExpired hs.out now
    obtain ⟨_, hp, _, _⟩ := takeExpired_spec hs.out now he
    by_cases hds : ds.isEmpty = true
    · have : (s.turn (.expire now)).1 = s := by simp [SubState.turn, he, hds]
      rw [this]; exact h
    · have hds' : ds.isEmpty = false := by simpa using hds
      apply orderInv_requeue h _ (ds.map (·.msg)) _ _ _ hnd'
      · intro m hm
        obtain ⟨d, hdm, rfl⟩ := List.mem_map.mp hm
        exact h.outD d ((hp.mem_iff).mp (List.mem_append_right _ hdm))
      · simp [SubState.turn, he, hds']
      · intro d hdm
        simp only [SubState.turn, he, hds', Bool.false_eq_true, ↓reduceIte] at hdm
        exact h.outD d ((hp.mem_iff).mp (List.mem_append_left _ hdm))
  · exact h
  · exact h

end Deltio
