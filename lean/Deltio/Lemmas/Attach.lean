import Deltio.Proto.Attach
/-
  Inductive invariant of slice P1 (repaired protocol).
-/
namespace Deltio.P1

/-- What the topic mailbox must hold for the current generation. -/
def expectedMb (g : Nat) (x : Gen) : List TMsg :=
  (if x.att = .sent then [.attach g] else []) ++ (if x.helper = .sent then [.remove g] else [])

def expectedTopic (g : Nat) (x : Gen) : Option Nat :=
  if (x.att = .replied ∨ x.att = .finished) ∧ (x.helper = .none ∨ x.helper = .toSend ∨ x.helper = .sent) then some g else none

structure AttachInv (s : State) : Prop where
  rep : s.repaired = true
  fresh : ∀ g, s.next ≤ g → s.gen g = {}
  old : ∀ g, g < s.next → s.mgr ≠ some g → (s.gen g).att = .finished ∧ (s.gen g).helper = .done ∧ (s.gen g).deleted = true
  empty : s.mgr = none → (s.tdead = false → s.topic = none) ∧ s.mbT = []
  cur : ∀ g, s.mgr = some g →
    g < s.next ∧ s.mbT = expectedMb g (s.gen g) ∧ (s.tdead = false → s.topic = expectedTopic g (s.gen g)) ∧
    (s.gen g).att ≠ .none ∧ (s.gen g).helper ≠ .done ∧
    ((s.gen g).helper ≠ .none → (s.gen g).att = .finished) ∧
    ((s.gen g).deleted = true ↔ (s.gen g).helper ≠ .none)
  dl : ∀ d ∈ s.dels, d < s.next

theorem inv_init : AttachInv (init true) := by
  constructor <;> simp [init]

theorem upd_same (f : Nat → Gen) (g : Nat) (v : Gen) : upd f g v g = v := by simp [upd]
theorem upd_other (f : Nat → Gen) (g g' : Nat) (v : Gen) (h : g' ≠ g) : upd f g v g' = f g' := by simp [upd, h]

/-- A generation with work left is the registered one. -/
theorem active_is_cur {s : State} (h : AttachInv s) (g : Nat)
    (ha : ((s.gen g).att ≠ .none ∧ (s.gen g).att ≠ .finished) ∨ ((s.gen g).helper ≠ .none ∧ (s.gen g).helper ≠ .done) ∨
          ((s.gen g).att = .finished ∧ (s.gen g).deleted = false)) :
    s.mgr = some g := by
  by_cases hc : s.mgr = some g
  · exact hc
  · by_cases hl : g < s.next
    · obtain ⟨a, b, c⟩ := h.old g hl hc
      rcases ha with ha | ha | ha
      · exact absurd a ha.2
      · exact absurd b ha.2
      · rw [c] at ha; cases ha.2
    · have := h.fresh g (by omega)
      rw [this] at ha
      simp at ha

end Deltio.P1

namespace Deltio.P1

/-- Updating only the registered generation (and mailbox / topic entry / pending deletes) keeps the
    invariant if the new values satisfy the `cur` clause. -/
theorem inv_update_cur {s : State} (h : AttachInv s) (g : Nat) (hm : s.mgr = some g) (v : Gen) (mb : List TMsg)
    (t : Option Nat) (d : List Nat) (hd : ∀ x ∈ d, x < s.next)
    (hv : mb = expectedMb g v ∧ (s.tdead = false → t = expectedTopic g v) ∧ v.att ≠ .none ∧ v.helper ≠ .done ∧
          (v.helper ≠ .none → v.att = .finished) ∧ (v.deleted = true ↔ v.helper ≠ .none)) :
    AttachInv { s with mbT := mb, topic := t, gen := upd s.gen g v, dels := d } := by
  have hlt := (h.cur g hm).1
  constructor <;> dsimp only
  · exact h.rep
  · intro x hx
    rw [upd_other _ _ _ _ (by omega)]; exact h.fresh x hx
  · intro x hx hne
    have hxg : x ≠ g := by intro hc; subst hc; exact hne hm
    rw [upd_other _ _ _ _ hxg]; exact h.old x hx hne
  · intro hn
    rw [hm] at hn; cases hn
  · intro x hx
    rw [hm] at hx
    cases hx
    rw [upd_same]
    exact ⟨hlt, hv⟩
  · exact hd

theorem helper_none_of_att {s : State} {g : Nat} (c6 : (s.gen g).helper ≠ .none → (s.gen g).att = .finished)
    (ha : (s.gen g).att ≠ .finished) : (s.gen g).helper = .none := by
  cases hx : (s.gen g).helper <;> first | rfl | (exact absurd (c6 (by rw [hx]; simp)) ha)

theorem inv_step {s s' : State} (h : AttachInv s) (l : Label) (hs : step s l = some s') : AttachInv s' := by
  cases l with
  | create =>
    simp only [step] at hs
    split at hs
    · rename_i hn
      simp only [Option.some.injEq] at hs; subst hs
      obtain ⟨ht, hmb⟩ := h.empty hn
      constructor <;> dsimp only
      · exact h.rep
      · intro x hx
        rw [upd_other _ _ _ _ (by omega)]; exact h.fresh x (by omega)
      · intro x hx hne
        have hxg : x ≠ s.next := by intro hc; subst hc; exact hne rfl
        rw [upd_other _ _ _ _ hxg]
        exact h.old x (by omega) (by rw [hn]; simp)
      · intro hc; cases hc
      · intro x hx
        cases hx
        rw [upd_same, hmb]
        refine ⟨by omega, by simp [expectedMb], ?_, by simp, by simp, by simp, by simp⟩
        intro hd; rw [ht hd]; simp [expectedTopic]
      · intro d hd; have := h.dl d hd; omega
    · cases hs
  | attachSend g =>
    simp only [step] at hs
    split at hs
    · rename_i hg
      simp only [Option.some.injEq] at hs; subst hs
      have hm := active_is_cur h g (Or.inl (by rw [hg]; simp))
      obtain ⟨_, c2, c3, c4, c5, c6, c7⟩ := h.cur g hm
      have hh := helper_none_of_att c6 (by rw [hg]; simp)
      exact inv_update_cur h g hm { s.gen g with att := .sent } (s.mbT ++ [.attach g]) s.topic s.dels h.dl
        ⟨by rw [c2]; simp [expectedMb, hg, hh], fun hd => (by rw [c3 hd]; simp [expectedTopic, hg]), by simp, by simp [hh], by simp [hh],
         by simpa [hh] using c7⟩
    · cases hs
  | topicTake =>
    simp only [step] at hs
    split at hs
    · cases hs
    · rename_i g rest hmb
      simp only [Option.some.injEq] at hs; subst hs
      have hex : ∃ c, s.mgr = some c := by
        cases hm : s.mgr with
        | none => have := (h.empty hm).2; rw [this] at hmb; cases hmb
        | some c => exact ⟨c, rfl⟩
      obtain ⟨c, hm⟩ := hex
      obtain ⟨_, c2, c3, c4, c5, c6, c7⟩ := h.cur c hm
      rw [c2] at hmb
      have hsent : (s.gen c).att = .sent ∧ g = c := by
        unfold expectedMb at hmb
        by_cases ha : (s.gen c).att = .sent
        · simp [ha] at hmb; exact ⟨ha, hmb.1.symm⟩
        · simp [ha] at hmb
          by_cases hh : (s.gen c).helper = .sent
          · simp [hh] at hmb
          · simp [hh] at hmb
      obtain ⟨ha, rfl⟩ := hsent
      have hh := helper_none_of_att c6 (by rw [ha]; simp)
      have hrest : rest = [] := by
        simp [expectedMb, ha, hh] at hmb; exact hmb
      exact inv_update_cur h g hm { s.gen g with att := .replied } rest (if s.topic = none then some g else s.topic) s.dels h.dl
        ⟨by rw [hrest]; simp [expectedMb, hh], fun hd => by
            have : s.topic = none := by rw [c3 hd]; simp [expectedTopic, ha]
            rw [this]; simp [expectedTopic, hh],
         by simp, by simp [hh], by simp [hh], by simpa [hh] using c7⟩
    · rename_i g rest hmb
      simp only [Option.some.injEq] at hs; subst hs
      have hex : ∃ c, s.mgr = some c := by
        cases hm : s.mgr with
        | none => have := (h.empty hm).2; rw [this] at hmb; cases hmb
        | some c => exact ⟨c, rfl⟩
      obtain ⟨c, hm⟩ := hex
      obtain ⟨_, c2, c3, c4, c5, c6, c7⟩ := h.cur c hm
      rw [c2] at hmb
      have hsent : (s.gen c).helper = .sent ∧ g = c ∧ rest = [] := by
        unfold expectedMb at hmb
        by_cases ha : (s.gen c).att = .sent
        · simp [ha] at hmb
        · simp [ha] at hmb
          by_cases hh : (s.gen c).helper = .sent
          · simp [hh] at hmb; exact ⟨hh, hmb.1.symm, hmb.2⟩
          · simp [hh] at hmb
      obtain ⟨hh, rfl, hrest⟩ := hsent
      have ha : (s.gen g).att = .finished := c6 (by rw [hh]; simp)
      exact inv_update_cur h g hm { s.gen g with helper := .removed } rest none s.dels h.dl
        ⟨by rw [hrest]; simp [expectedMb, ha], fun _ => (by simp [expectedTopic]), by simp [ha], by simp, by simp [ha],
         by simpa [hh] using c7⟩
  | attachFinish g =>
    simp only [step] at hs
    split at hs
    · rename_i hg
      simp only [Option.some.injEq] at hs; subst hs
      have hm := active_is_cur h g (Or.inl (by rw [hg]; simp))
      obtain ⟨_, c2, c3, c4, c5, c6, c7⟩ := h.cur g hm
      have hh := helper_none_of_att c6 (by rw [hg]; simp)
      have := inv_update_cur h g hm { s.gen g with att := .finished } s.mbT s.topic s.dels h.dl
        ⟨by rw [c2]; simp [expectedMb, hg, hh], fun hd => (by rw [c3 hd]; simp [expectedTopic, hg, hh]), by simp, by simp [hh], by simp,
         by simpa [hh] using c7⟩
      simpa using this
    · cases hs
  | deleteStart =>
    simp only [step] at hs
    split at hs
    · cases hs
    · rename_i g hg
      simp only [Option.some.injEq] at hs; subst hs
      refine ⟨h.rep, h.fresh, h.old, h.empty, h.cur, ?_⟩
      intro d hd
      simp only [List.mem_append, List.mem_singleton] at hd
      rcases hd with hd | rfl
      · exact h.dl d hd
      · exact (h.cur d hg).1
  | actorDelete i =>
    simp only [step] at hs
    split at hs
    · cases hs
    · rename_i g hg
      split at hs
      · cases hs
      · rename_i hw
        have hfin : (s.gen g).att = .finished := by
          have hr := h.rep
          by_cases hc : (s.gen g).att = .finished
          · exact hc
          · exact absurd ⟨hr, hc⟩ hw
        split at hs
        · simp only [Option.some.injEq] at hs; subst hs
          exact ⟨h.rep, h.fresh, h.old, h.empty, h.cur, fun x hx => h.dl x (List.mem_of_mem_eraseIdx hx)⟩
        · rename_i hd
          simp only [Option.some.injEq] at hs; subst hs
          have hd' : (s.gen g).deleted = false := by simpa using hd
          have hm := active_is_cur h g (Or.inr (Or.inr ⟨hfin, hd'⟩))
          obtain ⟨_, c2, c3, c4, c5, c6, c7⟩ := h.cur g hm
          have hh : (s.gen g).helper = .none := by
            cases hx : (s.gen g).helper <;> first | rfl | (have := c7.mpr (by rw [hx]; simp); rw [hd'] at this; cases this)
          have := inv_update_cur h g hm { s.gen g with deleted := true, helper := .toSend } s.mbT s.topic (s.dels.eraseIdx i)
            (fun x hx => h.dl x (List.mem_of_mem_eraseIdx hx))
            ⟨by rw [c2]; simp [expectedMb, hfin, hh], fun hd => (by rw [c3 hd]; simp [expectedTopic, hfin, hh]), by simp [hfin], by simp,
             by simp [hfin], by simp⟩
          simpa using this
  | helperSend g =>
    simp only [step] at hs
    split at hs
    · rename_i hg
      simp only [Option.some.injEq] at hs; subst hs
      have hm := active_is_cur h g (Or.inr (Or.inl (by rw [hg]; simp)))
      obtain ⟨_, c2, c3, c4, c5, c6, c7⟩ := h.cur g hm
      have ha : (s.gen g).att = .finished := c6 (by rw [hg]; simp)
      exact inv_update_cur h g hm { s.gen g with helper := .sent } (s.mbT ++ [.remove g]) s.topic s.dels h.dl
        ⟨by rw [c2]; simp [expectedMb, hg, ha], fun hd => (by rw [c3 hd]; simp [expectedTopic, hg, ha]), by simp [ha], by simp, by simp [ha],
         by simpa [hg] using c7⟩
    · cases hs
  | helperFinish g =>
    simp only [step] at hs
    split at hs
    · rename_i hg
      simp only [Option.some.injEq] at hs; subst hs
      have hm := active_is_cur h g (Or.inr (Or.inl (by rw [hg]; simp)))
      obtain ⟨hlt, c2, c3, c4, c5, c6, c7⟩ := h.cur g hm
      have ha : (s.gen g).att = .finished := c6 (by rw [hg]; simp)
      have hdel : (s.gen g).deleted = true := c7.mpr (by rw [hg]; simp)
      constructor <;> dsimp only
      · exact h.rep
      · intro x hx
        rw [upd_other _ _ _ _ (by omega)]; exact h.fresh x hx
      · intro x hx _
        by_cases hxg : x = g
        · subst hxg; rw [upd_same]; exact ⟨ha, rfl, hdel⟩
        · rw [upd_other _ _ _ _ hxg]
          exact h.old x hx (by rw [hm]; intro hc; cases hc; exact hxg rfl)
      · intro _
        refine ⟨fun hd => (by rw [c3 hd]; simp [expectedTopic, hg]), (by rw [c2]; simp [expectedMb, hg, ha])⟩
      · intro x hx; cases hx
      · exact h.dl
    · cases hs
  | topicDie =>
    simp only [step] at hs
    split at hs
    · cases hs
    · simp only [Option.some.injEq] at hs; subst hs
      constructor <;> dsimp only
      · exact h.rep
      · exact h.fresh
      · exact h.old
      · intro hn; exact ⟨fun hc => (by cases hc), (h.empty hn).2⟩
      · intro g hg
        obtain ⟨a, b, _, d, e, f, g'⟩ := h.cur g hg
        exact ⟨a, b, fun hc => (by cases hc), d, e, f, g'⟩
      · exact h.dl
  | retarget g =>
    simp only [step] at hs
    split at hs
    · rename_i hg
      obtain ⟨_, hm, hatt⟩ := hg
      simp only [Option.some.injEq] at hs; subst hs
      constructor <;> dsimp only
      · exact h.rep
      · exact h.fresh
      · exact h.old
      · intro hn; rw [hm] at hn; cases hn
      · intro x hx
        rw [hm] at hx; cases hx
        obtain ⟨a, b, _, d, e, f, g'⟩ := h.cur g hm
        exact ⟨a, b, fun _ => (by simp [expectedTopic, hatt]), d, e, f, g'⟩
      · exact h.dl
    · cases hs
  | actorDeleteDirect i =>
    simp only [step] at hs
    split at hs
    · cases hs
    · rename_i g hg
      split at hs
      · cases hs
      · rename_i hdead
        have hdead' : s.tdead = true := by simpa using hdead
        split at hs
        · cases hs
        · rename_i hw
          have hfin : (s.gen g).att = .finished := by
            have hr := h.rep
            by_cases hc : (s.gen g).att = .finished
            · exact hc
            · exact absurd ⟨hr, hc⟩ hw
          split at hs
          · simp only [Option.some.injEq] at hs; subst hs
            exact ⟨h.rep, h.fresh, h.old, h.empty, h.cur, fun x hx => h.dl x (List.mem_of_mem_eraseIdx hx)⟩
          · rename_i hd
            simp only [Option.some.injEq] at hs; subst hs
            have hd' : (s.gen g).deleted = false := by simpa using hd
            have hm := active_is_cur h g (Or.inr (Or.inr ⟨hfin, hd'⟩))
            obtain ⟨hlt, c2, c3, c4, c5, c6, c7⟩ := h.cur g hm
            have hh : (s.gen g).helper = .none := by
              cases hx : (s.gen g).helper <;> first | rfl | (have := c7.mpr (by rw [hx]; simp); rw [hd'] at this; cases this)
            constructor <;> dsimp only
            · exact h.rep
            · intro x hx
              rw [upd_other _ _ _ _ (by omega)]; exact h.fresh x hx
            · intro x hx _
              by_cases hxg : x = g
              · subst hxg; rw [upd_same]; exact ⟨hfin, rfl, rfl⟩
              · rw [upd_other _ _ _ _ hxg]
                exact h.old x hx (by rw [hm]; intro hc; cases hc; exact hxg rfl)
            · intro _
              exact ⟨fun hc => (by rw [hdead'] at hc; cases hc), (by rw [c2]; simp [expectedMb, hfin, hh])⟩
            · intro x hx; cases hx
            · exact fun x hx => h.dl x (List.mem_of_mem_eraseIdx hx)

theorem inv_reachable (s : State) (hr : Reachable (init true) s) : AttachInv s := by
  induction hr with
  | refl => exact inv_init
  | step _ hs ih => exact inv_step ih _ hs

end Deltio.P1
