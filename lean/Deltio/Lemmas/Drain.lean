import Deltio.Lemmas.Timer
/-
  The pull loop of a StreamingPull in the sequential system model: it empties the backlog
  (fuel sufficiency of `drainStream`), and therefore, after ANY admissible history, no open
  StreamingPull sits on a subscription with queued messages (`DrainInv`).
-/
namespace Deltio

/-- Nothing outstanding has expired at `c`. -/
def Fresh (st : SubState) (c : Nat) : Prop := ∀ d ∈ st.out.msgs, c < d.deadline

theorem expire_fresh {s : SubState} (h : SubInv s) (c : Nat) : Fresh (s.turn (.expire c)).1 c := by
  simp only [SubState.turn]
  obtain ⟨t', ds, he, _⟩ := Inv_takeExpired h.out c
  rw [he]
  obtain ⟨_, hp, h3, h4⟩ := takeExpired_spec h.out c he
  by_cases hds : ds.isEmpty = true
  · simp only [hds, ↓reduceIte]
    intro d hd
    have hmem := (hp.mem_iff (a := d)).mpr hd
    simp only [List.mem_append] at hmem
    rcases hmem with h1 | h1
    · exact h4 d h1
    · have : ds = [] := List.isEmpty_iff.mp hds
      rw [this] at h1; cases h1
  · simp only [hds, Bool.false_eq_true, ↓reduceIte]
    exact h4

theorem expire_noop_of_fresh {s : SubState} (h : SubInv s) (c : Nat) (hf : Fresh s c) : (s.turn (.expire c)).1 = s := by
  simp only [SubState.turn]
  obtain ⟨t', ds, he, _⟩ := Inv_takeExpired h.out c
  rw [he]
  obtain ⟨_, hp, h3, _⟩ := takeExpired_spec h.out c he
  have hds : ds = [] := by
    cases ds with
    | nil => rfl
    | cons d rest =>
      have hd : d ∈ s.out.msgs := (hp.mem_iff).mp (List.mem_append_right _ (by simp))
      have := hf d hd
      have := h3 d (by simp)
      omega
  simp [hds]

theorem roundDeadline_ge (t : Nat) : t ≤ roundDeadline t := by unfold roundDeadline; omega

end Deltio

namespace Deltio

theorem pull_fresh {s : SubState} (h : SubInv s) (hd : s.deleted = false) (hdl : 0 < s.ackDl) (mx c : Nat) (hf : Fresh s c) :
    Fresh (s.turn (.pull mx c)).1 c := by
  have hp := (pull_turn s mx c hd).1
  rw [hp]
  intro d hdm
  simp only at hdm
  have := (foldl_add (roundDeadline (c + s.ackDl)) (s.backlog.take (pullN s mx)) s.nextAck s.out h.out h.acks).2
  rw [this] at hdm
  simp only [List.mem_append] at hdm
  rcases hdm with h1 | h1
  · exact hf d h1
  · have := (mem_mkDelivs h1).2.2.1
    have := roundDeadline_ge (c + s.ackDl)
    omega

theorem expire_conserve {s : SubState} (h : SubInv s) (c : Nat) :
    (s.turn (.expire c)).1.backlog.length + (s.turn (.expire c)).1.out.msgs.length = s.backlog.length + s.out.msgs.length := by
  simp only [SubState.turn]
  obtain ⟨t', ds, he, _⟩ := Inv_takeExpired h.out c
  rw [he]
  obtain ⟨_, hperm, _, _⟩ := takeExpired_spec h.out c he
  have hl := hperm.length_eq
  simp only [List.length_append] at hl
  by_cases hds : ds.isEmpty = true
  · simp [hds]
  · simp only [hds, Bool.false_eq_true, ↓reduceIte, List.length_append, List.length_map]
    omega

theorem expire_keeps {s : SubState} (h : SubInv s) (c : Nat) (d : Deliv) (hd : d ∈ s.out.msgs) (hdl : c < d.deadline) :
    d ∈ (s.turn (.expire c)).1.out.msgs := by
  simp only [SubState.turn]
  obtain ⟨t', ds, he, _⟩ := Inv_takeExpired h.out c
  rw [he]
  obtain ⟨_, hperm, h3, _⟩ := takeExpired_spec h.out c he
  have hmem := (hperm.mem_iff (a := d)).mpr hd
  simp only [List.mem_append] at hmem
  have hnot : d ∉ ds := fun hc => by have := h3 d hc; omega
  by_cases hds : ds.isEmpty = true
  · simp only [hds, ↓reduceIte]; exact hd
  · simp only [hds, Bool.false_eq_true, ↓reduceIte]
    rcases hmem with h1 | h1
    · exact h1
    · exact absurd h1 hnot

/-- One pull request of a stream (pull turn + expiry re-check) on a non-empty backlog. -/
theorem pull_step {s : SubState} (h : SubInv s) (hd : s.deleted = false) (hdl : 0 < s.ackDl) (mx c : Nat) (hb : s.backlog ≠ []) :
    let s2 := ((s.turn (.pull mx c)).1.turn (.expire c)).1
    s2.backlog.length + s2.out.msgs.length = s.backlog.length + s.out.msgs.length ∧
    1 ≤ s2.out.msgs.length ∧ Fresh s2 c ∧ SubInv s2 ∧ s2.deleted = false ∧ s2.ackDl = s.ackDl ∧
    (Fresh s c → s2.backlog.length < s.backlog.length) := by
  intro s2
  have hp := pull_turn s mx c hd
  have hn : 1 ≤ pullN s mx := by
    rw [pullN_eq]; unfold pullCount
    have : 0 < s.backlog.length := List.length_pos_iff.mpr hb
    omega
  have hnle : pullN s mx ≤ s.backlog.length := by rw [pullN_eq]; unfold pullCount; omega
  have hadd := foldl_add (roundDeadline (c + s.ackDl)) (s.backlog.take (pullN s mx)) s.nextAck s.out h.out h.acks
  -- the state after the pull turn
  have hinv1 : SubInv (s.turn (.pull mx c)).1 := SubInv_turn h _
  have hd1 : (s.turn (.pull mx c)).1.deleted = false := by rw [turn_deleted _ (by simp)]; exact hd
  have hb1 : (s.turn (.pull mx c)).1.backlog.length = s.backlog.length - pullN s mx := by
    rw [hp.1]; simp
  have ho1 : (s.turn (.pull mx c)).1.out.msgs.length = s.out.msgs.length + pullN s mx := by
    rw [hp.1]; simp only; rw [hadd.2]; simp [hnle]
  -- the expiry re-check
  have hfresh2 : Fresh s2 c := expire_fresh hinv1 c
  have hinv2 : SubInv s2 := SubInv_turn hinv1 _
  have hd2 : s2.deleted = false := by
    show ((s.turn (.pull mx c)).1.turn (.expire c)).1.deleted = false
    rw [turn_deleted _ (by simp)]; exact hd1
  -- conservation through the expiry turn
  have hcons : s2.backlog.length + s2.out.msgs.length = (s.turn (.pull mx c)).1.backlog.length + (s.turn (.pull mx c)).1.out.msgs.length :=
    expire_conserve hinv1 c
  -- a just-delivered message is still outstanding (its deadline is in the future)
  have hone : 1 ≤ s2.out.msgs.length := by
    have hex : ∃ d, d ∈ (s.turn (.pull mx c)).1.out.msgs ∧ c < d.deadline := by
      cases hbk : s.backlog with
      | nil => exact absurd hbk hb
      | cons m rest =>
        obtain ⟨k, hk⟩ : ∃ k, pullN s mx = k + 1 := ⟨pullN s mx - 1, by omega⟩
        refine ⟨{ ack := s.nextAck, msg := m, deadline := roundDeadline (c + s.ackDl) }, ?_, ?_⟩
        · rw [hp.1]; simp only; rw [hadd.2, hbk, hk]
          simp [mkDelivs]
        · have := roundDeadline_ge (c + s.ackDl); simp only; omega
    obtain ⟨d, hdm, hdd⟩ := hex
    have : d ∈ s2.out.msgs := expire_keeps hinv1 c d hdm hdd
    exact List.length_pos_iff.mpr (List.ne_nil_of_mem this)
  have hadl : s2.ackDl = s.ackDl := by
    show ((s.turn (.pull mx c)).1.turn (.expire c)).1.ackDl = s.ackDl
    have e1 : ∀ (x : SubState) (t : SubTurn), (x.turn t).1.ackDl = x.ackDl := by
      intro x t
      cases t <;> simp only [SubState.turn] <;> (repeat' split) <;> rfl
    rw [e1, e1]
  refine ⟨by omega, hone, hfresh2, hinv2, hd2, hadl, ?_⟩
  intro hf
  have hf1 := pull_fresh h hd hdl mx c hf
  have : s2 = (s.turn (.pull mx c)).1 := expire_noop_of_fresh hinv1 c hf1
  rw [this, hb1]
  have : 0 < s.backlog.length := List.length_pos_iff.mpr hb
  omega

end Deltio

namespace Deltio

theorem find_map_outbox (k : Nat) (f : Stream → Stream) (hk : ∀ x, (f x).k = x.k) :
    ∀ (l : List Stream) (s : Stream), l.find? (·.k == k) = some s → (l.map f).find? (·.k == k) = some (f s) := by
  intro l
  induction l with
  | nil => intro s h; simp at h
  | cons x xs ih =>
    intro s h
    simp only [List.find?_cons] at h
    simp only [List.map_cons, List.find?_cons, hk]
    by_cases hx : (x.k == k) = true
    · simp only [hx] at h ⊢
      cases h; rfl
    · have : (x.k == k) = false := by simpa using hx
      simp only [this] at h ⊢
      exact ih s h

/-- The sub-state facts the drain loop needs. -/
structure DrainOk (st : SubState) : Prop where
  inv : SubInv st
  live : st.deleted = false
  dl : 0 < st.ackDl

end Deltio

namespace Deltio

theorem turn_ackDl (x : SubState) (t : SubTurn) : (x.turn t).1.ackDl = x.ackDl := by
  cases t <;> simp only [SubState.turn] <;> (repeat' split) <;> rfl

theorem drainStable : TurnStable DrainOk := by
  constructor
  · intro dl h; exact ⟨SubInv_init dl, rfl, h⟩
  · intro s t h h1 _
    exact ⟨SubInv_turn h.inv t, by rw [turn_deleted t h1]; exact h.live, by rw [turn_ackDl]; exact h.dl⟩

end Deltio

namespace Deltio

/-- The pull loop of stream `k` on `sid`, started with nothing expired and more fuel than queued
    messages, empties the backlog. -/
theorem drainStream_fresh (k sid : Nat) : ∀ (fuel : Nat) (sys : Sys) (s : Stream) (st : SubState),
    sys.streams.find? (·.k == k) = some s → s.ended = false → s.sid = sid →
    sys.stateOf sid = some st → DrainOk st → Fresh st sys.clock → st.backlog.length < fuel →
    ∃ st', (drainStream k sid fuel sys).stateOf sid = some st' ∧ st'.backlog = [] ∧ DrainOk st' ∧
      Fresh st' (drainStream k sid fuel sys).clock := by
  intro fuel
  induction fuel with
  | zero => intro sys s st _ _ _ _ _ _ hlt; omega
  | succ n ih =>
    intro sys s st hfind hend hsid hst hok hfresh hlt
    unfold drainStream
    simp only [hfind]
    have hguard : (s.ended || s.sid != sid) = false := by simp [hend, hsid]
    simp only [hguard, Bool.false_eq_true, ↓reduceIte]
    obtain ⟨e, he, hest⟩ := find_of_stateOf hst
    simp only [he]
    by_cases hb : st.backlog = []
    · have : e.st.backlog.isEmpty = true := by rw [hest, hb]; rfl
      simp only [this, ↓reduceIte]
      exact ⟨st, hst, hb, hok, hfresh⟩
    · have : e.st.backlog.isEmpty = false := by rw [hest]; simpa using hb
      simp only [this, Bool.false_eq_true, ↓reduceIte]
      have hstep := pull_step hok.inv hok.live hok.dl s.max16 sys.clock hb
      obtain ⟨_, _, hf2, hi2, hd2, ha2, hdec⟩ := hstep
      have hclk : (sys.subTurn sid (.pull s.max16 sys.clock)).1.clock = sys.clock := by
        unfold Sys.subTurn; split <;> rfl
      refine ih _ { s with outbox := s.outbox ++ [.msgs (sys.subTurn sid (.pull s.max16 sys.clock)).2.delivered] }
        ((st.turn (.pull s.max16 sys.clock)).1.turn (.expire sys.clock)).1 ?_ hend hsid ?_ ⟨hi2, hd2, by rw [ha2]; exact hok.dl⟩ ?_ ?_
      · have := find_map_outbox k (fun x => if x.k == k then { x with outbox := x.outbox ++ [.msgs (sys.subTurn sid (.pull s.max16 sys.clock)).2.delivered] } else x)
          (by intro x; split <;> rfl) (sys.subTurn sid (.pull s.max16 sys.clock)).1.streams s (by rw [subTurn_streams]; exact hfind)
        have hk : (s.k == k) = true := by
          have := List.find?_some hfind; exact this
        simp only [hk, ↓reduceIte] at this
        exact this
      · exact stateOf_subTurn_self sys sid _ st hst
      · show Fresh _ (sys.subTurn sid (.pull s.max16 sys.clock)).1.clock
        rw [hclk]; exact hf2
      · have := hdec hfresh
        omega

end Deltio

namespace Deltio

/-- The pull loop of stream `k` on `sid` with the fuel `drainSub` gives it (`subLoad`) empties the
    backlog, whatever has expired meanwhile. -/
theorem drainStream_drains (k sid : Nat) (fuel : Nat) (sys : Sys) (s : Stream) (st : SubState)
    (hfind : sys.streams.find? (·.k == k) = some s) (hend : s.ended = false) (hsid : s.sid = sid)
    (hst : sys.stateOf sid = some st) (hok : DrainOk st) (hfuel : st.backlog.length + st.out.msgs.length < fuel) :
    ∃ st', (drainStream k sid fuel sys).stateOf sid = some st' ∧ st'.backlog = [] ∧ DrainOk st' := by
  cases fuel with
  | zero => omega
  | succ n =>
    unfold drainStream
    simp only [hfind]
    have hguard : (s.ended || s.sid != sid) = false := by simp [hend, hsid]
    simp only [hguard, Bool.false_eq_true, ↓reduceIte]
    obtain ⟨e, he, hest⟩ := find_of_stateOf hst
    simp only [he]
    by_cases hb : st.backlog = []
    · have : e.st.backlog.isEmpty = true := by rw [hest, hb]; rfl
      simp only [this, ↓reduceIte]
      exact ⟨st, hst, hb, hok⟩
    · have : e.st.backlog.isEmpty = false := by rw [hest]; simpa using hb
      simp only [this, Bool.false_eq_true, ↓reduceIte]
      obtain ⟨hcons, hone, hf2, hi2, hd2, ha2, _⟩ := pull_step hok.inv hok.live hok.dl s.max16 sys.clock hb
      have hclk : (sys.subTurn sid (.pull s.max16 sys.clock)).1.clock = sys.clock := by
        unfold Sys.subTurn; split <;> rfl
      have hfind' : ({ (sys.subTurn sid (.pull s.max16 sys.clock)).1 with streams := (sys.subTurn sid (.pull s.max16 sys.clock)).1.streams.map (fun x =>
              if x.k == k then { x with outbox := x.outbox ++ [.msgs (sys.subTurn sid (.pull s.max16 sys.clock)).2.delivered] } else x) } : Sys).streams.find? (·.k == k)
          = some { s with outbox := s.outbox ++ [.msgs (sys.subTurn sid (.pull s.max16 sys.clock)).2.delivered] } := by
        have := find_map_outbox k (fun x => if x.k == k then { x with outbox := x.outbox ++ [.msgs (sys.subTurn sid (.pull s.max16 sys.clock)).2.delivered] } else x)
          (by intro x; split <;> rfl) (sys.subTurn sid (.pull s.max16 sys.clock)).1.streams s (by rw [subTurn_streams]; exact hfind)
        have hk : (s.k == k) = true := by
          have := List.find?_some hfind; exact this
        simp only [hk, ↓reduceIte] at this
        exact this
      obtain ⟨st', h1, h2, h3, _⟩ := drainStream_fresh k sid n _ _ ((st.turn (.pull s.max16 sys.clock)).1.turn (.expire sys.clock)).1
        hfind' hend hsid (stateOf_subTurn_self sys sid _ st hst) ⟨hi2, hd2, by rw [ha2]; exact hok.dl⟩
        (by show Fresh _ (sys.subTurn sid (.pull s.max16 sys.clock)).1.clock; rw [hclk]; exact hf2) (by omega)
      exact ⟨st', h1, h2, h3⟩

end Deltio

namespace Deltio

def Stream.shape (x : Stream) : Nat × Nat × Bool := (x.k, x.sid, x.ended)

theorem drainStream_shape (k sid : Nat) : ∀ (fuel : Nat) (sys : Sys),
    (drainStream k sid fuel sys).streams.map Stream.shape = sys.streams.map Stream.shape := by
  intro fuel
  induction fuel with
  | zero => intro sys; rfl
  | succ n ih =>
    intro sys
    unfold drainStream
    split
    · rfl
    · split
      · rfl
      · split
        · rfl
        · split
          · rfl
          · rw [ih]
            simp only [List.map_map]
            rw [subTurn_streams]
            apply List.map_congr_left
            intro x _
            simp only [Function.comp]
            split <;> rfl

theorem find_by_shape : ∀ (l l' : List Stream), l'.map Stream.shape = l.map Stream.shape → (l.map (·.k)).Nodup →
    ∀ s ∈ l, ∃ s', l'.find? (·.k == s.k) = some s' ∧ s'.shape = s.shape := by
  intro l
  induction l with
  | nil => intro l' _ _ s hs; cases hs
  | cons x xs ih =>
    intro l' hshape hnd s hs
    cases l' with
    | nil => simp at hshape
    | cons y ys =>
      simp only [List.map_cons, List.cons.injEq] at hshape
      obtain ⟨hxy, hrest⟩ := hshape
      simp only [List.map_cons, List.nodup_cons] at hnd
      have hyk : y.k = x.k := by
        have := congrArg Prod.fst hxy; exact this
      simp only [List.mem_cons] at hs
      simp only [List.find?_cons]
      rcases hs with rfl | hs
      · simp only [hyk, beq_self_eq_true]
        exact ⟨y, rfl, hxy⟩
      · have hne : (y.k == s.k) = false := by
          rw [hyk]
          simp only [beq_eq_false_iff_ne, ne_eq]
          intro hc
          exact hnd.1 (by rw [hc]; exact List.mem_map_of_mem hs)
        simp only [hne]
        exact ih ys hrest hnd.2 s hs

theorem subLoad_eq {sys : Sys} {sid : Nat} {st : SubState} (h : sys.stateOf sid = some st) :
    sys.subLoad sid = st.backlog.length + st.out.msgs.length + 1 := by
  obtain ⟨e, he, hest⟩ := find_of_stateOf h
  simp only [Sys.subLoad, he, hest]

/-- After `drainSub sid`, if some StreamingPull is open on `sid`, nothing is left queued on it. -/
theorem drainSub_drains (sys : Sys) (sid : Nat) (st : SubState) (hst : sys.stateOf sid = some st) (hok : DrainOk st)
    (hk : (sys.streams.map (·.k)).Nodup) (hex : ∃ s ∈ sys.streams, s.sid = sid ∧ s.ended = false) :
    ∃ st', (sys.drainSub sid).stateOf sid = some st' ∧ st'.backlog = [] ∧ DrainOk st' := by
  unfold Sys.drainSub
  have hl : ∀ s ∈ sys.streams.filter (fun s => s.sid == sid && !s.ended), s ∈ sys.streams ∧ s.sid = sid ∧ s.ended = false := by
    intro s hs
    simp only [List.mem_filter, Bool.and_eq_true, beq_iff_eq, Bool.not_eq_true'] at hs
    exact ⟨hs.1, hs.2.1, hs.2.2⟩
  have hne : sys.streams.filter (fun s => s.sid == sid && !s.ended) ≠ [] := by
    obtain ⟨s, hs, h1, h2⟩ := hex
    intro hc
    have : s ∈ sys.streams.filter (fun s => s.sid == sid && !s.ended) := by
      simp only [List.mem_filter, Bool.and_eq_true, beq_iff_eq, Bool.not_eq_true']
      exact ⟨hs, h1, h2⟩
    rw [hc] at this; cases this
  generalize sys.streams.filter (fun s => s.sid == sid && !s.ended) = l at hl hne
  -- fold with the accumulator generalised: same stream shapes, a state for `sid` that is `DrainOk`
  have key : ∀ (l : List Stream) (acc : Sys) (sta : SubState), l ≠ [] →
      (∀ s ∈ l, s ∈ sys.streams ∧ s.sid = sid ∧ s.ended = false) →
      acc.streams.map Stream.shape = sys.streams.map Stream.shape → acc.stateOf sid = some sta → DrainOk sta →
      ∃ st', (l.foldl (fun acc s => drainStream s.k sid (acc.subLoad sid) acc) acc).stateOf sid = some st' ∧ st'.backlog = [] ∧ DrainOk st' := by
    intro l
    induction l with
    | nil => intro _ _ h; exact absurd rfl h
    | cons s rest ih =>
      intro acc sta _ hall hshape hsta hoka
      simp only [List.foldl_cons]
      obtain ⟨hs1, hs2, hs3⟩ := hall s (by simp)
      obtain ⟨s', hf', hsh⟩ := find_by_shape sys.streams acc.streams hshape hk s hs1
      have hs'sid : s'.sid = sid := by
        have := congrArg (fun p => p.2.1) hsh; simp only [Stream.shape] at this; rw [this]; exact hs2
      have hs'end : s'.ended = false := by
        have := congrArg (fun p => p.2.2) hsh; simp only [Stream.shape] at this; rw [this]; exact hs3
      obtain ⟨st1, h1, h2, h3⟩ := drainStream_drains s.k sid (acc.subLoad sid) acc s' sta hf' hs'end hs'sid hsta hoka
        (by rw [subLoad_eq hsta]; omega)
      cases rest with
      | nil => exact ⟨st1, h1, h2, h3⟩
      | cons s2 rest2 =>
        exact ih _ st1 (by simp) (fun x hx => hall x (by simp [hx])) (by rw [drainStream_shape]; exact hshape) h1 h3
  exact key l sys st hne hl rfl hst hok

end Deltio

namespace Deltio

theorem drainSub_shape (sys : Sys) (sid : Nat) : (sys.drainSub sid).streams.map Stream.shape = sys.streams.map Stream.shape := by
  unfold Sys.drainSub
  generalize (sys.streams.filter (fun s => s.sid == sid && !s.ended)) = l
  induction l generalizing sys with
  | nil => rfl
  | cons s rest ih => simp only [List.foldl_cons]; rw [ih]; exact drainStream_shape _ _ _ _

theorem ks_of_shape {l l' : List Stream} (h : l'.map Stream.shape = l.map Stream.shape) : l'.map (·.k) = l.map (·.k) := by
  have := congrArg (List.map (fun (p : Nat × Nat × Bool) => p.1)) h
  simp only [List.map_map] at this
  exact this

theorem mem_of_shape {l l' : List Stream} (h : l'.map Stream.shape = l.map Stream.shape) {s : Stream} (hs : s ∈ l') :
    ∃ s0 ∈ l, s0.shape = s.shape := by
  have : s.shape ∈ l'.map Stream.shape := List.mem_map_of_mem hs
  rw [h] at this
  obtain ⟨s0, h0, h1⟩ := List.mem_map.mp this
  exact ⟨s0, h0, h1⟩

theorem drainStream_nosub (k sid : Nat) (fuel : Nat) (sys : Sys) (h : sys.findSubById sid = none) :
    drainStream k sid fuel sys = sys := by
  cases fuel with
  | zero => rfl
  | succ n =>
    unfold drainStream
    split
    · rfl
    · split
      · rfl
      · simp only [h]

theorem drainSub_nosub (sys : Sys) (sid : Nat) (h : sys.findSubById sid = none) : sys.drainSub sid = sys := by
  unfold Sys.drainSub
  generalize (sys.streams.filter (fun s => s.sid == sid && !s.ended)) = l
  induction l with
  | nil => rfl
  | cons s rest ih => simp only [List.foldl_cons]; rw [drainStream_nosub _ _ _ _ h]; exact ih

/-- The streams part of the invariant: distinct stream keys, and no open StreamingPull sits on a
    subscription with queued messages. -/
structure DrainInv (sys : Sys) : Prop where
  ks : (sys.streams.map (·.k)).Nodup
  ok : SubsAll DrainOk sys
  drained : ∀ s ∈ sys.streams, s.ended = false → ∀ st, sys.stateOf s.sid = some st → st.backlog = []

section

/-- Establishing the invariant by a drain: if every open stream NOT on `sid` already sees an empty
    backlog, then after `drainSub sid` every open stream does. -/
theorem drain_establish {x : Sys} (sid : Nat) (hks : (x.streams.map (·.k)).Nodup) (hok : SubsAll DrainOk x)
    (hothers : ∀ s ∈ x.streams, s.ended = false → s.sid ≠ sid → ∀ st, x.stateOf s.sid = some st → st.backlog = []) :
    DrainInv (x.drainSub sid) := by
  have hsh0 := drainSub_shape x sid
  constructor
  · rw [ks_of_shape hsh0]; exact hks
  · exact SubsAll_drainSub drainStable hok sid
  · intro s hs hend st hst
    obtain ⟨s0, hs0, hsh⟩ := mem_of_shape hsh0 hs
    have h0sid : s0.sid = s.sid := by have := congrArg (fun p => p.2.1) hsh; exact this
    have h0end : s0.ended = s.ended := by have := congrArg (fun p => p.2.2) hsh; exact this
    by_cases hsid : s.sid = sid
    · cases hx : x.stateOf sid with
      | none =>
        have : (x.drainSub sid).stateOf sid = none := by
          have hn : x.findSubById sid = none := by
            unfold Sys.stateOf at hx
            cases hf : x.findSubById sid with
            | none => rfl
            | some e => rw [hf] at hx; simp at hx
          rw [drainSub_nosub _ _ hn]; exact hx
        rw [hsid, this] at hst; cases hst
      | some stx =>
        obtain ⟨e, he, hest⟩ := find_of_stateOf hx
        have hokx : DrainOk stx := by rw [← hest]; exact hok e (findSubById_mem he)
        have hex : ∃ s ∈ x.streams, s.sid = sid ∧ s.ended = false :=
          ⟨s0, hs0, by rw [h0sid, hsid], by rw [h0end, hend]⟩
        obtain ⟨st', h1, h2, _⟩ := drainSub_drains x sid stx hx hokx hks hex
        rw [hsid, h1] at hst
        cases hst; exact h2
    · rw [drainSub_other _ _ _ hsid] at hst
      exact hothers s0 hs0 (by rw [h0end]; exact hend) (by rw [h0sid]; exact hsid) st (by rw [h0sid]; exact hst)

/-- The common shape of every request that reaches a subscription actor: something that touches
    only subscription `sid` (and no stream), followed by `drainSub sid`. -/
theorem DrainInv_touch_drain {sys x : Sys} (h : DrainInv sys) (sid : Nat)
    (hshape : x.streams.map Stream.shape = sys.streams.map Stream.shape)
    (hother : ∀ sid', sid' ≠ sid → x.stateOf sid' = sys.stateOf sid')
    (hok : SubsAll DrainOk x) :
    DrainInv (x.drainSub sid) := by
  apply drain_establish sid (by rw [ks_of_shape hshape]; exact h.ks) hok
  intro s hs hend hsid st hst
  obtain ⟨s0, hs0, hsh⟩ := mem_of_shape hshape hs
  have h0sid : s0.sid = s.sid := by have := congrArg (fun p => p.2.1) hsh; exact this
  have h0end : s0.ended = s.ended := by have := congrArg (fun p => p.2.2) hsh; exact this
  rw [hother _ hsid] at hst
  exact h.drained s0 hs0 (by rw [h0end]; exact hend) st (by rw [h0sid]; exact hst)

theorem DrainInv_subTurn_drain {sys : Sys} (h : DrainInv sys) (sid : Nat) (t : SubTurn) (ht : t ≠ .deleteBegin ∧ t ≠ .deleteEnd) :
    DrainInv ((sys.subTurn sid t).1.drainSub sid) :=
  DrainInv_touch_drain h sid (by rw [subTurn_streams]) (fun sid' hne => subTurn_other sys sid sid' t hne)
    (SubsAll_subTurn drainStable h.ok sid t ht)

theorem DrainInv_touch {sys : Sys} (h : DrainInv sys) (sid : Nat) : DrainInv (sys.touch sid) :=
  DrainInv_touch_drain h sid (by rw [subExpire_streams]) (fun sid' hne => subExpire_other sys sid sid' hne)
    (SubsAll_subExpire drainStable h.ok sid)

theorem DrainInv_touchAll : ∀ (l : List Nat) {sys : Sys}, DrainInv sys → DrainInv (sys.touchAll l) := by
  intro l
  induction l with
  | nil => intro sys h; exact h
  | cons x rest ih => intro sys h; simp only [Sys.touchAll]; exact ih (DrainInv_touch h x)

theorem DrainInv_postAll (ms : List Msg) : ∀ (l : List (Name × Nat)) {sys : Sys}, DrainInv sys → DrainInv (sys.postAll ms l) := by
  intro l
  induction l with
  | nil => intro sys h; exact h
  | cons x rest ih =>
    intro sys h; obtain ⟨n, sid⟩ := x
    simp only [Sys.postAll]
    exact ih (DrainInv_subTurn_drain h sid _ (by simp))

/-- Changes outside subscriptions and streams do not matter. -/
theorem DrainInv_same {sys x : Sys} (h : DrainInv sys) (h1 : x.subs = sys.subs) (h2 : x.streams = sys.streams) : DrainInv x := by
  constructor
  · rw [h2]; exact h.ks
  · intro e he; rw [h1] at he; exact h.ok e he
  · intro s hs hend st hst
    rw [h2] at hs
    have : x.stateOf s.sid = sys.stateOf s.sid := by unfold Sys.stateOf Sys.findSubById; rw [h1]
    rw [this] at hst
    exact h.drained s hs hend st hst

theorem DrainInv_advanceTo (frac : Nat) : ∀ (fuel target : Nat) {sys : Sys}, DrainInv sys → DrainInv (Sys.advanceTo frac fuel target sys) := by
  intro fuel
  induction fuel with
  | zero => intro target sys h; exact DrainInv_same h rfl rfl
  | succ n ih =>
    intro target sys h
    unfold Sys.advanceTo
    split
    · split
      · rename_i t x _ _
        have h1 : DrainInv ({ sys with clock := max sys.clock (t + frac) } : Sys) := DrainInv_same h rfl rfl
        exact ih _ (DrainInv_touch h1 x)
      · exact DrainInv_same h rfl rfl
    · exact DrainInv_same h rfl rfl

end
end Deltio

namespace Deltio

theorem advanceTo_shape (frac : Nat) : ∀ (fuel target : Nat) (sys : Sys),
    (Sys.advanceTo frac fuel target sys).streams.map Stream.shape = sys.streams.map Stream.shape := by
  intro fuel
  induction fuel with
  | zero => intro target sys; rfl
  | succ n ih =>
    intro target sys
    unfold Sys.advanceTo
    split
    · split
      · rw [ih, drainSub_shape, subExpire_streams]
      · rfl
    · rfl

/-- No open StreamingPull on subscription `sid`. -/
def Sys.noStreamOn (sys : Sys) (sid : Nat) : Prop := ∀ s ∈ sys.streams, s.ended = false → s.sid ≠ sid

theorem noStreamOn_of_shape {a b : Sys} (h : b.streams.map Stream.shape = a.streams.map Stream.shape) {sid : Nat}
    (hn : a.noStreamOn sid) : b.noStreamOn sid := by
  intro s hs hend
  obtain ⟨s0, hs0, hsh⟩ := mem_of_shape h hs
  have h0sid : s0.sid = s.sid := by have := congrArg (fun p => p.2.1) hsh; exact this
  have h0end : s0.ended = s.ended := by have := congrArg (fun p => p.2.2) hsh; exact this
  rw [← h0sid]; exact hn s0 hs0 (by rw [h0end]; exact hend)

section

/-- A turn on a subscription nobody streams from needs no drain. -/
theorem DrainInv_subTurn_nostream {sys : Sys} (h : DrainInv sys) (sid : Nat) (t : SubTurn) (ht : t ≠ .deleteBegin ∧ t ≠ .deleteEnd)
    (hn : sys.noStreamOn sid) : DrainInv (sys.subTurn sid t).1 := by
  constructor
  · rw [subTurn_streams]; exact h.ks
  · exact SubsAll_subTurn drainStable h.ok sid t ht
  · intro s hs hend st hst
    rw [subTurn_streams] at hs
    have hne := hn s hs hend
    rw [subTurn_other sys sid s.sid t hne] at hst
    exact h.drained s hs hend st hst

end
end Deltio

namespace Deltio

theorem DrainInv_fst {β : Type} {a : Sys} {r : β} (h : DrainInv a) : DrainInv (a, r).fst := h

theorem stateOf_append_old (subs : List SubEnt) (e : SubEnt) (sid : Nat) (x : SubEnt) (h : subs.find? (·.sid == sid) = some x) :
    (subs ++ [e]).find? (·.sid == sid) = some x := by
  rw [List.find?_append, h]; rfl

theorem stateOf_filter_ne (subs : List SubEnt) (gone sid : Nat) (h : sid ≠ gone) :
    (subs.filter (·.sid != gone)).find? (·.sid == sid) = subs.find? (·.sid == sid) := by
  induction subs with
  | nil => rfl
  | cons y ys ih =>
    simp only [List.filter_cons]
    by_cases hy : y.sid = gone
    · have h1 : (y.sid != gone) = false := by simp [hy]
      have h2 : (y.sid == sid) = false := by simp [hy]; exact fun hc => h hc.symm
      simp only [h1, Bool.false_eq_true, ↓reduceIte, List.find?_cons, h2]
      exact ih
    · have h1 : (y.sid != gone) = true := by simp [hy]
      simp only [h1, ↓reduceIte, List.find?_cons]
      split
      · rfl
      · exact ih

/-- Requests the sequential model takes: a Pull that may block is only sent to a subscription
    nobody streams from (one waiting consumer per subscription, DESIGN D.3). -/
def Sys.admits (sys : Sys) : Req → Prop
  | .pull raw _ false => ∀ n e, parseSubName raw = some n → sys.findSub n = some e → sys.noStreamOn e.sid
  | _ => True

section

theorem DrainInv_subReq {sys : Sys} (h : DrainInv sys) (sid : Nat) (t : SubTurn) (ht : t ≠ .deleteBegin ∧ t ≠ .deleteEnd) :
    DrainInv (sys.subReq sid t).1 := by
  simp only [Sys.subReq]; exact DrainInv_subTurn_drain h sid t ht

theorem DrainInv_rpc {sys : Sys} (h : DrainInv sys) (r : Req) (hadm : sys.admits r) :
    DrainInv (sys.rpc r).1 := by
  cases r with
  | createTopic raw => simp only [Sys.rpc]; (repeat' split) <;> first | exact DrainInv_fst h | exact DrainInv_fst (DrainInv_same h rfl rfl)
  | getTopic raw => simp only [Sys.rpc]; (repeat' split) <;> exact DrainInv_fst h
  | deleteTopic raw => simp only [Sys.rpc]; (repeat' split) <;> first | exact DrainInv_fst h | exact DrainInv_fst (DrainInv_same h rfl rfl)
  | listTopics p s t => simp only [Sys.rpc]; (repeat' split) <;> exact DrainInv_fst h
  | listTopicSubs p s t => simp only [Sys.rpc]; (repeat' split) <;> exact DrainInv_fst h
  | unimplemented => exact h
  | getSub raw => simp only [Sys.rpc]; (repeat' split) <;> first | exact DrainInv_fst h | exact DrainInv_fst (DrainInv_touch h _)
  | listSubs p s t => simp only [Sys.rpc]; (repeat' split) <;> first | exact DrainInv_fst h | exact DrainInv_fst (DrainInv_touchAll _ h)
  | ack raw ids => simp only [Sys.rpc]; (repeat' split) <;> first | exact DrainInv_fst h | exact DrainInv_fst (DrainInv_subReq h _ _ (by simp))
  | modAck raw secs ids =>
    simp only [Sys.rpc]; (repeat' split) <;> first | exact DrainInv_fst h | exact DrainInv_fst (DrainInv_subTurn_drain h _ _ (by simp))
  | publish raw ms =>
    simp only [Sys.rpc]; (repeat' split) <;> first | exact DrainInv_fst h | exact DrainInv_fst (DrainInv_postAll _ _ (DrainInv_same h rfl rfl))
  | pull raw mx ri =>
    cases hp : parseSubName raw with
    | none => simp only [Sys.rpc, hp]; exact h
    | some n =>
      cases hf : sys.findSub n with
      | none => simp only [Sys.rpc, hp, hf]; exact h
      | some e =>
        simp only [Sys.rpc, hp, hf]
        split
        · exact DrainInv_fst (DrainInv_subTurn_drain h _ _ (by simp))
        · rename_i hblocked
          -- the pull may block: nobody streams from this subscription
          have hri : ri = false := by
            cases ri with
            | false => rfl
            | true => simp at hblocked
          subst hri
          have hn : sys.noStreamOn e.sid := hadm n e hp hf
          have h1 := DrainInv_subTurn_nostream h e.sid (.pull (i32AsU16 mx) sys.clock) (by simp) hn
          have hn1 : (sys.subTurn e.sid (.pull (i32AsU16 mx) sys.clock)).1.noStreamOn e.sid :=
            noStreamOn_of_shape (by rw [subTurn_streams]) hn
          split
          · exact DrainInv_fst (DrainInv_subTurn_nostream h1 e.sid _ (by simp) hn1)
          · (repeat' split) <;> first
              | exact DrainInv_fst (DrainInv_advanceTo _ _ _ h1)
              | exact DrainInv_fst (DrainInv_subTurn_nostream (DrainInv_advanceTo _ _ _ h1) e.sid _ (by simp)
                  (noStreamOn_of_shape (advanceTo_shape _ _ _ _) hn1))
  | deleteSub raw =>
    cases hp : parseSubName raw with
    | none => simp only [Sys.rpc, hp]; exact h
    | some n =>
      cases hf : sys.findSub n with
      | none => simp only [Sys.rpc, hp, hf]; exact h
      | some e =>
        simp only [Sys.rpc, hp, hf]
        constructor
        · simp only [List.map_map]
          have : (sys.streams.map ((fun (x : Stream) => x.k) ∘ fun s => if (s.sid == e.sid && !s.ended) = true then { s with outbox := s.outbox ++ [.done .notFound], ended := true } else s))
              = sys.streams.map (·.k) := by
            apply List.map_congr_left; intro x _; simp only [Function.comp]; split <;> rfl
          rw [this]; exact h.ks
        · intro x hx
          simp only [List.mem_filter] at hx
          exact h.ok x hx.1
        · intro s hs hend st hst
          simp only [List.mem_map] at hs
          obtain ⟨s0, hs0, rfl⟩ := hs
          by_cases hc : (s0.sid == e.sid && !s0.ended) = true
          · simp only [hc, ↓reduceIte] at hend
            cases hend
          · simp only [hc, Bool.false_eq_true, ↓reduceIte] at hend hst
            have hne : s0.sid ≠ e.sid := by
              intro heq
              apply hc
              simp [heq, hend]
            unfold Sys.stateOf Sys.findSubById at hst
            simp only at hst
            rw [stateOf_filter_ne sys.subs e.sid s0.sid hne] at hst
            exact h.drained s0 hs0 hend st hst
  | createSub rawN rawT ack push =>
    simp only [Sys.rpc]
    (repeat' split) <;> first | exact DrainInv_fst h | skip
    all_goals
      apply DrainInv_fst
      constructor
      · exact h.ks
      · intro x hx
        simp only [List.mem_append, List.mem_singleton] at hx
        rcases hx with hx | rfl
        · exact h.ok x hx
        · apply drainStable.init
          have : 10 ≤ effAckDeadlineSecs ack := by unfold effAckDeadlineSecs; split <;> omega
          omega
      · intro s hs hend st hst
        unfold Sys.stateOf Sys.findSubById at hst
        simp only at hst
        cases hold : sys.subs.find? (·.sid == s.sid) with
        | some x =>
          rw [stateOf_append_old _ _ _ x hold] at hst
          exact h.drained s hs hend st (by unfold Sys.stateOf Sys.findSubById; rw [hold]; exact hst)
        | none =>
          rw [List.find?_append, hold] at hst
          simp only [Option.none_or, List.find?_cons] at hst
          split at hst
          · simp only [Option.map_some, Option.some.injEq] at hst
            rw [← hst]; rfl
          · simp at hst

end
end Deltio

namespace Deltio

section

theorem drain_establish_from {sys x : Sys} (h : DrainInv sys) (sid : Nat) (hks : (x.streams.map (·.k)).Nodup)
    (hok : SubsAll DrainOk x)
    (hstreams : ∀ s ∈ x.streams, s.ended = false → s.sid ≠ sid → ∃ s0 ∈ sys.streams, s0.ended = false ∧ s0.sid = s.sid)
    (hother : ∀ sid', sid' ≠ sid → x.stateOf sid' = sys.stateOf sid') : DrainInv (x.drainSub sid) := by
  apply drain_establish sid hks hok
  intro s hs hend hsid st hst
  obtain ⟨s0, hs0, h0end, h0sid⟩ := hstreams s hs hend hsid
  rw [hother _ hsid] at hst
  exact h.drained s0 hs0 h0end st (by rw [h0sid]; exact hst)

theorem DrainInv_streamOpen {sys : Sys} (h : DrainInv sys) (k : Nat) (raw : Bytes) (mm : Int) :
    DrainInv (sys.streamOpen k raw mm).1 := by
  simp only [Sys.streamOpen]
  split
  · exact DrainInv_fst h
  · split
    · exact DrainInv_fst h
    · split
      · exact DrainInv_fst h
      · rename_i n _ e _ _ m16 _
        apply DrainInv_fst
        -- the system with the new stream registered
        have hks1 : ((sys.streams.filter (fun x => x.k != k) ++ [({ k := k, sid := e.sid, max16 := m16, outbox := [], ended := false } : Stream)]).map (·.k)).Nodup := by
          simp only [List.map_append, List.map_cons, List.map_nil]
          apply List.nodup_append.mpr
          refine ⟨(h.ks.sublist ((List.filter_sublist).map _)), by simp, ?_⟩
          intro a ha b hb
          simp only [List.mem_singleton] at hb
          subst hb
          obtain ⟨x, hx, rfl⟩ := List.mem_map.mp ha
          simp only [List.mem_filter, bne_iff_ne, ne_eq] at hx
          exact hx.2
        have hmem1 : ∀ s ∈ (sys.streams.filter (fun x => x.k != k) ++ [({ k := k, sid := e.sid, max16 := m16, outbox := [], ended := false } : Stream)]),
            s.sid ≠ e.sid → s ∈ sys.streams := by
          intro s hs hne
          simp only [List.mem_append, List.mem_filter, List.mem_singleton] at hs
          rcases hs with hs | rfl
          · exact hs.1
          · exact absurd rfl hne
        split
        · -- nothing delivered by the first pull
          refine drain_establish_from h e.sid ?_ ?_ ?_ ?_
          · rw [subTurn_streams]; exact hks1
          · exact SubsAll_subTurn drainStable (SubsAll_streams h.ok _) e.sid (.pull m16 sys.clock) (by simp)
          · intro s hs hend hsid
            rw [subTurn_streams] at hs
            exact ⟨s, hmem1 s hs hsid, hend, rfl⟩
          · intro sid' hne
            rw [subTurn_other _ e.sid sid' _ hne]; rfl
        · refine drain_establish_from h e.sid ?_ ?_ ?_ ?_
          · simp only [List.map_map]
            have : ∀ (l : List Stream) (f : Stream → Stream), (∀ x, (f x).k = x.k) → l.map ((fun x => x.k) ∘ f) = l.map (·.k) := by
              intro l f hf; apply List.map_congr_left; intro x _; exact hf x
            rw [this _ _ (by intro x; split <;> rfl), subTurn_streams]; exact hks1
          · have := SubsAll_subTurn drainStable (SubsAll_streams h.ok (sys.streams.filter (fun x => x.k != k) ++ [({ k := k, sid := e.sid, max16 := m16, outbox := [], ended := false } : Stream)])) e.sid (.pull m16 sys.clock) (by simp)
            exact fun x hx => this x hx
          · intro s hs hend hsid
            simp only [List.mem_map] at hs
            obtain ⟨s1, hs1, rfl⟩ := hs
            rw [subTurn_streams] at hs1
            have hsame : ∀ (y : Stream), (if (y.k == k) = true then ({ y with outbox := y.outbox ++ [StreamItem.msgs ((({ sys with streams := sys.streams.filter (fun x => x.k != k) ++ [({ k := k, sid := e.sid, max16 := m16, outbox := [], ended := false } : Stream)] } : Sys).subTurn e.sid (.pull m16 sys.clock)).2.delivered)] } : Stream) else y).sid = y.sid ∧
                (if (y.k == k) = true then ({ y with outbox := y.outbox ++ [StreamItem.msgs ((({ sys with streams := sys.streams.filter (fun x => x.k != k) ++ [({ k := k, sid := e.sid, max16 := m16, outbox := [], ended := false } : Stream)] } : Sys).subTurn e.sid (.pull m16 sys.clock)).2.delivered)] } : Stream) else y).ended = y.ended := by
              intro y; split <;> exact ⟨rfl, rfl⟩
            have h1 := hsame s1
            rw [h1.1] at hsid
            rw [h1.2] at hend
            exact ⟨s1, hmem1 s1 hs1 hsid, hend, h1.1.symm⟩
          · intro sid' hne
            show Sys.stateOf { (Sys.subTurn _ e.sid _).1 with streams := _ } sid' = _
            rw [stateOf_streams, subTurn_other _ e.sid sid' _ hne]; rfl

end
end Deltio

namespace Deltio

/-- Subscriptions unchanged, stream shapes (key, subscription, ended) unchanged. -/
theorem DrainInv_sameShape {sys x : Sys} (h : DrainInv sys) (h1 : x.subs = sys.subs)
    (h2 : x.streams.map Stream.shape = sys.streams.map Stream.shape) : DrainInv x := by
  constructor
  · rw [ks_of_shape h2]; exact h.ks
  · intro e he; rw [h1] at he; exact h.ok e he
  · intro s hs hend st hst
    obtain ⟨s0, hs0, hsh⟩ := mem_of_shape h2 hs
    have h0sid : s0.sid = s.sid := by have := congrArg (fun p => p.2.1) hsh; exact this
    have h0end : s0.ended = s.ended := by have := congrArg (fun p => p.2.2) hsh; exact this
    have : x.stateOf s.sid = sys.stateOf s.sid := by unfold Sys.stateOf Sys.findSubById; rw [h1]
    rw [this] at hst
    exact h.drained s0 hs0 (by rw [h0end]; exact hend) st (by rw [h0sid]; exact hst)

/-- Subscriptions unchanged, streams a sub-collection in which streams may have been ended. -/
theorem DrainInv_fewer {sys x : Sys} (h : DrainInv sys) (h1 : x.subs = sys.subs)
    (hks : (x.streams.map (·.k)).Nodup)
    (h2 : ∀ s ∈ x.streams, s.ended = false → ∃ s0 ∈ sys.streams, s0.ended = false ∧ s0.sid = s.sid) : DrainInv x := by
  constructor
  · exact hks
  · intro e he; rw [h1] at he; exact h.ok e he
  · intro s hs hend st hst
    obtain ⟨s0, hs0, h0end, h0sid⟩ := h2 s hs hend
    have : x.stateOf s.sid = sys.stateOf s.sid := by unfold Sys.stateOf Sys.findSubById; rw [h1]
    rw [this] at hst
    exact h.drained s0 hs0 h0end st (by rw [h0sid]; exact hst)

theorem DrainInv_endStream {sys : Sys} (h : DrainInv sys) (k : Nat) (st : Status) : DrainInv (sys.endStream k st) := by
  refine DrainInv_fewer h ?_ ?_ ?_
  · rfl
  · simp only [Sys.endStream, List.map_map]
    have : sys.streams.map ((fun (x : Stream) => x.k) ∘ fun s => if (s.k == k) = true then { s with outbox := s.outbox ++ [.done st], ended := true } else s)
        = sys.streams.map (·.k) := by
      apply List.map_congr_left; intro x _; simp only [Function.comp]; split <;> rfl
    rw [this]; exact h.ks
  · intro s hs hend
    simp only [Sys.endStream, List.mem_map] at hs
    obtain ⟨s0, hs0, rfl⟩ := hs
    by_cases hc : (s0.k == k) = true
    · simp only [hc, ↓reduceIte] at hend; cases hend
    · simp only [hc, Bool.false_eq_true, ↓reduceIte] at hend ⊢
      exact ⟨s0, hs0, hend, rfl⟩

section

theorem DrainInv_apply {sys : Sys} (h : DrainInv sys) (op : SysOp)
    (hadm : ∀ r, op = .rpc r → sys.admits r) : DrainInv (sys.apply op) := by
  cases op with
  | rpc r => exact DrainInv_rpc h r (hadm r rfl)
  | advance d =>
    simp only [Sys.apply, Sys.advance]
    split
    · exact DrainInv_same h rfl rfl
    · exact DrainInv_advanceTo _ _ _ (DrainInv_same h rfl rfl)
  | streamOpen k raw mm => exact DrainInv_streamOpen h k raw mm
  | streamSend k c =>
    simp only [Sys.apply, Sys.streamSend]
    (repeat' split) <;> first
      | exact h
      | exact DrainInv_endStream h _ _
      | exact DrainInv_subReq h _ _ (by simp)
      | exact DrainInv_subReq (DrainInv_subReq h _ _ (by simp)) _ _ (by simp)
  | streamRead k =>
    simp only [Sys.apply, Sys.streamRead]
    split
    · exact h
    · refine DrainInv_fst (DrainInv_sameShape h ?_ ?_)
      · rfl
      · simp only [List.map_map]
        apply List.map_congr_left; intro x _; simp only [Function.comp]; split <;> rfl
  | streamCloseReq k =>
    simp only [Sys.apply, Sys.streamCloseReq]
    refine DrainInv_sameShape h ?_ ?_
    · rfl
    · simp only [List.map_map]
      apply List.map_congr_left; intro x _; simp only [Function.comp]; split <;> rfl
  | streamDrop k =>
    simp only [Sys.apply, Sys.streamDrop]
    refine DrainInv_fewer h ?_ ?_ ?_
    · rfl
    · exact h.ks.sublist ((List.filter_sublist).map _)
    · intro s hs hend
      simp only [List.mem_filter] at hs
      exact ⟨s, hs.1, hend, rfl⟩

end

/-- Histories the sequential model takes (see `Sys.admits`). -/
def Sys.admitsAll : Sys → List SysOp → Prop
  | _, [] => True
  | sys, op :: rest => (∀ r, op = .rpc r → sys.admits r) ∧ (sys.apply op).admitsAll rest

end Deltio
