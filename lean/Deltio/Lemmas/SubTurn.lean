import Deltio.Lemmas.SubActor
/-
  Per-turn facts about the subscription actor: invariant preservation, conservation of messages,
  closed form of the pull turn.
-/
namespace Deltio

structure SubInv (s : SubState) : Prop where
  out : s.out.Inv
  acks : ∀ d ∈ s.out.msgs, d.ack < s.nextAck

theorem SubInv_init (dl : Nat) : SubInv (SubState.init dl) := by
  constructor
  · exact Inv_empty
  · intro d hd; simp [SubState.init, Tracker.empty] at hd

/-- Messages the subscription currently holds (queued or leased). -/
def held (s : SubState) : List Msg := s.backlog ++ s.out.msgs.map (·.msg)

def postedBy : SubTurn → List Msg
  | .post ms => ms
  | _ => []

/-- Messages removed for good by this turn (acknowledged while outstanding). -/
def ackedBy (s : SubState) : SubTurn → List Msg
  | .ack ids => if s.deleted then [] else (s.out.remove ids).2.map (·.msg)
  | _ => []

def pullN (s : SubState) (max16 : Nat) : Nat :=
  takeCount (pullCapacity max16 s.backlog.length) 0 s.backlog.length

theorem pullN_eq (s : SubState) (max16 : Nat) : pullN s max16 = pullCount max16 s.backlog.length := by
  simp [pullN, takeCount, pullCount]

/-- Closed form of the pull turn. -/
theorem pull_turn (s : SubState) (max16 now : Nat) (hd : s.deleted = false) :
    let n := pullN s max16
    let ds := mkDelivs (roundDeadline (now + s.ackDl)) s.nextAck (s.backlog.take n)
    (s.turn (.pull max16 now)).1 = { s with backlog := s.backlog.drop n, nextAck := s.nextAck + n,
                                            out := ds.foldl Tracker.add s.out } ∧
    (s.turn (.pull max16 now)).2.delivered = ds := by
  simp only [SubState.turn, hd, Bool.false_eq_true, ↓reduceIte]
  rw [pullLoop_closed]
  simp [pullN]

theorem SubInv_turn {s : SubState} (h : SubInv s) (t : SubTurn) : SubInv (s.turn t).1 := by
  cases t with
  | post ms => simp only [SubState.turn]; split <;> exact ⟨h.out, h.acks⟩
  | pull max16 now =>
    by_cases hd : s.deleted = true
    · simp only [SubState.turn, hd, ↓reduceIte]; exact h
    · have hd' : s.deleted = false := by simpa using hd
      rw [(pull_turn s max16 now hd').1]
      obtain ⟨h1, h2⟩ := foldl_add (roundDeadline (now + s.ackDl)) (s.backlog.take (pullN s max16)) s.nextAck s.out h.out h.acks
      constructor
      · exact h1
      · intro d hdm
        simp only at hdm ⊢
        rw [h2] at hdm
        simp only [List.mem_append] at hdm
        rcases hdm with hdm | hdm
        · have := h.acks d hdm; omega
        · have := mem_mkDelivs hdm
          have hl : (s.backlog.take (pullN s max16)).length ≤ pullN s max16 := by simp [List.length_take]; omega
          omega
  | ack ids =>
    simp only [SubState.turn]
    split
    · exact h
    · constructor
      · exact Inv_remove ids h.out
      · intro d hdm
        simp only at hdm
        exact h.acks d ((mem_remove_msgs ids s.out d).mp hdm).1
  | modify mods =>
    simp only [SubState.turn]
    split
    · exact h
    · constructor
      · exact Inv_modify mods h.out
      · intro d hdm
        simp only at hdm ⊢
        exact modify_acks_lt mods h.out h.acks d hdm
  | expire now =>
    simp only [SubState.turn]
    obtain ⟨t', ds, he, hi⟩ := Inv_takeExpired h.out now
    rw [he]
    simp only
    split
    · exact h
    · obtain ⟨_, hp, _, _⟩ := takeExpired_spec h.out now he
      constructor
      · exact hi
      · intro d hdm
        simp only at hdm ⊢
        exact h.acks d ((hp.mem_iff).mp (List.mem_append_left _ hdm))
  | deleteBegin => simp only [SubState.turn]; exact ⟨h.out, h.acks⟩
  | deleteEnd =>
    simp only [SubState.turn, Tracker.clear]
    exact ⟨Inv_empty, by intro d hd; simp [Tracker.empty] at hd⟩
  | getStats => exact h
  | getInfo => exact h

theorem turn_deleted {s : SubState} (t : SubTurn) (ht : t ≠ .deleteBegin) : (s.turn t).1.deleted = s.deleted := by
  cases t with
  | post ms => simp only [SubState.turn]; split <;> rfl
  | pull max16 now =>
    simp only [SubState.turn]
    split
    · rfl
    · rfl
  | ack ids => simp only [SubState.turn]; split <;> rfl
  | modify mods => simp only [SubState.turn]; split <;> rfl
  | expire now =>
    simp only [SubState.turn]
    split
    · rfl
    · split <;> rfl
  | deleteBegin => exact absurd rfl ht
  | deleteEnd => rfl
  | getStats => rfl
  | getInfo => rfl

/-- Conservation of messages by one turn (everything except the final clearing of a deleted
    subscription): what is held afterwards plus what was acknowledged is a permutation of what
    was held before plus what was posted. -/
theorem turn_conserve {s : SubState} (h : SubInv s) (hd : s.deleted = false) (t : SubTurn) (ht : t ≠ .deleteEnd) :
    (held (s.turn t).1 ++ ackedBy s t).Perm (held s ++ postedBy t) := by
  cases t with
  | post ms =>
    simp only [SubState.turn, hd, Bool.false_eq_true, ↓reduceIte, held, ackedBy, postedBy, List.append_nil, List.append_assoc]
    exact List.Perm.append_left _ List.perm_append_comm
  | pull max16 now =>
    rw [(pull_turn s max16 now hd).1]
    obtain ⟨_, h2⟩ := foldl_add (roundDeadline (now + s.ackDl)) (s.backlog.take (pullN s max16)) s.nextAck s.out h.out h.acks
    simp only [held, ackedBy, postedBy, List.append_nil, h2, List.map_append, mkDelivs_msgs]
    have : s.backlog = s.backlog.take (pullN s max16) ++ s.backlog.drop (pullN s max16) := (List.take_append_drop _ _).symm
    conv => rhs; rw [this]
    simp only [List.append_assoc]
    refine List.Perm.trans List.perm_append_comm ?_
    simp only [List.append_assoc]
    refine List.Perm.trans List.perm_append_comm ?_
    simp only [List.append_assoc]
    exact List.Perm.refl _
  | ack ids =>
    simp only [SubState.turn, hd, Bool.false_eq_true, ↓reduceIte, held, ackedBy, postedBy, List.append_nil, List.append_assoc]
    refine List.Perm.append_left _ ?_
    rw [← List.map_append]
    exact (remove_perm ids h.out).map _
  | modify mods =>
    simp only [SubState.turn, hd, Bool.false_eq_true, ↓reduceIte, held, ackedBy, postedBy, List.append_nil, List.append_assoc]
    refine List.Perm.append_left _ ?_
    exact List.Perm.trans List.perm_append_comm (modify_perm mods h.out)
  | expire now =>
    simp only [SubState.turn]
    obtain ⟨t', ds, he, hi⟩ := Inv_takeExpired h.out now
    rw [he]
    simp only
    split
    · simp [ackedBy, postedBy]
    · obtain ⟨_, hp, _, _⟩ := takeExpired_spec h.out now he
      simp only [held, ackedBy, postedBy, List.append_nil, List.append_assoc]
      refine List.Perm.append_left _ ?_
      refine List.Perm.trans List.perm_append_comm ?_
      rw [← List.map_append]
      exact hp.map _
  | deleteBegin => simp [SubState.turn, held, ackedBy, postedBy]
  | deleteEnd => exact absurd rfl ht
  | getStats => simp [SubState.turn, held, ackedBy, postedBy]
  | getInfo => simp [SubState.turn, held, ackedBy, postedBy]

/-- State after a list of turns. -/
def SubState.exec (s : SubState) : List SubTurn → SubState
  | [] => s
  | t :: ts => ((s.turn t).1).exec ts

def postedIn (ts : List SubTurn) : List Msg := ts.flatMap postedBy

def ackedIn (s : SubState) : List SubTurn → List Msg
  | [] => []
  | t :: ts => ackedBy s t ++ ackedIn (s.turn t).1 ts

def NoDelete (ts : List SubTurn) : Prop := ∀ t ∈ ts, t ≠ .deleteBegin ∧ t ≠ .deleteEnd

theorem SubInv_exec {s : SubState} (h : SubInv s) (ts : List SubTurn) : SubInv (s.exec ts) := by
  induction ts generalizing s with
  | nil => exact h
  | cons t ts ih => exact ih (SubInv_turn h t)

theorem exec_append (s : SubState) (ts us : List SubTurn) : s.exec (ts ++ us) = (s.exec ts).exec us := by
  induction ts generalizing s with
  | nil => rfl
  | cons t ts ih => simp [SubState.exec, ih]

theorem exec_deleted {s : SubState} (ts : List SubTurn) (hn : NoDelete ts) : (s.exec ts).deleted = s.deleted := by
  induction ts generalizing s with
  | nil => rfl
  | cons t ts ih =>
    simp only [SubState.exec]
    rw [ih (fun u hu => hn u (List.mem_cons_of_mem _ hu))]
    exact turn_deleted t (hn t List.mem_cons_self).1

theorem exec_conserve {s : SubState} (h : SubInv s) (hd : s.deleted = false) (ts : List SubTurn) (hn : NoDelete ts) :
    (held (s.exec ts) ++ ackedIn s ts).Perm (held s ++ postedIn ts) := by
  induction ts generalizing s with
  | nil => simp [SubState.exec, ackedIn, postedIn]
  | cons t ts ih =>
    have hn' : NoDelete ts := fun u hu => hn u (List.mem_cons_of_mem _ hu)
    have ht := hn t List.mem_cons_self
    have hd' : (s.turn t).1.deleted = false := by rw [turn_deleted t ht.1]; exact hd
    have ih' := ih (SubInv_turn h t) hd' hn'
    have hc := turn_conserve h hd t ht.2
    simp only [SubState.exec, ackedIn, postedIn, List.flatMap_cons]
    -- held final ++ (acked t ++ acked rest) ~ (held final ++ acked rest) ++ acked t
    --   ~ (held s1 ++ posted rest) ++ acked t ~ (held s1 ++ acked t) ++ posted rest ~ held s ++ posted t ++ posted rest
    have e1 : (held ((s.turn t).1.exec ts) ++ (ackedBy s t ++ ackedIn (s.turn t).1 ts)).Perm
        ((held ((s.turn t).1.exec ts) ++ ackedIn (s.turn t).1 ts) ++ ackedBy s t) := by
      simp only [List.append_assoc]
      exact List.Perm.append_left _ List.perm_append_comm
    refine e1.trans ?_
    have e2 := List.Perm.append_right (ackedBy s t) ih'
    refine e2.trans ?_
    unfold postedIn
    have e3 : (held (s.turn t).1 ++ ts.flatMap postedBy ++ ackedBy s t).Perm
        ((held (s.turn t).1 ++ ackedBy s t) ++ ts.flatMap postedBy) := by
      simp only [List.append_assoc]
      exact List.Perm.append_left _ List.perm_append_comm
    refine e3.trans ?_
    have e4 := List.Perm.append_right (ts.flatMap postedBy) hc
    refine e4.trans ?_
    simp only [List.append_assoc]
    exact List.Perm.refl _

end Deltio
