import Deltio.Lemmas.SubRun
import Deltio.Props.C02
/-
  The expiry turn at a deadline (used by the timer-loop lemmas and by C04).
-/
namespace Deltio

/-- At the deadline: the first expiry turn with `now ≥ deadline` puts the message at the back of
    the queue and wakes a consumer; the old ack id is then outstanding no more (acknowledging or
    modifying it is a no-op, `C02_noop` / `C05_unknown_ignored`), and every later delivery of the
    message carries a strictly larger ack id. -/
theorem at_deadline {s : SubState} (h : SubInv s) (d : Deliv) (hd : d ∈ s.out.msgs) (now : Nat)
    (hdl : d.deadline ≤ now) :
    let s' := (s.turn (.expire now)).1
    d.msg ∈ s'.backlog ∧ (∀ x ∈ s'.out.msgs, x.ack ≠ d.ack) ∧ s'.out.lookup d.ack = none ∧
    (s.turn (.expire now)).2.notified = true ∧ d.ack < s'.nextAck ∧ (s.turn (.expire now)).2.ub = false := by
  simp only [SubState.turn]
  obtain ⟨t', ds, he, hi⟩ := Inv_takeExpired h.out now
  rw [he]
  obtain ⟨_, hp, h3, h4⟩ := takeExpired_spec h.out now he
  have hmem := (hp.mem_iff (a := d)).mpr hd
  simp only [List.mem_append] at hmem
  have hds : d ∈ ds := by
    rcases hmem with h1 | h1
    · have := h4 d h1; omega
    · exact h1
  have hne : ds.isEmpty = false := by
    cases ds with
    | nil => simp at hds
    | cons _ _ => rfl
  simp only [hne, Bool.false_eq_true, ↓reduceIte]
  have hnotin : ∀ x ∈ t'.msgs, x.ack ≠ d.ack := by
    intro x hx hxa
    have hxm : x ∈ s.out.msgs := (hp.mem_iff).mp (List.mem_append_left _ hx)
    have : x = d := ack_unique h.out.nodup hxm hd hxa
    subst this
    have := h4 x hx
    omega
  refine ⟨?_, hnotin, ?_, ?_, h.acks d hd, trivial⟩
  · exact List.mem_append_right _ (List.mem_map_of_mem hds)
  · unfold Tracker.lookup
    apply List.find?_eq_none.mpr
    intro x hx
    simpa using hnotin x hx
  · have : (s.backlog ++ List.map (fun x => x.msg) ds).isEmpty = false := by
      cases ds with
      | nil => simp at hds
      | cons y ys => cases s.backlog <;> simp
    simp [this]


end Deltio
