import Deltio.Lemmas.SysFrame
/-
  System-level frame facts about subscription states: an actor turn on one subscription touches no
  other subscription; a publish posts to exactly the attached subscriptions.
-/
namespace Deltio

def Sys.stateOf (sys : Sys) (sid : Nat) : Option SubState := (sys.findSubById sid).map (·.st)

theorem findSubById_setSubState_ne (sys : Sys) (sid sid' : Nat) (st : SubState) (h : sid' ≠ sid) :
    (sys.setSubState sid st).stateOf sid' = sys.stateOf sid' := by
  unfold Sys.stateOf Sys.findSubById Sys.setSubState
  simp only
  induction sys.subs with
  | nil => rfl
  | cons e es ih =>
    simp only [List.map_cons, List.find?_cons]
    by_cases he : e.sid = sid
    · have h1 : (e.sid == sid) = true := by simp [he]
      have h2 : (e.sid == sid') = false := by simp [he]; exact fun hc => h hc.symm
      simp only [h1, ↓reduceIte, h2]
      exact ih
    · have h1 : (e.sid == sid) = false := by simpa using he
      simp only [h1, Bool.false_eq_true, ↓reduceIte]
      by_cases he' : (e.sid == sid') = true
      · simp [he']
      · have : (e.sid == sid') = false := by simpa using he'
        simp only [this]
        exact ih

theorem subTurn_other (sys : Sys) (sid sid' : Nat) (t : SubTurn) (h : sid' ≠ sid) :
    (sys.subTurn sid t).1.stateOf sid' = sys.stateOf sid' := by
  unfold Sys.subTurn
  split
  · rfl
  · exact findSubById_setSubState_ne sys sid sid' _ h

theorem subExpire_other (sys : Sys) (sid sid' : Nat) (h : sid' ≠ sid) :
    (sys.subExpire sid).stateOf sid' = sys.stateOf sid' := by
  unfold Sys.subExpire
  split
  · rfl
  · exact findSubById_setSubState_ne sys sid sid' _ h

theorem stateOf_streams (sys : Sys) (f : List Stream) (sid' : Nat) :
    ({ sys with streams := f } : Sys).stateOf sid' = sys.stateOf sid' := rfl

/-- The pull loop of a stream on subscription `sid` turns only that subscription's actor. -/
theorem drainStream_other (k sid sid' : Nat) (h : sid' ≠ sid) : ∀ (fuel : Nat) (sys : Sys),
    (drainStream k sid fuel sys).stateOf sid' = sys.stateOf sid' := by
  intro fuel
  induction fuel with
  | zero => intro sys; rfl
  | succ n ih =>
    intro sys
    unfold drainStream
    split
    · rfl
    · split
      · rfl
      · split
        · rfl
        · split
          · rfl
          · rw [ih, stateOf_streams, subTurn_other sys sid sid' _ h]

theorem drainSub_other (sys : Sys) (sid sid' : Nat) (h : sid' ≠ sid) :
    (sys.drainSub sid).stateOf sid' = sys.stateOf sid' := by
  unfold Sys.drainSub
  generalize (sys.streams.filter (fun s => s.sid == sid && !s.ended)) = l
  induction l generalizing sys with
  | nil => rfl
  | cons s rest ih => simp only [List.foldl_cons]; rw [ih]; exact drainStream_other _ _ _ h _ _

theorem subReq_other (sys : Sys) (sid sid' : Nat) (t : SubTurn) (h : sid' ≠ sid) :
    (sys.subReq sid t).1.stateOf sid' = sys.stateOf sid' := by
  simp only [Sys.subReq]
  rw [drainSub_other _ _ _ h, subTurn_other _ _ _ _ h]

theorem touch_other (sys : Sys) (sid sid' : Nat) (h : sid' ≠ sid) :
    (sys.touch sid).stateOf sid' = sys.stateOf sid' := by
  simp only [Sys.touch]
  rw [drainSub_other _ _ _ h, subExpire_other _ _ _ h]

theorem drainSub_nostreams (sys : Sys) (sid : Nat) (h : sys.streams = []) : sys.drainSub sid = sys := by
  unfold Sys.drainSub; rw [h]; rfl

theorem subTurn_streams (sys : Sys) (sid : Nat) (t : SubTurn) : (sys.subTurn sid t).1.streams = sys.streams := by
  unfold Sys.subTurn
  split <;> rfl

theorem find_map_set (sid : Nat) (st : SubState) : ∀ (l : List SubEnt) (e : SubEnt), l.find? (·.sid == sid) = some e →
    (l.map (fun x => if x.sid == sid then { x with st := st } else x)).find? (·.sid == sid) = some { e with st := st } := by
  intro l
  induction l with
  | nil => intro e h; simp at h
  | cons x xs ih =>
    intro e h
    simp only [List.find?_cons] at h
    simp only [List.map_cons, List.find?_cons]
    by_cases hx : (x.sid == sid) = true
    · simp only [hx] at h
      simp only [Option.some.injEq] at h
      subst h
      simp [hx]
    · have hx' : (x.sid == sid) = false := by simpa using hx
      simp only [hx'] at h
      simp only [hx', Bool.false_eq_true, ↓reduceIte]
      exact ih e h

theorem stateOf_subTurn_self (sys : Sys) (sid : Nat) (t : SubTurn) (st : SubState) (h : sys.stateOf sid = some st) :
    (sys.subTurn sid t).1.stateOf sid = some ((st.turn t).1.turn (.expire sys.clock)).1 := by
  unfold Sys.stateOf at h
  cases hf : sys.findSubById sid with
  | none => rw [hf] at h; simp at h
  | some e =>
    rw [hf] at h
    simp only [Option.map_some, Option.some.injEq] at h
    subst h
    simp only [Sys.subTurn, hf]
    unfold Sys.stateOf Sys.findSubById Sys.setSubState
    simp only
    unfold Sys.findSubById at hf
    rw [find_map_set sid _ sys.subs e hf]
    rfl

/-- Fan-out of a publish over the attached list when no StreamingPull is open: every listed
    subscription gets exactly one `post` turn (followed by the expiry re-check of its actor loop);
    every other subscription is untouched. -/
theorem postAll_spec (ms : List Msg) : ∀ (l : List (Name × Nat)) (sys : Sys), sys.streams = [] → (l.map (·.2)).Nodup →
    (∀ sid', sid' ∉ l.map (·.2) → (sys.postAll ms l).stateOf sid' = sys.stateOf sid') ∧
    (∀ sid ∈ l.map (·.2), ∀ st, sys.stateOf sid = some st →
        (sys.postAll ms l).stateOf sid = some ((st.turn (.post ms)).1.turn (.expire sys.clock)).1) ∧
    (sys.postAll ms l).clock = sys.clock := by
  intro l
  induction l with
  | nil => intro sys _ _; simp [Sys.postAll]
  | cons x rest ih =>
    intro sys hs hnd
    obtain ⟨n, sid0⟩ := x
    simp only [List.map_cons, List.nodup_cons] at hnd
    simp only [Sys.postAll]
    have hs1 : (sys.subTurn sid0 (.post ms)).1.streams = [] := by rw [subTurn_streams]; exact hs
    rw [drainSub_nostreams _ _ hs1]
    obtain ⟨i1, i2, i3⟩ := ih (sys.subTurn sid0 (.post ms)).1 hs1 hnd.2
    have hclock : (sys.subTurn sid0 (.post ms)).1.clock = sys.clock := by
      unfold Sys.subTurn; split <;> rfl
    refine ⟨?_, ?_, by rw [i3, hclock]⟩
    · intro sid' hn
      simp only [List.map_cons, List.mem_cons, not_or] at hn
      rw [i1 sid' hn.2]
      exact subTurn_other sys sid0 sid' _ hn.1
    · intro sid hm st hst
      simp only [List.map_cons, List.mem_cons] at hm
      rcases hm with rfl | hm
      · rw [i1 sid hnd.1]
        exact stateOf_subTurn_self sys sid _ st hst
      · have hne : sid ≠ sid0 := fun hc => hnd.1 (hc ▸ hm)
        have := i2 sid hm st (by rw [subTurn_other sys sid0 sid _ hne]; exact hst)
        rw [this, hclock]

/-! A small concrete system for the non-vacuity examples: topic `p/t`, subscriptions `p/a` (sid 2), `p/b` (sid 3). -/
def exT : Bytes := displayTopic ([112], [116])
def exS1 : Bytes := displaySub ([112], [97])
def exS2 : Bytes := displaySub ([112], [98])
def exSys : Sys :=
  (((Sys.init.rpc (.createTopic exT)).1.rpc (.createSub exS1 exT 10 none)).1.rpc (.createSub exS2 exT 10 none)).1

end Deltio
