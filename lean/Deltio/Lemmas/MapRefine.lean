import Deltio.Lemmas.MapSpec
/-
  Every request of the system model is one atomic operation of the map specification (C10).
-/
namespace Deltio

def Refines (sys : Sys) (r : Req) : Prop :=
  (sys.rpc r).1.abs = (sys.abs.apply r).1 ∧ classOf (sys.rpc r).2 = (sys.abs.apply r).2

theorem refines_getTopic (sys : Sys) (raw : Bytes) : Refines sys (.getTopic raw) := by
  unfold Refines
  simp only [Sys.rpc, Spec.apply]
  cases hp : parseTopicName raw with
  | none => exact ⟨rfl, rfl⟩
  | some n =>
    simp only
    cases hf : sys.findTopic n with
    | none => simp [findTopic_none_mem hf, classOf]
    | some t =>
      obtain ⟨_, hn, _⟩ := findTopic_some hf
      simp [findTopic_some_mem hf, classOf, hn]

theorem refines_publish (sys : Sys) (raw : Bytes) (msgs) : Refines sys (.publish raw msgs) := by
  unfold Refines
  simp only [Sys.rpc, Spec.apply]
  cases hp : parseTopicName raw with
  | none => exact ⟨rfl, rfl⟩
  | some n =>
    simp only
    cases hf : sys.findTopic n with
    | none => simp [findTopic_none_mem hf, classOf]
    | some t =>
      simp only [(findTopic_some hf).2.2, classOf, if_true, and_true]
      apply abs_congr
      · have := congrArg Skel.topics (skel_postAll (mkMsgs t.tid t.nextMsg sys.pubSeq msgs 0) t.subs
          { sys with topics := sys.topics.map (fun x => if x.tid == t.tid then { x with nextMsg := x.nextMsg + msgs.length } else x),
                     pubSeq := sys.pubSeq + 1 })
        simp only [Sys.skel] at this
        rw [this, List.map_map]
        apply List.map_congr_left
        intro x _
        simp only [Function.comp]
        split <;> rfl
      · have := congrArg Skel.subIds (skel_postAll (mkMsgs t.tid t.nextMsg sys.pubSeq msgs 0) t.subs
          { sys with topics := sys.topics.map (fun x => if x.tid == t.tid then { x with nextMsg := x.nextMsg + msgs.length } else x),
                     pubSeq := sys.pubSeq + 1 })
        simp only [Sys.skel] at this
        have h2 := congrArg (List.map (fun x : Nat × Name × Nat × Nat × Option PushCfg => x.2)) this
        simp only [List.map_map] at h2
        exact h2

/-- data-plane requests on a subscription: the state afterwards has the same skeleton -/
theorem abs_of_skel' {a b : Sys} (h : a.skel = b.skel) : a.abs = b.abs := abs_of_skel h

theorem findSub_none_abs {sys : Sys} {n : Name} (h : sys.findSub n = none) : alookup n sys.abs.subs = none := by
  rw [findSub_abs, h]; rfl

theorem findSub_some_abs {sys : Sys} {n : Name} {e : SubEnt} (h : sys.findSub n = some e) :
    alookup n sys.abs.subs = some (specOf sys.topics e) := by
  rw [findSub_abs, h]; rfl

theorem refines_pull (sys : Sys) (raw : Bytes) (mx : Int) (ri : Bool) : Refines sys (.pull raw mx ri) := by
  unfold Refines
  simp only [Sys.rpc, Spec.apply]
  cases hp : parseSubName raw with
  | none => exact ⟨rfl, rfl⟩
  | some n =>
    simp only
    cases hf : sys.findSub n with
    | none => simp [findSub_none_abs hf, classOf]
    | some e =>
      simp only [findSub_some_abs hf, Option.isSome_some, if_true]
      (repeat' split) <;> refine ⟨abs_of_skel (by simp), rfl⟩

theorem refines_ack (sys : Sys) (raw : Bytes) (ids : List Bytes) : Refines sys (.ack raw ids) := by
  unfold Refines
  simp only [Sys.rpc, Spec.apply]
  cases hi : parseAckIds ids with
  | none => exact ⟨rfl, rfl⟩
  | some as =>
    simp only
    cases hp : parseSubName raw with
    | none => exact ⟨rfl, rfl⟩
    | some n =>
      simp only
      cases hf : sys.findSub n with
      | none => simp [findSub_none_abs hf, classOf]
      | some e =>
        simp only [findSub_some_abs hf, Option.isSome_some, if_true]
        exact ⟨abs_of_skel (by simp), rfl⟩

theorem refines_modAck (sys : Sys) (raw : Bytes) (secs : Int) (ids : List Bytes) : Refines sys (.modAck raw secs ids) := by
  unfold Refines
  simp only [Sys.rpc, Spec.apply]
  have hs := parseMods_isSome sys.clock ids (ids.map (fun _ => secs))
  cases hm : parseMods sys.clock ids (ids.map (fun _ => secs)) with
  | none =>
    rw [hm] at hs
    cases h0 : parseMods 0 ids (ids.map (fun _ => secs)) with
    | none => exact ⟨rfl, rfl⟩
    | some _ => rw [h0] at hs; cases hs
  | some mods =>
    rw [hm] at hs
    cases h0 : parseMods 0 ids (ids.map (fun _ => secs)) with
    | none => rw [h0] at hs; cases hs
    | some _ =>
      simp only
      cases hp : parseSubName raw with
      | none => exact ⟨rfl, rfl⟩
      | some n =>
        simp only
        cases hf : sys.findSub n with
        | none => simp [findSub_none_abs hf, classOf]
        | some e =>
          simp only [findSub_some_abs hf, Option.isSome_some, if_true]
          exact ⟨abs_of_skel (by simp), rfl⟩

theorem refines_getSub (sys : Sys) (raw : Bytes) : Refines sys (.getSub raw) := by
  unfold Refines
  simp only [Sys.rpc, Spec.apply]
  cases hp : parseSubName raw with
  | none => exact ⟨rfl, rfl⟩
  | some n =>
    simp only
    cases hf : sys.findSub n with
    | none => simp [findSub_none_abs hf, classOf]
    | some e =>
      simp only [findSub_some_abs hf, classOf]
      refine ⟨abs_of_skel (by simp), ?_⟩
      rw [subRes_eq, (findSub_some hf).2]

end Deltio

namespace Deltio

/-! ### control plane -/

theorem inj_of_nodup_map {α β} (f : α → β) : ∀ (l : List α), (l.map f).Nodup → ∀ {a b}, a ∈ l → b ∈ l → f a = f b → a = b := by
  intro l
  induction l with
  | nil => intro _ a b ha; cases ha
  | cons x rest ih =>
    intro h a b ha hb hab
    simp only [List.map_cons, List.nodup_cons, List.mem_map, not_exists, not_and] at h
    rcases List.mem_cons.mp ha with ha' | ha' <;> rcases List.mem_cons.mp hb with hb' | hb'
    · rw [ha', hb']
    · rw [ha'] at hab; exact absurd hab.symm (h.1 b hb')
    · rw [hb'] at hab; exact absurd hab (h.1 a ha')
    · exact ih h.2 ha' hb' hab

theorem nodup_of_pairwise_lt : ∀ (l : List Nat), l.Pairwise (· < ·) → l.Nodup := by
  intro l h
  exact h.imp (fun hab => Nat.ne_of_lt hab)

theorem topic_names_nodup {sys : Sys} (h : SysInv sys) : (sys.topics.map (·.name)).Nodup := by
  have := h.tnames
  simp only [Sys.tsh, List.map_map] at this
  exact this

theorem topic_tids_nodup {sys : Sys} (h : SysInv sys) : (sys.topics.map (·.tid)).Nodup := by
  have := h.tids
  simp only [Sys.tsh, List.map_map] at this
  exact nodup_of_pairwise_lt _ this

theorem sub_names_nodup {sys : Sys} (h : SysInv sys) : (sys.subs.map (·.name)).Nodup := by
  have := h.snames
  simp only [Sys.ssh, List.map_map] at this
  exact this

theorem sub_sids_nodup {sys : Sys} (h : SysInv sys) : (sys.subs.map (·.sid)).Nodup := by
  have := h.sids
  simp only [Sys.ssh, List.map_map] at this
  exact nodup_of_pairwise_lt _ this

/-- With unique ids, the reference of `t`'s id is `t`'s name. -/
theorem refOf_self {sys : Sys} (h : SysInv sys) {t : TopicEnt} (ht : t ∈ sys.topics) : refOf sys.topics t.tid = some t.name := by
  unfold refOf
  cases hf : sys.topics.find? (·.tid == t.tid) with
  | none =>
    have := List.find?_eq_none.mp hf t ht
    simp at this
  | some t' =>
    have hm := List.mem_of_find?_eq_some hf
    have hp : t'.tid = t.tid := by simpa using List.find?_some hf
    have := inj_of_nodup_map (·.tid) sys.topics (topic_tids_nodup h) hm ht hp
    rw [this]; rfl

/-- With unique names and ids: a subscription's reference is `some n` exactly when it was created on
    the live topic named `n`. -/
theorem refOf_eq_some_iff {sys : Sys} (h : SysInv sys) {t : TopicEnt} (ht : t ∈ sys.topics) (k : Nat) :
    refOf sys.topics k = some t.name ↔ k = t.tid := by
  constructor
  · intro hr
    unfold refOf at hr
    cases hf : sys.topics.find? (·.tid == k) with
    | none => rw [hf] at hr; cases hr
    | some t' =>
      rw [hf] at hr
      have hm := List.mem_of_find?_eq_some hf
      have hp : t'.tid = k := by simpa using List.find?_some hf
      have hn : t'.name = t.name := by simpa using hr
      have := inj_of_nodup_map (·.name) sys.topics (topic_names_nodup h) hm ht hn
      rw [← hp, this]
  · intro hk; subst hk; exact refOf_self h ht

theorem refOf_filter_ne (tid : Nat) : ∀ (topics : List TopicEnt) (k : Nat),
    refOf (topics.filter (·.tid != tid)) k = if k == tid then none else refOf topics k := by
  intro topics k
  unfold refOf
  induction topics with
  | nil => simp
  | cons x rest ih =>
    simp only [List.filter_cons]
    cases hx : x.tid != tid with
    | true =>
      simp only [if_true, List.find?_cons]
      cases hk : x.tid == k with
      | true =>
        have hne : (k == tid) = false := by
          have h1 : x.tid = k := by simpa using hk
          have h2 : x.tid ≠ tid := by simpa using hx
          simp [← h1, h2]
        simp [hne]
      | false => simpa using ih
    | false =>
      simp only [Bool.false_eq_true, if_false, List.find?_cons]
      have h2 : x.tid = tid := by simpa using hx
      cases hk : x.tid == k with
      | true =>
        have h1 : x.tid = k := by simpa using hk
        have : (k == tid) = true := by simp [← h1, h2]
        rw [ih]; simp [this]
      | false => simpa using ih

theorem refOf_append_fresh (topics : List TopicEnt) (x : TopicEnt) (k : Nat) (hk : k ≠ x.tid) :
    refOf (topics ++ [x]) k = refOf topics k := by
  unfold refOf
  rw [List.find?_append]
  cases topics.find? (·.tid == k) with
  | some _ => rfl
  | none =>
    have : (x.tid == k) = false := by simp; exact fun h => hk h.symm
    simp [List.find?_cons, this]

theorem page_map {α β} (p : Paging) (f : α → β) (xs : List α) : p.page (xs.map f) = (p.page xs).map f := by
  simp [Paging.page, List.map_take, List.map_drop]

theorem listPage_map {α β} (p : Paging) (f : α → β) (xs : List α) :
    Sys.listPage (xs.map f) p = ((Sys.listPage xs p).1.map f, (Sys.listPage xs p).2) := by
  simp [Sys.listPage, page_map]

theorem refines_createTopic (sys : Sys) (h : SysInv sys) (raw : Bytes) : Refines sys (.createTopic raw) := by
  unfold Refines
  simp only [Sys.rpc, Spec.apply]
  cases hp : parseTopicName raw with
  | none => exact ⟨rfl, rfl⟩
  | some n =>
    simp only
    cases hf : sys.findTopic n with
    | some t => simp [findTopic_some_mem hf, classOf]
    | none =>
      have hc := (findTopic_none_iff sys n).mp hf
      simp only [hc, Bool.false_eq_true, if_false, classOf, and_true]
      simp only [Sys.abs, List.map_append, List.map_cons, List.map_nil]
      congr 1
      apply List.map_congr_left
      intro e he
      simp only [specOf]
      rw [refOf_append_fresh]
      have := (h.sbound ⟨e.sid, e.name, e.topicId, e.push⟩ (by simp only [Sys.ssh, List.mem_map]; exact ⟨e, he, rfl⟩)).2
      simp only at this
      show e.topicId ≠ sys.nextTopic + 1
      omega

theorem refines_listTopics (sys : Sys) (project : Bytes) (size : Int) (token : Bytes) : Refines sys (.listTopics project size token) := by
  unfold Refines
  simp only [Sys.rpc, Spec.apply]
  cases parsePaging size (bytesToNats token) with
  | none => exact ⟨rfl, rfl⟩
  | some p =>
    simp only
    cases parseProject project with
    | none => exact ⟨rfl, rfl⟩
    | some proj =>
      simp only [classOf, true_and]
      have : (sys.abs.topics.filter (fun n => n.1 == proj)).map displayTopic =
          (sys.topics.filter (fun t => t.name.1 == proj)).map (fun t => displayTopic t.name) := by
        simp only [Sys.abs, List.filter_map, List.map_map]
        rfl
      rw [this]

theorem refines_listSubs (sys : Sys) (project : Bytes) (size : Int) (token : Bytes) : Refines sys (.listSubs project size token) := by
  unfold Refines
  simp only [Sys.rpc, Spec.apply]
  cases parsePaging size (bytesToNats token) with
  | none => exact ⟨rfl, rfl⟩
  | some p =>
    simp only
    cases parseProject project with
    | none => exact ⟨rfl, rfl⟩
    | some proj =>
      simp only [classOf]
      refine ⟨abs_of_skel (by simp), ?_⟩
      have : sys.abs.subs.filter (fun kr => kr.1.1 == proj) =
          (sys.subs.filter (fun e => e.name.1 == proj)).map (fun e => (e.name, specOf sys.topics e)) := by
        simp only [Sys.abs, List.filter_map]
        rfl
      rw [this, listPage_map]
      simp only [List.map_map]
      congr 1
      apply List.map_congr_left
      intro e _
      simp [subRes_eq]

end Deltio

namespace Deltio

theorem refines_deleteTopic (sys : Sys) (h : SysInv sys) (raw : Bytes) : Refines sys (.deleteTopic raw) := by
  unfold Refines
  simp only [Sys.rpc, Spec.apply]
  cases hp : parseTopicName raw with
  | none => exact ⟨rfl, rfl⟩
  | some n =>
    simp only
    cases hf : sys.findTopic n with
    | none => simp [findTopic_none_mem hf, classOf]
    | some t =>
      obtain ⟨ht, hn, hc⟩ := findTopic_some hf
      simp only [hc, if_true, classOf, and_true]
      simp only [Sys.abs]
      congr 1
      · -- topics: filtering by id = filtering by name
        rw [List.filter_map]
        congr 1
        apply List.filter_congr
        intro x hx
        simp only [Function.comp]
        by_cases hxe : x.tid = t.tid
        · have := inj_of_nodup_map (·.tid) sys.topics (topic_tids_nodup h) hx ht hxe
          subst this; simp [hn]
        · have hne : x.name ≠ n := by
            intro hxn
            have := inj_of_nodup_map (·.name) sys.topics (topic_names_nodup h) hx ht (hxn.trans hn.symm)
            exact hxe (by rw [this])
          have h1 : (x.tid != t.tid) = true := by simpa using hxe
          have h2 : (x.name != n) = true := by simpa using hne
          rw [h1, h2]
      · simp only [List.map_map]
        apply List.map_congr_left
        intro e _
        simp only [Function.comp, specOf, refOf_filter_ne]
        have hiff := refOf_eq_some_iff h ht e.topicId
        rw [hn] at hiff
        by_cases hk : e.topicId = t.tid
        · have hr := hiff.mpr hk
          have hb : (e.topicId == t.tid) = true := by simpa using hk
          simp only [hb, hr, if_true, beq_self_eq_true]
        · have hr : refOf sys.topics e.topicId ≠ some n := fun hr => hk (hiff.mp hr)
          have hb : (e.topicId == t.tid) = false := by simpa using hk
          have hb2 : (refOf sys.topics e.topicId == some n) = false := by simpa using hr
          simp only [hb, hb2, Bool.false_eq_true, if_false]

theorem refines_listTopicSubs (sys : Sys) (h : SysInv sys) (raw : Bytes) (size : Int) (token : Bytes) :
    Refines sys (.listTopicSubs raw size token) := by
  unfold Refines
  simp only [Sys.rpc, Spec.apply]
  cases hp : parseTopicName raw with
  | none => exact ⟨rfl, rfl⟩
  | some n =>
    simp only
    cases parsePaging size (bytesToNats token) with
    | none => exact ⟨rfl, rfl⟩
    | some p =>
      simp only
      cases hf : sys.findTopic n with
      | none => simp [findTopic_none_mem hf, classOf]
      | some t =>
        obtain ⟨ht, hn, hc⟩ := findTopic_some hf
        simp only [hc, if_true, classOf, true_and]
        have hatt : t.subs = attachedOf sys.ssh t.tid :=
          h.attach ⟨t.tid, t.name, t.subs⟩ (by simp only [Sys.tsh, List.mem_map]; exact ⟨t, ht, rfl⟩)
        have : (sys.abs.subs.filter (fun kr => kr.2.topic == some n)).map (fun kr => displaySub kr.1) =
            t.subs.map (fun s => displaySub s.1) := by
          rw [hatt]
          simp only [Sys.abs, attachedOf, Sys.ssh, List.filter_map, List.map_map]
          have hfil : sys.subs.filter ((fun kr : Name × SpecSub => kr.2.topic == some n) ∘ fun e => (e.name, specOf sys.topics e)) =
              sys.subs.filter ((fun e : SSh => e.topicId == t.tid) ∘ fun e => ⟨e.sid, e.name, e.topicId, e.push⟩) := by
            apply List.filter_congr
            intro e _
            simp only [Function.comp, specOf]
            have hiff := refOf_eq_some_iff h ht e.topicId
            rw [hn] at hiff
            by_cases hk : e.topicId = t.tid
            · have hr := hiff.mpr hk
              have hb : (e.topicId == t.tid) = true := by simpa using hk
              simp only [hb, hr, beq_self_eq_true]
            · have hr : refOf sys.topics e.topicId ≠ some n := fun hr => hk (hiff.mp hr)
              have hb : (e.topicId == t.tid) = false := by simpa using hk
              have hb2 : (refOf sys.topics e.topicId == some n) = false := by simpa using hr
              simp only [hb, hb2]
          rw [hfil]
          rfl
        rw [this]

theorem refines_deleteSub (sys : Sys) (h : SysInv sys) (raw : Bytes) : Refines sys (.deleteSub raw) := by
  unfold Refines
  simp only [Sys.rpc, Spec.apply]
  cases hp : parseSubName raw with
  | none => exact ⟨rfl, rfl⟩
  | some n =>
    simp only
    cases hf : sys.findSub n with
    | none => simp [findSub_none_abs hf, classOf]
    | some e =>
      obtain ⟨he, hn⟩ := findSub_some hf
      simp only [findSub_some_abs hf, classOf, and_true]
      have htop : (sys.topics.map (fun x => if x.tid == e.topicId then { x with subs := aerase n x.subs } else x)).map (fun t => (t.tid, t.name)) =
          sys.topics.map (fun t => (t.tid, t.name)) := by
        rw [List.map_map]
        apply List.map_congr_left
        intro x _
        simp only [Function.comp]
        split <;> rfl
      simp only [Sys.abs]
      congr 1
      · rw [List.map_map]
        apply List.map_congr_left
        intro x _
        simp only [Function.comp]
        split <;> rfl
      · rw [List.filter_map]
        have hfil : sys.subs.filter (fun x => x.sid != e.sid) =
            sys.subs.filter ((fun kr : Name × SpecSub => kr.1 != n) ∘ fun e => (e.name, specOf sys.topics e)) := by
          apply List.filter_congr
          intro x hx
          simp only [Function.comp]
          by_cases hxe : x.sid = e.sid
          · have := inj_of_nodup_map (·.sid) sys.subs (sub_sids_nodup h) hx he hxe
            subst this; simp [hn]
          · have hne : x.name ≠ n := by
              intro hxn
              have := inj_of_nodup_map (·.name) sys.subs (sub_names_nodup h) hx he (hxn.trans hn.symm)
              exact hxe (by rw [this])
            have h1 : (x.sid != e.sid) = true := by simpa using hxe
            have h2 : (x.name != n) = true := by simpa using hne
            rw [h1, h2]
        rw [hfil]
        apply List.map_congr_left
        intro x _
        simp only [specOf, refOf_congr htop]

set_option hygiene false in
local macro "create_sub_tail" : tactic => `(tactic| (
    cases hf : sys.findTopic tn with
    | none => simp [findTopic_none_mem hf, classOf]
    | some t =>
      obtain ⟨ht, hn, hc⟩ := findTopic_some hf
      simp only [hc, Bool.not_true, Bool.false_eq_true, if_false, hn]
      by_cases hproj : (tn.1 != sn.1) = true
      · simp [hproj, classOf]
      · have hproj' : (tn.1 != sn.1) = false := by simpa using hproj
        simp only [hproj', Bool.false_eq_true, if_false]
        cases hfs : sys.findSub sn with
        | some e => simp [findSub_some_abs hfs, classOf]
        | none =>
          simp only [findSub_none_abs hfs, classOf]
          have htop : (sys.topics.map (fun x => if x.tid == t.tid then
                (if (alookup sn x.subs).isSome then x else { x with subs := x.subs ++ [(sn, sys.nextSub + 1)] }) else x)).map
                (fun t => (t.tid, t.name)) = sys.topics.map (fun t => (t.tid, t.name)) := by
            rw [List.map_map]
            apply List.map_congr_left
            intro x _
            simp only [Function.comp]
            split
            · split <;> rfl
            · rfl
          have href : refOf (sys.topics.map (fun x => if x.tid == t.tid then
                (if (alookup sn x.subs).isSome then x else { x with subs := x.subs ++ [(sn, sys.nextSub + 1)] }) else x)) t.tid = some tn := by
            rw [refOf_congr htop, refOf_self h ht, hn]
          constructor
          · simp only [Sys.abs, List.map_append, List.map_cons, List.map_nil]
            congr 1
            · rw [List.map_map]
              apply List.map_congr_left
              intro x _
              simp only [Function.comp]
              split
              · split <;> rfl
              · rfl
            · congr 1
              · apply List.map_congr_left
                intro x _
                simp only [specOf, refOf_congr htop]
              · simp only [specOf, href]
          · rw [subRes_eq]
            simp only [specOf, href]
  ))

theorem refines_createSub (sys : Sys) (h : SysInv sys) (rawN rawT : Bytes) (ack : Int) (push : Option PushCfg) :
    Refines sys (.createSub rawN rawT ack push) := by
  unfold Refines
  simp only [Sys.rpc, Spec.apply]
  cases hpt : parseTopicName rawT with
  | none => exact ⟨rfl, rfl⟩
  | some tn =>
    simp only
    cases hps : parseSubName rawN with
    | none => exact ⟨rfl, rfl⟩
    | some sn =>
      simp only
      match push with
      | none =>
        simp only []
        create_sub_tail
      | some p =>
        simp only []
        cases hpc : parsePushCfg p with
        | none => exact ⟨rfl, rfl⟩
        | some c =>
          simp only [Option.map_some]
          create_sub_tail

end Deltio

namespace Deltio

theorem refines_all (sys : Sys) (h : SysInv sys) (r : Req) : Refines sys r := by
  cases r with
  | createTopic raw => exact refines_createTopic sys h raw
  | getTopic raw => exact refines_getTopic sys raw
  | deleteTopic raw => exact refines_deleteTopic sys h raw
  | listTopics p s t => exact refines_listTopics sys p s t
  | listTopicSubs raw s t => exact refines_listTopicSubs sys h raw s t
  | createSub n t a p => exact refines_createSub sys h n t a p
  | getSub raw => exact refines_getSub sys raw
  | listSubs p s t => exact refines_listSubs sys p s t
  | deleteSub raw => exact refines_deleteSub sys h raw
  | publish raw m => exact refines_publish sys raw m
  | pull raw m ri => exact refines_pull sys raw m ri
  | ack raw ids => exact refines_ack sys raw ids
  | modAck raw s ids => exact refines_modAck sys raw s ids
  | unimplemented => exact ⟨rfl, rfl⟩

/-- The specification run next to a history: requests are applied, everything else (time, stream
    operations) leaves the two maps alone. -/
def Spec.applyOp (s : Spec) : SysOp → Spec
  | .rpc r => (s.apply r).1
  | _ => s

def Spec.run (s : Spec) (ops : List SysOp) : Spec := ops.foldl Spec.applyOp s

theorem abs_apply (sys : Sys) (h : SysInv sys) (op : SysOp) : (sys.apply op).abs = sys.abs.applyOp op := by
  cases op with
  | rpc r => exact (refines_all sys h r).1
  | advance d => exact abs_of_skel (skel_apply_nonrpc sys _ (by simp))
  | streamOpen k raw mm => exact abs_of_skel (skel_apply_nonrpc sys _ (by simp))
  | streamSend k c => exact abs_of_skel (skel_apply_nonrpc sys _ (by simp))
  | streamRead k => exact abs_of_skel (skel_apply_nonrpc sys _ (by simp))
  | streamCloseReq k => exact abs_of_skel (skel_apply_nonrpc sys _ (by simp))
  | streamDrop k => exact abs_of_skel (skel_apply_nonrpc sys _ (by simp))

theorem abs_execOps : ∀ (ops : List SysOp) (sys : Sys), SysInv sys → (sys.execOps ops).abs = sys.abs.run ops := by
  intro ops
  induction ops with
  | nil => intro sys _; rfl
  | cons op rest ih =>
    intro sys h
    simp only [Sys.execOps, Spec.run, List.foldl_cons]
    have := ih (sys.apply op) (SysInv_apply h op)
    simp only [Sys.execOps, Spec.run] at this
    rw [this, abs_apply sys h op]

end Deltio
