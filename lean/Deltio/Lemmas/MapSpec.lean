import Deltio.Lemmas.SysInv
/-
  The atomic-map specification of the two namespaces (C10) and the abstraction from the system
  model to it. `Spec` is deliberately tiny: the present topic names (in creation order) and, per
  present subscription name, what it was created with and whether the topic it was created on is
  still there. `Spec.apply` says what every request answers and how it changes the two maps; data
  plane requests only have their status class specified here (`accepted`).
-/
namespace Deltio

structure SpecSub where
  topic : Option Name          -- the (live) topic it was created on; `none` once that topic was deleted
  ackSecs : Nat
  push : Option PushCfg
deriving DecidableEq, Repr

structure Spec where
  topics : List Name := []
  subs : List (Name × SpecSub) := []
deriving DecidableEq, Repr

def SpecSub.res (n : Name) (r : SpecSub) : SubRes :=
  { name := displaySub n
    topic := match r.topic with
      | some t => displayTopic t
      | none => deletedTopicStr
    ackSecs := r.ackSecs
    push := r.push }

/-- What a response says, up to the data-plane content (message ids / deliveries). -/
inductive RClass where
  | err (s : Status)
  | empty
  | topic (name : Bytes)
  | names (ns : List Bytes) (next : List Nat)
  | sub (r : SubRes)
  | subs (rs : List SubRes) (next : List Nat)
  | accepted
deriving DecidableEq, Repr

def classOf : Resp → RClass
  | .err s => .err s
  | .empty => .empty
  | .topic n => .topic n
  | .names ns nx => .names ns nx
  | .sub r => .sub r
  | .subs rs nx => .subs rs nx
  | .ids _ => .accepted
  | .msgs _ => .accepted

/-- The specification: each request is ONE atomic operation on the two maps. The order of the
    checks (which field is validated first) is the handlers'. -/
def Spec.apply (s : Spec) : Req → Spec × RClass
  | .createTopic raw =>
    match parseTopicName raw with
    | none => (s, .err .invalidArgument)
    | some n =>
      if s.topics.contains n then (s, .err .alreadyExists)
      else ({ s with topics := s.topics ++ [n] }, .topic (displayTopic n))
  | .getTopic raw =>
    match parseTopicName raw with
    | none => (s, .err .invalidArgument)
    | some n => if s.topics.contains n then (s, .topic (displayTopic n)) else (s, .err .notFound)
  | .deleteTopic raw =>
    match parseTopicName raw with
    | none => (s, .err .invalidArgument)
    | some n =>
      if s.topics.contains n then
        ({ topics := s.topics.filter (· != n),
           subs := s.subs.map (fun kr => (kr.1, if kr.2.topic == some n then { kr.2 with topic := none } else kr.2)) }, .empty)
      else (s, .err .notFound)
  | .listTopics project size token =>
    match parsePaging size (bytesToNats token) with
    | none => (s, .err .invalidArgument)
    | some p =>
      match parseProject project with
      | none => (s, .err .invalidArgument)
      | some proj =>
        let pg := Sys.listPage ((s.topics.filter (fun n => n.1 == proj)).map displayTopic) p
        (s, .names pg.1 pg.2)
  | .listTopicSubs raw size token =>
    match parseTopicName raw with
    | none => (s, .err .invalidArgument)
    | some n =>
      match parsePaging size (bytesToNats token) with
      | none => (s, .err .invalidArgument)
      | some p =>
        if s.topics.contains n then
          let pg := Sys.listPage ((s.subs.filter (fun kr => kr.2.topic == some n)).map (fun kr => displaySub kr.1)) p
          (s, .names pg.1 pg.2)
        else (s, .err .notFound)
  | .createSub rawName rawTopic ackSecs push =>
    match parseTopicName rawTopic with
    | none => (s, .err .invalidArgument)
    | some tn =>
      match parseSubName rawName with
      | none => (s, .err .invalidArgument)
      | some sn =>
        let pushParsed : Option (Option PushCfg) := match push with
          | none => some none
          | some p => (parsePushCfg p).map some
        match pushParsed with
        | none => (s, .err .invalidArgument)
        | some pc =>
          if !s.topics.contains tn then (s, .err .notFound)
          else if tn.1 != sn.1 then (s, .err .invalidArgument)
          else match alookup sn s.subs with
            | some _ => (s, .err .alreadyExists)
            | none =>
              let r : SpecSub := { topic := some tn, ackSecs := effAckDeadlineSecs ackSecs, push := pc }
              ({ s with subs := s.subs ++ [(sn, r)] }, .sub (r.res sn))
  | .getSub raw =>
    match parseSubName raw with
    | none => (s, .err .invalidArgument)
    | some n =>
      match alookup n s.subs with
      | none => (s, .err .notFound)
      | some r => (s, .sub (r.res n))
  | .listSubs project size token =>
    match parsePaging size (bytesToNats token) with
    | none => (s, .err .invalidArgument)
    | some p =>
      match parseProject project with
      | none => (s, .err .invalidArgument)
      | some proj =>
        let pg := Sys.listPage (s.subs.filter (fun kr => kr.1.1 == proj)) p
        (s, .subs (pg.1.map (fun kr => kr.2.res kr.1)) pg.2)
  | .deleteSub raw =>
    match parseSubName raw with
    | none => (s, .err .invalidArgument)
    | some n =>
      match alookup n s.subs with
      | none => (s, .err .notFound)
      | some _ => ({ s with subs := s.subs.filter (fun kr => kr.1 != n) }, .empty)
  | .publish raw _ =>
    match parseTopicName raw with
    | none => (s, .err .invalidArgument)
    | some n => if s.topics.contains n then (s, .accepted) else (s, .err .notFound)
  | .pull raw _ _ =>
    match parseSubName raw with
    | none => (s, .err .invalidArgument)
    | some n => if (alookup n s.subs).isSome then (s, .accepted) else (s, .err .notFound)
  | .ack raw ids =>
    match parseAckIds ids with
    | none => (s, .err .invalidArgument)
    | some _ =>
      match parseSubName raw with
      | none => (s, .err .invalidArgument)
      | some n => if (alookup n s.subs).isSome then (s, .empty) else (s, .err .notFound)
  | .modAck raw secs ids =>
    match parseMods 0 ids (ids.map (fun _ => secs)) with
    | none => (s, .err .invalidArgument)
    | some _ =>
      match parseSubName raw with
      | none => (s, .err .invalidArgument)
      | some n => if (alookup n s.subs).isSome then (s, .empty) else (s, .err .notFound)
  | .unimplemented => (s, .err .unimplemented)

/-! ### the abstraction -/

def refOf (topics : List TopicEnt) (tid : Nat) : Option Name := (topics.find? (·.tid == tid)).map (·.name)

def specOf (topics : List TopicEnt) (e : SubEnt) : SpecSub :=
  { topic := refOf topics e.topicId, ackSecs := e.ackSecs, push := e.push }

def Sys.abs (sys : Sys) : Spec :=
  { topics := sys.topics.map (·.name), subs := sys.subs.map (fun e => (e.name, specOf sys.topics e)) }

end Deltio

namespace Deltio

/-! ### basic facts -/

theorem abs_of_skel {a b : Sys} (h : a.skel = b.skel) : a.abs = b.abs := by
  have h1 := congrArg Skel.topics h
  have h3 := congrArg Skel.subIds h
  simp only [Sys.skel] at h1 h3
  have hs : a.subs.map (fun e => (e.name, specOf a.topics e)) = b.subs.map (fun e => (e.name, specOf b.topics e)) := by
    have := congrArg (List.map (fun x : Nat × Name × Nat × Nat × Option PushCfg =>
      ((x.2.1, { topic := refOf b.topics x.2.2.1, ackSecs := x.2.2.2.1, push := x.2.2.2.2 }) : Name × SpecSub))) h3
    simp only [List.map_map] at this
    rw [h1]
    exact this
  unfold Sys.abs
  rw [hs, h1]

theorem subRes_eq (sys : Sys) (e : SubEnt) : sys.subRes e = (specOf sys.topics e).res e.name := by
  simp only [Sys.subRes, SpecSub.res, specOf, refOf, Sys.findTopicById]
  cases sys.topics.find? (·.tid == e.topicId) <;> rfl

theorem findTopic_none_iff (sys : Sys) (n : Name) : sys.findTopic n = none ↔ sys.abs.topics.contains n = false := by
  simp only [Sys.findTopic, Sys.abs, List.find?_eq_none]
  constructor
  · intro h
    cases hc : (sys.topics.map (·.name)).contains n with
    | false => rfl
    | true =>
      rw [List.contains_iff_mem, List.mem_map] at hc
      obtain ⟨t, ht, hn⟩ := hc
      exact absurd (by simp [hn]) (h t ht)
  · intro h t ht hn
    have : (sys.topics.map (·.name)).contains n = true := by
      rw [List.contains_iff_mem, List.mem_map]
      exact ⟨t, ht, by simpa using hn⟩
    rw [h] at this; cases this

theorem findTopic_some {sys : Sys} {n : Name} {t : TopicEnt} (h : sys.findTopic n = some t) :
    t ∈ sys.topics ∧ t.name = n ∧ sys.abs.topics.contains n = true := by
  have hm := List.mem_of_find?_eq_some h
  have hp := List.find?_some h
  have hn : t.name = n := by simpa using hp
  refine ⟨hm, hn, ?_⟩
  cases hc : sys.abs.topics.contains n with
  | true => rfl
  | false => rw [(findTopic_none_iff sys n).mpr hc] at h; cases h

theorem alookup_map_find (topics : List TopicEnt) (n : Name) : ∀ (l : List SubEnt),
    alookup n (l.map (fun e => (e.name, specOf topics e))) = (l.find? (·.name == n)).map (specOf topics) := by
  intro l
  induction l with
  | nil => rfl
  | cons e rest ih =>
    simp only [List.map_cons, alookup, List.find?_cons]
    cases h : e.name == n <;> simp [ih]

theorem findSub_abs (sys : Sys) (n : Name) : alookup n sys.abs.subs = (sys.findSub n).map (specOf sys.topics) :=
  alookup_map_find sys.topics n sys.subs

theorem findSub_some {sys : Sys} {n : Name} {e : SubEnt} (h : sys.findSub n = some e) : e ∈ sys.subs ∧ e.name = n := by
  refine ⟨List.mem_of_find?_eq_some h, ?_⟩
  simpa using List.find?_some h

theorem parseMods_isSome (now : Nat) : ∀ (bs : List Bytes) (ns : List Int),
    (parseMods now bs ns).isSome = (parseMods 0 bs ns).isSome := by
  intro bs
  induction bs with
  | nil => intro ns; simp [parseMods]
  | cons b rest ih =>
    intro ns
    cases ns with
    | nil => simp [parseMods]
    | cons k ks =>
      simp only [parseMods]
      cases parseAckId b with
      | none => rfl
      | some a =>
        cases parseExtension k with
        | error => rfl
        | nack => simp [ih ks]
        | secs j => simp [ih ks]

end Deltio

namespace Deltio

theorem findTopic_none_mem {sys : Sys} {n : Name} (h : sys.findTopic n = none) : n ∉ sys.abs.topics := by
  have := (findTopic_none_iff sys n).mp h
  intro hm
  rw [← List.contains_iff_mem] at hm
  rw [this] at hm; cases hm

theorem findTopic_some_mem {sys : Sys} {n : Name} {t : TopicEnt} (h : sys.findTopic n = some t) : n ∈ sys.abs.topics := by
  have := (findTopic_some h).2.2
  rwa [List.contains_iff_mem] at this

end Deltio

namespace Deltio

theorem refOf_via_map (topics : List TopicEnt) (k : Nat) :
    refOf topics k = ((topics.map (fun t => (t.tid, t.name))).find? (·.1 == k)).map (·.2) := by
  unfold refOf
  induction topics with
  | nil => rfl
  | cons t rest ih =>
    simp only [List.map_cons, List.find?_cons]
    cases h : t.tid == k <;> simp [ih]

theorem refOf_congr {ta tb : List TopicEnt} (h : tb.map (fun t => (t.tid, t.name)) = ta.map (fun t => (t.tid, t.name))) (k : Nat) :
    refOf tb k = refOf ta k := by
  rw [refOf_via_map, refOf_via_map, h]

/-- The abstraction only looks at (id, name) of the topics and (name, topic id, ack deadline, push
    configuration) of the subscriptions. -/
theorem abs_congr {a b : Sys} (ht : b.topics.map (fun t => (t.tid, t.name)) = a.topics.map (fun t => (t.tid, t.name)))
    (hs : b.subs.map (fun e => (e.name, e.topicId, e.ackSecs, e.push)) = a.subs.map (fun e => (e.name, e.topicId, e.ackSecs, e.push))) :
    b.abs = a.abs := by
  have h1 : b.topics.map (·.name) = a.topics.map (·.name) := by
    have := congrArg (List.map (fun x : Nat × Name => x.2)) ht
    simp only [List.map_map] at this
    exact this
  have h2 : b.subs.map (fun e => (e.name, specOf b.topics e)) = a.subs.map (fun e => (e.name, specOf a.topics e)) := by
    have := congrArg (List.map (fun x : Name × Nat × Nat × Option PushCfg =>
      ((x.1, { topic := refOf a.topics x.2.1, ackSecs := x.2.2.1, push := x.2.2.2 }) : Name × SpecSub))) hs
    simp only [List.map_map] at this
    have hb : (fun e : SubEnt => (e.name, specOf b.topics e)) = (fun e : SubEnt => (e.name, specOf a.topics e)) := by
      funext e; simp [specOf, refOf_congr ht]
    rw [hb]
    exact this
  unfold Sys.abs
  rw [h1, h2]

end Deltio

namespace Deltio

/-! ### facts about the specification itself -/

theorem alookup_append {α β} [BEq α] (k : α) (l r : List (α × β)) :
    alookup k (l ++ r) = (alookup k l).or (alookup k r) := by
  induction l with
  | nil => simp [alookup]
  | cons x rest ih =>
    obtain ⟨k', v⟩ := x
    simp only [List.cons_append, alookup]
    split <;> simp [ih]

theorem alookup_map_snd {α β} [BEq α] (k : α) (f : α × β → β) (l : List (α × β)) :
    alookup k (l.map (fun kr => (kr.1, f kr))) = (l.find? (fun kr => kr.1 == k)).map f := by
  induction l with
  | nil => rfl
  | cons x rest ih =>
    obtain ⟨k', v⟩ := x
    simp only [List.map_cons, alookup, List.find?_cons]
    cases h : k' == k <;> simp [ih]

theorem alookup_eq_find {α β} [BEq α] (k : α) (l : List (α × β)) :
    alookup k l = (l.find? (fun kr => kr.1 == k)).map (·.2) := by
  induction l with
  | nil => rfl
  | cons x rest ih =>
    obtain ⟨k', v⟩ := x
    simp only [alookup, List.find?_cons]
    cases h : k' == k <;> simp [ih]

theorem alookup_filter_ne {α β} [BEq α] [LawfulBEq α] (k n : α) (hk : k ≠ n) (l : List (α × β)) :
    alookup k (l.filter (fun kr => kr.1 != n)) = alookup k l := by
  induction l with
  | nil => rfl
  | cons x rest ih =>
    obtain ⟨k', v⟩ := x
    simp only [List.filter_cons]
    by_cases h : k' = n
    · subst h
      have : (k' == k) = false := by simpa using fun h => hk h.symm
      simp [alookup, this, ih]
    · have hne : (k' != n) = true := by simpa using h
      simp only [hne, if_true, alookup]
      split <;> simp [ih]

/-- **Once its topic is gone, a subscription never has a topic again.** Whatever the next request is
    (including re-creating a topic of the same name), a subscription whose reference is `none` keeps
    `none` for as long as it exists. -/
theorem Spec.deleted_topic_is_forever (s : Spec) (r : Req) (k : Name) (e : SpecSub)
    (hk : alookup k s.subs = some e) (hn : e.topic = none) :
    alookup k (s.apply r).1.subs = none ∨ ∃ e', alookup k (s.apply r).1.subs = some e' ∧ e'.topic = none := by
  have keep : alookup k s.subs = none ∨ ∃ e', alookup k s.subs = some e' ∧ e'.topic = none := .inr ⟨e, hk, hn⟩
  cases r with
  | createTopic raw => simp only [Spec.apply]; (repeat' split) <;> exact keep
  | getTopic raw => simp only [Spec.apply]; (repeat' split) <;> exact keep
  | listTopics p sz t => simp only [Spec.apply]; (repeat' split) <;> exact keep
  | listTopicSubs raw sz t => simp only [Spec.apply]; (repeat' split) <;> exact keep
  | getSub raw => simp only [Spec.apply]; (repeat' split) <;> exact keep
  | listSubs p sz t => simp only [Spec.apply]; (repeat' split) <;> exact keep
  | publish raw m => simp only [Spec.apply]; (repeat' split) <;> exact keep
  | pull raw m ri => simp only [Spec.apply]; (repeat' split) <;> exact keep
  | ack raw ids => simp only [Spec.apply]; (repeat' split) <;> exact keep
  | modAck raw secs ids => simp only [Spec.apply]; (repeat' split) <;> exact keep
  | unimplemented => exact keep
  | deleteTopic raw =>
    simp only [Spec.apply]
    split
    · exact keep
    · split
      · rename_i n _ _
        refine .inr ?_
        simp only
        rw [alookup_map_snd k (fun (kr : Name × SpecSub) => if kr.2.topic == some n then { kr.2 with topic := none } else kr.2)]
        rw [alookup_eq_find] at hk
        cases hf : s.subs.find? (fun kr => kr.1 == k) with
        | none => rw [hf] at hk; cases hk
        | some kr =>
          rw [hf] at hk
          simp only [Option.map_some, Option.some.injEq] at hk
          refine ⟨_, rfl, ?_⟩
          simp only
          split
          · rfl
          · rw [hk]; exact hn
      · exact keep
  | deleteSub raw =>
    simp only [Spec.apply]
    split
    · exact keep
    · rename_i n _
      split
      · exact keep
      · by_cases hkn : k = n
        · subst hkn
          refine .inl ?_
          simp only
          rw [alookup_eq_find]
          have : (s.subs.filter (fun kr => kr.1 != k)).find? (fun kr => kr.1 == k) = none := by
            apply List.find?_eq_none.mpr
            intro x hx
            have := (List.mem_filter.mp hx).2
            simpa using this
          rw [this]; rfl
        · refine .inr ⟨e, ?_, hn⟩
          simp only
          rw [alookup_filter_ne k n hkn]; exact hk
  | createSub rawN rawT ack push =>
    simp only [Spec.apply]
    (repeat' split) <;> first
      | exact keep
      | (refine .inr ⟨e, ?_, hn⟩
         simp only
         rw [alookup_append, hk]; rfl)

end Deltio
