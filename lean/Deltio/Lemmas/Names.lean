import Deltio.Model.Names
/-
  Helper lemmas for the name parsers (C18).
-/
namespace Deltio

theorem stripPrefix_eq_some {p s r : Bytes} (h : stripPrefix p s = some r) : s = p ++ r := by
  unfold stripPrefix at h
  split at h
  · rename_i hp
    have := (List.prefix_iff_eq_append.mp (List.isPrefixOf_iff_prefix.mp hp))
    simp at h
    rw [← h]; exact this.symm
  · simp at h

theorem stripPrefix_append (p r : Bytes) : stripPrefix p (p ++ r) = some r := by
  unfold stripPrefix
  have : p.isPrefixOf (p ++ r) = true :=
    List.isPrefixOf_iff_prefix.mpr (List.prefix_append p r)
  simp [this]

theorem mem_takeWhile {α} (p : α → Bool) (l : List α) : ∀ x ∈ l.takeWhile p, p x = true := by
  induction l with
  | nil => simp
  | cons a l ih =>
    intro x hx
    by_cases ha : p a = true
    · simp [List.takeWhile_cons_of_pos ha] at hx
      rcases hx with rfl | hx
      · exact ha
      · exact ih x hx
    · simp [List.takeWhile_cons_of_neg ha] at hx

theorem dropWhile_eq_self_of_head {α} (p : α → Bool) (l : List α)
    (h : ∀ a, l.head? = some a → p a = false) : l.dropWhile p = l := by
  cases l with
  | nil => rfl
  | cons a l =>
    have : ¬ p a = true := by simp [h a rfl]
    exact List.dropWhile_cons_of_neg this

theorem head_dropWhile_not {α} (p : α → Bool) (l : List α) :
    ∀ a, (l.dropWhile p).head? = some a → p a = false := by
  intro a ha
  have := List.head?_dropWhile_not p l
  rw [ha] at this
  exact this

/-- `(l.reverse.dropWhile p).reverse` is a prefix of `l`; its head is the head of `l`
    unless it is empty. -/
theorem head_rtrim {α} (p : α → Bool) (l : List α) (a : α)
    (h : ((l.reverse.dropWhile p).reverse).head? = some a) : l.head? = some a := by
  have hs : (l.reverse.dropWhile p) <:+ l.reverse := List.dropWhile_suffix p
  have hp : (l.reverse.dropWhile p).reverse <+: l := by
    have := hs.reverse
    simpa using this
  obtain ⟨t, ht⟩ := hp
  rw [← ht]
  cases hx : (l.reverse.dropWhile p).reverse with
  | nil => rw [hx] at h; simp at h
  | cons b bs => rw [hx] at h; simp at h; simp [h]

theorem trimSlashes_noEdge (r : Bytes) :
    (∀ a, (trimSlashes r).head? = some a → (a == slash) = false) ∧
    (∀ a, (trimSlashes r).getLast? = some a → (a == slash) = false) := by
  unfold trimSlashes
  constructor
  · intro a ha
    have h1 := head_rtrim (· == slash) (r.dropWhile (· == slash)) a ha
    exact head_dropWhile_not (· == slash) r a h1
  · intro a ha
    rw [List.getLast?_reverse] at ha
    exact head_dropWhile_not (· == slash) _ a ha

theorem trimSlashes_of_noEdge (t : Bytes)
    (h1 : ∀ a, t.head? = some a → (a == slash) = false)
    (h2 : ∀ a, t.getLast? = some a → (a == slash) = false) : trimSlashes t = t := by
  unfold trimSlashes
  rw [dropWhile_eq_self_of_head _ t h1]
  rw [dropWhile_eq_self_of_head _ t.reverse (by rw [List.head?_reverse]; exact h2)]
  simp

theorem trimSlashes_idem (r : Bytes) : trimSlashes (trimSlashes r) = trimSlashes r :=
  trimSlashes_of_noEdge _ (trimSlashes_noEdge r).1 (trimSlashes_noEdge r).2

theorem takeWhile_ne_slash_append (p rest : Bytes) (hp : slash ∉ p) :
    (p ++ slash :: rest).takeWhile (· != slash) = p := by
  rw [List.takeWhile_append_of_pos]
  · simp
  · intro a ha
    have : a ≠ slash := fun h => hp (h ▸ ha)
    simpa using this

theorem dropWhile_ne_slash_append (p rest : Bytes) (hp : slash ∉ p) :
    (p ++ slash :: rest).dropWhile (· != slash) = slash :: rest := by
  rw [List.dropWhile_append_of_pos]
  · simp
  · intro a ha
    have : a ≠ slash := fun h => hp (h ▸ ha)
    simpa using this

end Deltio
