import Deltio.Lemmas.SubsOk
import Deltio.Lemmas.Expire
/-
  The blocking-pull loop and the timer loop of the system model: expiry facts, `nextTimer`
  minimality, the loop's frame property, fuel sufficiency, and the empty-response lemma.
-/
namespace Deltio

/-- A non-empty backlog yields a non-empty pull (capacity 0 still hands out one message). -/
theorem pull_nonempty (s : SubState) (max16 now : Nat) (hd : s.deleted = false) (hb : s.backlog ≠ []) :
    (s.turn (.pull max16 now)).2.delivered ≠ [] := by
  have h := (pull_turn s max16 now hd).2
  rw [h, pullN_eq]
  have hl : 0 < s.backlog.length := List.length_pos_iff.mpr hb
  have hn : 0 < pullCount max16 s.backlog.length := by unfold pullCount; omega
  intro hc
  have := congrArg List.length hc
  simp only [mkDelivs_length, List.length_take, List.length_nil] at this
  omega

end Deltio

namespace Deltio

/-- An expiry turn either changes nothing or leaves a non-empty backlog. -/
theorem expire_same_or_nonempty (s : SubState) (now : Nat) :
    (s.turn (.expire now)).1 = s ∨ (s.turn (.expire now)).1.backlog ≠ [] := by
  simp only [SubState.turn]
  split
  · exact Or.inl rfl
  · split
    · exact Or.inl rfl
    · rename_i out expired _ hne
      right
      simp only
      cases expired with
      | nil => simp at hne
      | cons x xs => simp

theorem expire_hits {s : SubState} (h : SubInv s) (d now : Nat) (hn : s.out.nextExpiration = some d) (hd : d ≤ now) :
    (s.turn (.expire now)).1.backlog ≠ [] := by
  unfold Tracker.nextExpiration at hn
  cases hx : s.out.exps with
  | nil => rw [hx] at hn; simp at hn
  | cons k rest =>
    rw [hx] at hn
    simp only [List.head?_cons, Option.map_some, Option.some.injEq] at hn
    obtain ⟨dv, hdv, hk⟩ := (h.out.agree k).mp (by rw [hx]; simp)
    have hdl : dv.deadline ≤ now := by
      have : dv.deadline = k.1 := by rw [← hk]; rfl
      omega
    have := (at_deadline h dv hdv now hdl).1
    intro hc
    rw [hc] at this
    simp at this

theorem subExpire_self (sys : Sys) (sid : Nat) (st : SubState) (h : sys.stateOf sid = some st) :
    (sys.subExpire sid).stateOf sid = some (st.turn (.expire sys.clock)).1 := by
  unfold Sys.stateOf at h
  cases hf : sys.findSubById sid with
  | none => rw [hf] at h; simp at h
  | some e =>
    rw [hf] at h
    simp only [Option.map_some, Option.some.injEq] at h
    subst h
    simp only [Sys.subExpire, hf]
    unfold Sys.stateOf Sys.findSubById Sys.setSubState
    simp only
    unfold Sys.findSubById at hf
    rw [find_map_set sid _ sys.subs e hf]
    rfl

theorem subExpire_streams (sys : Sys) (sid : Nat) : (sys.subExpire sid).streams = sys.streams := by
  unfold Sys.subExpire; split <;> rfl

theorem subTurn_out (sys : Sys) (sid : Nat) (t : SubTurn) (st : SubState) (h : sys.stateOf sid = some st) :
    (sys.subTurn sid t).2 = (st.turn t).2 := by
  unfold Sys.stateOf at h
  cases hf : sys.findSubById sid with
  | none => rw [hf] at h; simp at h
  | some e =>
    rw [hf] at h
    simp only [Option.map_some, Option.some.injEq] at h
    subst h
    simp only [Sys.subTurn, hf]

/-- The timer loop never leaves the clock before its target. -/
theorem advanceTo_clock_ge (frac : Nat) : ∀ (fuel target : Nat) (sys : Sys), target ≤ (Sys.advanceTo frac fuel target sys).clock := by
  intro fuel
  induction fuel with
  | zero => intro target sys; simp only [Sys.advanceTo]; omega
  | succ n ih =>
    intro target sys
    unfold Sys.advanceTo
    split
    · split
      · exact ih _ _
      · simp only; omega
    · simp only; omega

/-- Through the timer loop, with no StreamingPull open, a subscription's actor state is either
    untouched or has a non-empty backlog. -/
theorem advanceTo_J (frac sid : Nat) (st0 : SubState) : ∀ (fuel target : Nat) (sys : Sys), sys.streams = [] →
    (∃ st, sys.stateOf sid = some st ∧ (st = st0 ∨ st.backlog ≠ [])) →
    (Sys.advanceTo frac fuel target sys).streams = [] ∧
    ∃ st, (Sys.advanceTo frac fuel target sys).stateOf sid = some st ∧ (st = st0 ∨ st.backlog ≠ []) := by
  intro fuel
  induction fuel with
  | zero => intro target sys hs hj; exact ⟨hs, hj⟩
  | succ n ih =>
    intro target sys hs hj
    unfold Sys.advanceTo
    split
    · rename_i t x _
      split
      · -- the timer of subscription `x` fires
        have hs1 : (({ sys with clock := max sys.clock (t + frac) } : Sys).subExpire x).streams = [] := by
          rw [subExpire_streams]; exact hs
        refine ih target _ ?_ ?_
        · rw [drainSub_nostreams _ _ hs1]; exact hs1
        rw [drainSub_nostreams _ _ hs1]
        obtain ⟨st, hst, hor⟩ := hj
        by_cases hx : sid = x
        · subst hx
          have hst' : ({ sys with clock := max sys.clock (t + frac) } : Sys).stateOf sid = some st := hst
          refine ⟨_, subExpire_self _ sid st hst', ?_⟩
          rcases expire_same_or_nonempty st (max sys.clock (t + frac)) with h1 | h1
          · rw [h1]; exact hor
          · exact Or.inr h1
        · refine ⟨st, ?_, hor⟩
          rw [subExpire_other _ x sid hx]; exact hst
      · exact ⟨hs, hj⟩
    · exact ⟨hs, hj⟩

end Deltio

namespace Deltio

/-- `nextTimer` as a fold, with its accumulator exposed. -/
def timerStep (best : Option (Nat × Nat)) (e : SubEnt) : Option (Nat × Nat) :=
  match e.st.out.nextExpiration with
  | none => best
  | some d =>
    let t := ceilMs d
    match best with
    | none => some (t, e.sid)
    | some (bt, _) => if t < bt then some (t, e.sid) else best

theorem nextTimer_eq (sys : Sys) : sys.nextTimer = sys.subs.foldl timerStep none := rfl

theorem timer_fold_spec : ∀ (l : List SubEnt) (best : Option (Nat × Nat)),
    (l.foldl timerStep best = none → best = none ∧ ∀ e ∈ l, e.st.out.nextExpiration = none) ∧
    (∀ t x, l.foldl timerStep best = some (t, x) →
        (∀ bt bx, best = some (bt, bx) → t ≤ bt) ∧ ∀ e ∈ l, ∀ d, e.st.out.nextExpiration = some d → t ≤ ceilMs d) := by
  intro l
  induction l with
  | nil =>
    intro best
    refine ⟨fun h => ⟨h, by simp⟩, ?_⟩
    intro t x h
    simp only [List.foldl_nil] at h
    refine ⟨?_, by simp⟩
    intro bt bx hb; rw [hb] at h; cases h; omega
  | cons e rest ih =>
    intro best
    simp only [List.foldl_cons]
    obtain ⟨i1, i2⟩ := ih (timerStep best e)
    constructor
    · intro h
      obtain ⟨hb, hr⟩ := i1 h
      unfold timerStep at hb
      cases hn : e.st.out.nextExpiration with
      | none =>
        rw [hn] at hb
        refine ⟨hb, ?_⟩
        intro e' he'
        simp only [List.mem_cons] at he'
        rcases he' with rfl | he'
        · exact hn
        · exact hr e' he'
      | some d =>
        rw [hn] at hb
        simp only at hb
        cases best with
        | none => simp at hb
        | some b => obtain ⟨bt, bx⟩ := b; simp only at hb; split at hb <;> simp at hb
    · intro t x h
      obtain ⟨hb, hr⟩ := i2 t x h
      unfold timerStep at hb
      cases hn : e.st.out.nextExpiration with
      | none =>
        rw [hn] at hb
        refine ⟨hb, ?_⟩
        intro e' he' d hd
        simp only [List.mem_cons] at he'
        rcases he' with rfl | he'
        · rw [hn] at hd; cases hd
        · exact hr e' he' d hd
      | some d0 =>
        rw [hn] at hb
        simp only at hb
        cases best with
        | none =>
          simp only at hb
          have h0 := hb (ceilMs d0) e.sid rfl
          refine ⟨(by intro bt bx hc; cases hc), ?_⟩
          intro e' he' d hd
          simp only [List.mem_cons] at he'
          rcases he' with rfl | he'
          · rw [hn] at hd; cases hd; exact h0
          · exact hr e' he' d hd
        | some b =>
          obtain ⟨bt, bx⟩ := b
          simp only at hb
          by_cases hlt : ceilMs d0 < bt
          · simp only [hlt, ↓reduceIte] at hb
            have h0 := hb (ceilMs d0) e.sid rfl
            refine ⟨(by intro bt' bx' hc; cases hc; omega), ?_⟩
            intro e' he' d hd
            simp only [List.mem_cons] at he'
            rcases he' with rfl | he'
            · rw [hn] at hd; cases hd; exact h0
            · exact hr e' he' d hd
          · simp only [hlt, ↓reduceIte] at hb
            have h0 := hb bt bx rfl
            refine ⟨(by intro bt' bx' hc; cases hc; exact h0), ?_⟩
            intro e' he' d hd
            simp only [List.mem_cons] at he'
            rcases he' with rfl | he'
            · rw [hn] at hd; cases hd; omega
            · exact hr e' he' d hd

theorem nextTimer_none {sys : Sys} (h : sys.nextTimer = none) : ∀ e ∈ sys.subs, e.st.out.nextExpiration = none := by
  rw [nextTimer_eq] at h
  exact ((timer_fold_spec sys.subs none).1 h).2

theorem nextTimer_min {sys : Sys} {t x : Nat} (h : sys.nextTimer = some (t, x)) :
    ∀ e ∈ sys.subs, ∀ d, e.st.out.nextExpiration = some d → t ≤ ceilMs d := by
  rw [nextTimer_eq] at h
  exact ((timer_fold_spec sys.subs none).2 t x h).2

/-- The timer loop has run to completion: no armed timer is due at or before `target`. -/
def Sys.settled (frac target : Nat) (sys : Sys) : Prop := ∀ t x, sys.nextTimer = some (t, x) → target < t + frac

end Deltio

namespace Deltio

theorem stateOf_of_find {sys : Sys} {sid : Nat} {e : SubEnt} (h : sys.findSubById sid = some e) : sys.stateOf sid = some e.st := by
  simp [Sys.stateOf, h]

theorem find_of_stateOf {sys : Sys} {sid : Nat} {st : SubState} (h : sys.stateOf sid = some st) :
    ∃ e, sys.findSubById sid = some e ∧ e.st = st := by
  unfold Sys.stateOf at h
  cases hf : sys.findSubById sid with
  | none => rw [hf] at h; simp at h
  | some e => rw [hf] at h; simp at h; exact ⟨e, rfl, h⟩

theorem SubsOk_stateOf {sys : Sys} (h : SubsOk sys) {sid : Nat} {st : SubState} (hs : sys.stateOf sid = some st) :
    SubInv st ∧ st.deleted = false := by
  obtain ⟨e, he, rfl⟩ := find_of_stateOf hs
  exact h e (findSubById_mem he)

/-- C15, empty-response rule at system level (no StreamingPull open): a Pull without
    `return_immediately` on an existing subscription answers with an empty response only if the
    clock has reached its wait limit. `hdone` says that the model's timer loop was not cut short by
    its fuel bound (10^6 timer firings in one wait). -/
theorem blocking_pull_settled (sys : Sys) (raw : Bytes) (mx : Int) (n : Name) (e : SubEnt)
    (hp : parseSubName raw = some n) (hf : sys.findSub n = some e) (hid : ∃ e', sys.findSubById e.sid = some e')
    (hs : sys.streams = []) (hok : SubsOk sys)
    (hdone : ∀ t, Sys.settled (sys.clock % 1000) t
        (Sys.advanceTo (sys.clock % 1000) 1000000 t (sys.subTurn e.sid (.pull (i32AsU16 mx) sys.clock)).1))
    (hempty : (sys.rpc (.pull raw mx false)).2 = .msgs []) :
    ceilMs (sys.clock + pullLimitUs) + sys.clock % 1000 ≤ (sys.rpc (.pull raw mx false)).1.clock := by
  obtain ⟨e0, he0⟩ := hid
  have hst0 := stateOf_of_find he0
  -- the first pull turn
  have hok1 : SubsOk (sys.subTurn e.sid (.pull (i32AsU16 mx) sys.clock)).1 := SubsOk_subTurn hok _ _ (by simp)
  have hs1 : (sys.subTurn e.sid (.pull (i32AsU16 mx) sys.clock)).1.streams = [] := by rw [subTurn_streams]; exact hs
  have hst1 := stateOf_subTurn_self sys e.sid (.pull (i32AsU16 mx) sys.clock) e0.st hst0
  have hclk1 : (sys.subTurn e.sid (.pull (i32AsU16 mx) sys.clock)).1.clock = sys.clock := by
    unfold Sys.subTurn; split <;> rfl
  simp only [Sys.rpc, hp, hf] at hempty ⊢
  split at hempty
  · -- something was delivered at once
    rename_i hd
    simp only [Bool.or_false, Bool.not_eq_true'] at hd
    simp only [Resp.msgs.injEq] at hempty
    rw [hempty] at hd; simp at hd
  · rename_i hd
    simp only [hd, Bool.false_eq_true, ↓reduceIte]
    split at hempty
    · -- woken at once by the expiry re-check
      rename_i hb
      simp only [hb, ↓reduceIte]
      exfalso
      simp only [Resp.msgs.injEq] at hempty
      unfold Sys.backlogNonEmpty at hb
      obtain ⟨e1, he1, hst⟩ := find_of_stateOf hst1
      rw [he1] at hb
      simp only [Bool.not_eq_true', List.isEmpty_eq_false_iff] at hb
      have ho := subTurn_out _ e.sid (.pull (i32AsU16 mx) (sys.subTurn e.sid (.pull (i32AsU16 mx) sys.clock)).1.clock) e1.st
        (stateOf_of_find he1)
      rw [ho] at hempty
      exact pull_nonempty e1.st _ _ (hok1 e1 (findSubById_mem he1)).2 hb hempty
    · rename_i hb
      simp only [hb, Bool.false_eq_true, ↓reduceIte]
      obtain ⟨e1, he1, hst⟩ := find_of_stateOf hst1
      simp only [he1] at hempty ⊢
      cases hn : e1.st.out.nextExpiration with
      | none =>
        simp only [hn, Option.map_none]
        exact advanceTo_clock_ge _ _ _ _
      | some d =>
        simp only [hn, Option.map_some] at hempty ⊢
        split at hempty
        · -- woken by the expiry timer before the limit: the pull after it cannot be empty
          rename_i hlt
          exfalso
          simp only [Resp.msgs.injEq] at hempty
          have hJ := advanceTo_J (sys.clock % 1000) e.sid e1.st 1000000 (ceilMs d + sys.clock % 1000) _ hs1
            ⟨e1.st, stateOf_of_find he1, Or.inl rfl⟩
          obtain ⟨_, st2, hst2, hor⟩ := hJ
          have hok2 : SubsOk (Sys.advanceTo (sys.clock % 1000) 1000000 (ceilMs d + sys.clock % 1000)
              (sys.subTurn e.sid (.pull (i32AsU16 mx) sys.clock)).1) := SubsOk_advanceTo _ _ _ hok1
          have hnb : st2.backlog ≠ [] := by
            rcases hor with rfl | h2
            · -- untouched: its timer would still be armed and due
              exfalso
              obtain ⟨e2, he2, hst2'⟩ := find_of_stateOf hst2
              have hmem := findSubById_mem he2
              have hset := hdone (ceilMs d + sys.clock % 1000)
              cases hnt : (Sys.advanceTo (sys.clock % 1000) 1000000 (ceilMs d + sys.clock % 1000)
                  (sys.subTurn e.sid (.pull (i32AsU16 mx) sys.clock)).1).nextTimer with
              | none =>
                have := nextTimer_none hnt e2 hmem
                rw [hst2', hn] at this; cases this
              | some tx =>
                obtain ⟨t', x'⟩ := tx
                have h1 := hset t' x' hnt
                have h2 := nextTimer_min hnt e2 hmem d (by rw [hst2']; exact hn)
                omega
            · exact h2
          have ho := subTurn_out _ e.sid (.pull (i32AsU16 mx) (Sys.advanceTo (sys.clock % 1000) 1000000 (ceilMs d + sys.clock % 1000)
              (sys.subTurn e.sid (.pull (i32AsU16 mx) sys.clock)).1).clock) st2 hst2
          rw [ho] at hempty
          exact pull_nonempty st2 _ _ (SubsOk_stateOf hok2 hst2).2 hnb hempty
        · rename_i hlt
          simp only [hlt, ↓reduceIte]
          exact advanceTo_clock_ge _ _ _ _

end Deltio

namespace Deltio

def Sys.totalOut (sys : Sys) : Nat := (sys.subs.map (fun e => e.st.out.msgs.length)).sum

theorem ceilMs_ge (d : Nat) : d ≤ ceilMs d := by unfold ceilMs; omega

theorem timer_fold_mem : ∀ (l : List SubEnt) (best : Option (Nat × Nat)) (t x : Nat),
    l.foldl timerStep best = some (t, x) →
    best = some (t, x) ∨ ∃ e ∈ l, e.sid = x ∧ ∃ d, e.st.out.nextExpiration = some d ∧ ceilMs d = t := by
  intro l
  induction l with
  | nil => intro best t x h; exact Or.inl h
  | cons e rest ih =>
    intro best t x h
    simp only [List.foldl_cons] at h
    rcases ih _ t x h with h1 | ⟨e', he', h2⟩
    · unfold timerStep at h1
      cases hn : e.st.out.nextExpiration with
      | none => rw [hn] at h1; exact Or.inl h1
      | some d =>
        rw [hn] at h1
        simp only at h1
        cases best with
        | none =>
          simp only [Option.some.injEq, Prod.mk.injEq] at h1
          exact Or.inr ⟨e, by simp, h1.2, d, hn, h1.1⟩
        | some b =>
          obtain ⟨bt, bx⟩ := b
          simp only at h1
          split at h1
          · simp only [Option.some.injEq, Prod.mk.injEq] at h1
            exact Or.inr ⟨e, by simp, h1.2, d, hn, h1.1⟩
          · exact Or.inl h1
    · exact Or.inr ⟨e', by simp [he'], h2⟩

theorem timer_fold_none : ∀ (l : List SubEnt), (∀ e ∈ l, e.st.out.nextExpiration = none) → l.foldl timerStep none = none := by
  intro l
  induction l with
  | nil => intro _; rfl
  | cons e rest ih =>
    intro h
    simp only [List.foldl_cons]
    have : timerStep none e = none := by unfold timerStep; rw [h e (by simp)]
    rw [this]
    exact ih (fun e' he' => h e' (by simp [he']))

theorem find_unique : ∀ (l : List SubEnt), (l.map (·.sid)).Nodup → ∀ e ∈ l, l.find? (·.sid == e.sid) = some e := by
  intro l
  induction l with
  | nil => intro _ e he; simp at he
  | cons y ys ih =>
    intro hu e he
    simp only [List.map_cons, List.nodup_cons] at hu
    simp only [List.mem_cons] at he
    simp only [List.find?_cons]
    rcases he with rfl | he
    · simp
    · have hne : (y.sid == e.sid) = false := by
        simp only [beq_eq_false_iff_ne, ne_eq]
        intro hc
        exact hu.1 (by rw [hc]; exact List.mem_map_of_mem he)
      rw [hne]
      exact ih hu.2 e he

theorem sum_set_lt : ∀ (l : List SubEnt), (l.map (·.sid)).Nodup → ∀ (e : SubEnt) (st : SubState), e ∈ l →
    st.out.msgs.length < e.st.out.msgs.length →
    ((l.map (fun x => if x.sid == e.sid then { x with st := st } else x)).map (fun x => x.st.out.msgs.length)).sum
      < (l.map (fun x => x.st.out.msgs.length)).sum := by
  intro l
  induction l with
  | nil => intro _ e st he; simp at he
  | cons y ys ih =>
    intro hu e st he hlt
    simp only [List.map_cons, List.nodup_cons] at hu
    simp only [List.mem_cons] at he
    simp only [List.map_cons, List.sum_cons]
    rcases he with rfl | he
    · simp only [beq_self_eq_true, ↓reduceIte]
      have hid : ys.map (fun x => if x.sid == e.sid then { x with st := st } else x) = ys := by
        have : ys.map (fun x => if x.sid == e.sid then { x with st := st } else x) = ys.map id := by
          apply List.map_congr_left
          intro x hx
          have : (x.sid == e.sid) = false := by
            simp only [beq_eq_false_iff_ne, ne_eq]
            intro hc
            exact hu.1 (by rw [← hc]; exact List.mem_map_of_mem hx)
          simp [this]
        rw [this, List.map_id]
      rw [hid]; omega
    · have hne : (y.sid == e.sid) = false := by
        simp only [beq_eq_false_iff_ne, ne_eq]
        intro hc
        exact hu.1 (by rw [hc]; exact List.mem_map_of_mem he)
      simp only [hne, Bool.false_eq_true, ↓reduceIte]
      have := ih hu.2 e st he hlt
      omega

theorem expire_decreases {s : SubState} (h : SubInv s) (d now : Nat) (hn : s.out.nextExpiration = some d) (hd : d ≤ now) :
    (s.turn (.expire now)).1.out.msgs.length < s.out.msgs.length := by
  unfold Tracker.nextExpiration at hn
  cases hx : s.out.exps with
  | nil => rw [hx] at hn; simp at hn
  | cons k rest =>
    rw [hx] at hn
    simp only [List.head?_cons, Option.map_some, Option.some.injEq] at hn
    obtain ⟨dv, hdv, hk⟩ := (h.out.agree k).mp (by rw [hx]; simp)
    have hdl : dv.deadline ≤ now := by
      have : dv.deadline = k.1 := by rw [← hk]; rfl
      omega
    simp only [SubState.turn]
    obtain ⟨t', ds, he, hi⟩ := Inv_takeExpired h.out now
    rw [he]
    obtain ⟨_, hp, h3, h4⟩ := takeExpired_spec h.out now he
    have hmem := (hp.mem_iff (a := dv)).mpr hdv
    simp only [List.mem_append] at hmem
    have hds : dv ∈ ds := by
      rcases hmem with h1 | h1
      · have := h4 dv h1; omega
      · exact h1
    have hne : ds.isEmpty = false := by
      cases ds with
      | nil => simp at hds
      | cons _ _ => rfl
    simp only [hne, Bool.false_eq_true, ↓reduceIte]
    have hl := hp.length_eq
    simp only [List.length_append] at hl
    have : 0 < ds.length := by cases ds with
      | nil => simp at hds
      | cons _ _ => simp
    omega

end Deltio

namespace Deltio

def SidsUnique (sys : Sys) : Prop := (sys.subs.map (·.sid)).Nodup

theorem sids_setSubState (sys : Sys) (sid : Nat) (st : SubState) :
    (sys.setSubState sid st).subs.map (·.sid) = sys.subs.map (·.sid) := by
  unfold Sys.setSubState
  simp only [List.map_map]
  apply List.map_congr_left
  intro x _
  simp only [Function.comp]
  split <;> rfl

theorem sids_subExpire (sys : Sys) (sid : Nat) : (sys.subExpire sid).subs.map (·.sid) = sys.subs.map (·.sid) := by
  unfold Sys.subExpire
  split
  · rfl
  · exact sids_setSubState _ _ _

theorem sids_subTurn (sys : Sys) (sid : Nat) (t : SubTurn) : (sys.subTurn sid t).1.subs.map (·.sid) = sys.subs.map (·.sid) := by
  unfold Sys.subTurn
  split
  · rfl
  · exact sids_setSubState _ _ _

theorem empty_tracker_no_timer {t : Tracker} (h : t.Inv) (hm : t.msgs = []) : t.nextExpiration = none := by
  unfold Tracker.nextExpiration
  cases hx : t.exps with
  | nil => rfl
  | cons k rest =>
    obtain ⟨d, hd, _⟩ := (h.agree k).mp (by rw [hx]; simp)
    rw [hm] at hd; simp at hd

theorem SidsUnique_of_SysInv {sys : Sys} (h : SysInv sys) : SidsUnique sys := by
  have := h.sids
  unfold Sys.ssh at this
  simp only [List.map_map] at this
  unfold SidsUnique
  have h2 : sys.subs.map (·.sid) = List.map ((fun (e : SSh) => e.sid) ∘ fun e => ⟨e.sid, e.name, e.topicId, e.push⟩) sys.subs := by
    apply List.map_congr_left; intro x _; rfl
  rw [h2]
  exact this.imp (fun h => Nat.ne_of_lt h)


/-- With no StreamingPull open, every firing of the timer loop takes at least one delivery out of
    some tracker, so a fuel of at least the number of outstanding deliveries lets it run to completion. -/
theorem advanceTo_settled (frac : Nat) : ∀ (fuel target : Nat) (sys : Sys), sys.streams = [] → SubsOk sys → SidsUnique sys →
    sys.totalOut ≤ fuel → Sys.settled frac target (Sys.advanceTo frac fuel target sys) := by
  intro fuel
  induction fuel with
  | zero =>
    intro target sys _ hok _ hz
    simp only [Sys.advanceTo]
    intro t x hnt
    exfalso
    have hnone : ({ sys with clock := max sys.clock target } : Sys).nextTimer = none := by
      rw [nextTimer_eq]
      apply timer_fold_none
      intro e he
      apply empty_tracker_no_timer (hok e he).1.out
      have hsum : (sys.subs.map (fun e => e.st.out.msgs.length)).sum = 0 := by
        have : sys.totalOut = 0 := by omega
        exact this
      have := (List.sum_eq_zero_iff_forall_eq_nat).mp hsum (e.st.out.msgs.length) (List.mem_map_of_mem he)
      exact List.length_eq_zero_iff.mp this
    rw [hnone] at hnt; cases hnt
  | succ n ih =>
    intro target sys hs hok hu hle
    unfold Sys.advanceTo
    split
    · rename_i t x hnt
      split
      · rename_i hfire
        -- the entry whose timer is the earliest
        rw [nextTimer_eq] at hnt
        rcases timer_fold_mem _ _ _ _ hnt with h0 | ⟨e, he, hsid, d, hd, hceil⟩
        · cases h0
        have hfind : ({ sys with clock := max sys.clock (t + frac) } : Sys).findSubById x = some e := by
          unfold Sys.findSubById
          rw [← hsid]
          exact find_unique sys.subs hu e he
        have hs1 : (({ sys with clock := max sys.clock (t + frac) } : Sys).subExpire x).streams = [] := by
          rw [subExpire_streams]; exact hs
        refine (by
          have key := ih target ((({ sys with clock := max sys.clock (t + frac) } : Sys).subExpire x).drainSub x) ?_ ?_ ?_ ?_
          exact key
          · rw [drainSub_nostreams _ _ hs1]; exact hs1
          · exact SubsOk_drainSub (SubsOk_subExpire (SubsOk_clock hok _) _) _
          · rw [drainSub_nostreams _ _ hs1]
            unfold SidsUnique
            rw [sids_subExpire]; exact hu
          · rw [drainSub_nostreams _ _ hs1]
            have hdle : d ≤ max sys.clock (t + frac) := by
              have := ceilMs_ge d
              omega
            have hdec := expire_decreases (hok e he).1 d (max sys.clock (t + frac)) hd hdle
            have hlt := sum_set_lt sys.subs hu e (e.st.turn (.expire (max sys.clock (t + frac)))).1 he hdec
            have : (({ sys with clock := max sys.clock (t + frac) } : Sys).subExpire x).totalOut < sys.totalOut := by
              unfold Sys.totalOut
              simp only [Sys.subExpire, hfind, Sys.setSubState]
              rw [← hsid]
              exact hlt
            omega)
      · rename_i hno
        intro t' x' hnt'
        have : ({ sys with clock := max sys.clock target } : Sys).nextTimer = sys.nextTimer := rfl
        rw [this, hnt] at hnt'
        cases hnt'
        omega
    · rename_i hnt
      intro t' x' hnt'
      have : ({ sys with clock := max sys.clock target } : Sys).nextTimer = sys.nextTimer := rfl
      rw [this, hnt] at hnt'
      cases hnt'

theorem ceilMs_mono {a b : Nat} (h : a ≤ b) : ceilMs a ≤ ceilMs b := by
  unfold ceilMs
  have : (a + 999) / 1000 ≤ (b + 999) / 1000 := Nat.div_le_div_right (by omega)
  exact Nat.mul_le_mul_right 1000 this

/-- The head of the expiration set is the earliest deadline. -/
theorem nextExp_le {t : Tracker} (h : t.Inv) {dv : Deliv} (hd : dv ∈ t.msgs) :
    ∃ d0, t.nextExpiration = some d0 ∧ d0 ≤ dv.deadline := by
  have hk : dv.key ∈ t.exps := (h.agree dv.key).mpr ⟨dv, hd, rfl⟩
  unfold Tracker.nextExpiration
  cases hx : t.exps with
  | nil => rw [hx] at hk; cases hk
  | cons k rest =>
    refine ⟨k.1, by simp, ?_⟩
    rw [hx] at hk
    simp only [List.mem_cons] at hk
    rcases hk with h1 | h1
    · rw [← h1]; exact Nat.le_refl _
    · have hs := h.sorted
      rw [hx] at hs
      have := (List.pairwise_cons.mp hs).1 dv.key h1
      unfold keyLt at this
      simp only [Bool.or_eq_true, decide_eq_true_eq, Bool.and_eq_true, beq_iff_eq] at this
      have hdk : dv.key.1 = dv.deadline := rfl
      rcases this with h2 | h2
      · omega
      · omega

/-- Once the timer loop has run to completion, no outstanding delivery is overdue by a whole
    timer tick: every remaining deadline's tick lies after the target. -/
theorem settled_not_late {sys : Sys} (hok : SubsOk sys) (frac target : Nat) (hset : Sys.settled frac target sys) :
    ∀ e ∈ sys.subs, ∀ dv ∈ e.st.out.msgs, target < ceilMs dv.deadline + frac := by
  intro e he dv hdv
  obtain ⟨d0, hn, hle⟩ := nextExp_le (hok e he).1.out hdv
  cases hnt : sys.nextTimer with
  | none =>
    have := nextTimer_none hnt e he
    rw [hn] at this; cases this
  | some tx =>
    obtain ⟨t, x⟩ := tx
    have h1 := hset t x hnt
    have h2 := nextTimer_min hnt e he d0 hn
    have h3 := ceilMs_mono hle
    omega


end Deltio
