import Deltio.Proto.Fanout
/-
  Inductive invariant of slice P6 (fan-out of Publish under all interleavings).
-/
namespace Deltio.P6

theorem posts_append (l r : List SMsg) : posts (l ++ r) = posts l ++ posts r := by
  induction l with
  | nil => rfl
  | cons m l ih => cases m <;> simp [posts, ih]

@[simp] theorem upd_same {α} (f : Nat → α) (x : Nat) (v : α) : upd f x v x = v := by simp [upd]
theorem upd_other {α} (f : Nat → α) (x y : Nat) (v : α) (h : y ≠ x) : upd f x v y = f y := by simp [upd, h]

structure Inv (s : State) : Prop where
  okDone : ∀ d ∈ s.done, d.ok = true → ∀ x ∈ d.fan, Delivered s x d.b
  curFan : ∀ c, s.cur = some c → ∀ x ∈ c.fan, x ∈ c.pending ∨ Delivered s x c.b
  curCtr : ∀ c, s.cur = some c → c.b.lo + c.b.n = s.ctr
  pendFan : ∀ c, s.cur = some c → ∀ x ∈ c.pending, x ∈ c.fan
  sorted : ∀ x, (seq s x).Pairwise Before
  below : ∀ x, ∀ b ∈ seq s x, b.lo + b.n ≤ s.ctr
  belowCur : ∀ c, s.cur = some c → ∀ x ∈ c.pending, ∀ b ∈ seq s x, b.lo + b.n ≤ c.b.lo
  origin : ∀ x, ∀ b ∈ seq s x,
    (∃ d ∈ s.done, d.b = b ∧ x ∈ d.fan) ∨ (∃ c, s.cur = some c ∧ c.b = b ∧ x ∈ c.fan ∧ x ∉ c.pending)
  turnsSorted : (turnBatches s).Pairwise Before
  turnsBelow : ∀ b ∈ turnBatches s, b.lo + b.n ≤ s.ctr

theorem inv_init (cap : Nat) : Inv (init cap) := by
  constructor <;> simp [init, seq, posts, turnBatches]

/-- How one step changes what the invariant talks about. `seq` only ever grows at its end (by the
    running turn's batch, for a subscription whose post was pending) or is cut back to the handled
    prefix when the subscription's actor exits. -/
inductive Effect (s s' : State) : Prop
  /-- only mailboxes of requests / the attached set changed -/
  | frame : (∀ x, seq s' x = seq s x) → s'.closed = s.closed → s'.cur = s.cur → s'.done = s.done → s'.ctr = s.ctr →
      Effect s s'
  | accept (r n : Nat) : (∀ x, seq s' x = seq s x) → s'.closed = s.closed → s.cur = none →
      s'.cur = some { r := r, b := ⟨s.ctr, n⟩, fan := s.subs, pending := s.subs } → s'.done = s.done →
      s'.ctr = s.ctr + n → Effect s s'
  | post (c : Cur) (x : Nat) : s.cur = some c → x ∈ c.pending → s.closed x = false →
      seq s' x = seq s x ++ [c.b] → (∀ y, y ≠ x → seq s' y = seq s y) → s'.closed = s.closed →
      s'.cur = some { c with pending := c.pending.filter (· ≠ x) } → s'.done = s.done → s'.ctr = s.ctr → Effect s s'
  | finish (c : Cur) (ok : Bool) : s.cur = some c → (ok = true → c.pending = []) →
      (∀ x, seq s' x = seq s x) → s'.closed = s.closed → s'.cur = none →
      s'.done = s.done ++ [{ r := c.r, b := c.b, fan := c.fan, ok := ok }] → s'.ctr = s.ctr → Effect s s'
  | close (x : Nat) : seq s' x = s.taken x → (∀ y, y ≠ x → seq s' y = seq s y) →
      s'.closed = upd s.closed x true → s'.cur = s.cur → s'.done = s.done → s'.ctr = s.ctr → Effect s s'

theorem step_effect {s s' : State} {l : Label} (h : step s l = some s') : Effect s s' := by
  cases l with
  | cliPublish r n =>
    simp only [step] at h; split at h <;> simp at h
    subst h; exact .frame (fun _ => rfl) rfl rfl rfl rfl
  | cliAttach x =>
    simp only [step] at h; split at h <;> simp at h
    subst h; exact .frame (fun _ => rfl) rfl rfl rfl rfl
  | cliRemove x =>
    simp only [step] at h; split at h <;> simp at h
    subst h; exact .frame (fun _ => rfl) rfl rfl rfl rfl
  | cliOther x =>
    simp only [step] at h; split at h <;> simp at h
    subst h
    refine .frame (fun y => ?_) rfl rfl rfl rfl
    by_cases hy : y = x
    · subst hy; simp [seq, posts_append, posts]
    · simp [seq, upd_other _ _ _ _ hy]
  | topicTake =>
    simp only [step] at h
    split at h
    · simp at h; subst h
      rename_i r n rest hc ht
      exact .accept r n (fun _ => rfl) rfl hc rfl rfl rfl
    · simp at h; subst h; exact .frame (fun _ => rfl) rfl rfl rfl rfl
    · simp at h; subst h; exact .frame (fun _ => rfl) rfl rfl rfl rfl
    · simp at h
  | postDone x =>
    simp only [step] at h
    split at h
    · rename_i c hc
      split at h <;> simp at h
      rename_i hx
      subst h
      refine .post c x hc hx.1 hx.2.1 ?_ (fun y hy => ?_) rfl (by simp) rfl rfl
      · simp [seq, posts_append, posts]
      · simp [seq, upd_other _ _ _ _ hy]
    · simp at h
  | postFail x =>
    simp only [step] at h
    split at h
    · rename_i c hc
      split at h <;> simp at h
      subst h
      exact .finish c false hc (by simp) (fun _ => rfl) rfl rfl rfl rfl
    · simp at h
  | reply =>
    simp only [step] at h
    split at h
    · rename_i c hc
      split at h <;> simp at h
      rename_i hp
      subst h
      exact .finish c true hc (fun _ => hp) (fun _ => rfl) rfl rfl rfl rfl
    · simp at h
  | subTake x =>
    simp only [step] at h
    split at h
    · simp at h
    · split at h
      · simp at h
      · rename_i b rest hm
        simp at h; subst h
        refine .frame (fun y => ?_) rfl rfl rfl rfl
        by_cases hy : y = x
        · subst hy; simp [seq, hm, posts]
        · simp [seq, upd_other _ _ _ _ hy]
      · rename_i rest hm
        simp at h; subst h
        refine .frame (fun y => ?_) rfl rfl rfl rfl
        by_cases hy : y = x
        · subst hy; simp [seq, hm, posts]
        · simp [seq, upd_other _ _ _ _ hy]
  | subClose x =>
    simp only [step] at h
    split at h
    · simp at h
    · simp at h; subst h
      refine .close x ?_ (fun y hy => ?_) rfl rfl rfl rfl
      · simp [seq, posts]
      · simp [seq, upd_other _ _ _ _ hy]

theorem Delivered.mono {s s' : State} {x : Nat} {b : Batch}
    (hs : b ∈ seq s x → b ∈ seq s' x ∨ s'.closed x = true) (hc : s.closed x = true → s'.closed x = true)
    (h : Delivered s x b) : Delivered s' x b := by
  rcases h with h | h
  · exact hs h
  · exact .inr (hc h)

theorem inv_effect {s s' : State} (hi : Inv s) (e : Effect s s') : Inv s' := by
  cases e with
  | frame hseq hcl hcur hdone hctr =>
    have hD : ∀ x b, Delivered s x b → Delivered s' x b := fun x b h => by
      unfold Delivered at *; rw [hseq, hcl]; exact h
    constructor
    · intro d hd hok x hx; rw [hdone] at hd; exact hD _ _ (hi.okDone d hd hok x hx)
    · intro c hc x hx; rw [hcur] at hc
      exact (hi.curFan c hc x hx).imp id (hD _ _)
    · intro c hc; rw [hcur] at hc; rw [hctr]; exact hi.curCtr c hc
    · intro c hc; rw [hcur] at hc; exact hi.pendFan c hc
    · intro x; rw [hseq]; exact hi.sorted x
    · intro x b hb; rw [hseq] at hb; rw [hctr]; exact hi.below x b hb
    · intro c hc x hx b hb; rw [hcur] at hc; rw [hseq] at hb; exact hi.belowCur c hc x hx b hb
    · intro x b hb; rw [hseq] at hb; rw [hdone, hcur]; exact hi.origin x b hb
    · unfold turnBatches; rw [hdone, hcur]; exact hi.turnsSorted
    · unfold turnBatches; rw [hdone, hcur, hctr]; exact hi.turnsBelow
  | accept r n hseq hcl hnone hcur hdone hctr =>
    have hD : ∀ x b, Delivered s x b → Delivered s' x b := fun x b h => by
      unfold Delivered at *; rw [hseq, hcl]; exact h
    have htb : turnBatches s = s.done.map (·.b) := by simp [turnBatches, hnone]
    constructor
    · intro d hd hok x hx; rw [hdone] at hd; exact hD _ _ (hi.okDone d hd hok x hx)
    · intro c hc x hx; rw [hcur] at hc; cases hc; exact .inl hx
    · intro c hc; rw [hcur] at hc; cases hc; simp [hctr]
    · intro c hc; rw [hcur] at hc; cases hc; exact fun x hx => hx
    · intro x; rw [hseq]; exact hi.sorted x
    · intro x b hb; rw [hseq] at hb; have := hi.below x b hb; omega
    · intro c hc x _ b hb; rw [hcur] at hc; cases hc; rw [hseq] at hb; exact hi.below x b hb
    · intro x b hb; rw [hseq] at hb
      rcases hi.origin x b hb with h | ⟨c, hc, _⟩
      · rw [hdone]; exact .inl h
      · rw [hnone] at hc; cases hc
    · unfold turnBatches; rw [hdone, hcur]
      simp only [List.pairwise_append, List.pairwise_cons, List.Pairwise.nil, List.mem_singleton, and_true]
      refine ⟨?_, by simp, ?_⟩
      · have := hi.turnsSorted; rw [htb] at this; exact this
      · intro a ha b hb; subst hb
        have := hi.turnsBelow a (by rw [htb]; exact ha)
        simpa [Before] using this
    · intro b hb; unfold turnBatches at hb; rw [hdone, hcur] at hb
      simp only [List.mem_append, List.mem_singleton] at hb
      rcases hb with hb | hb
      · have := hi.turnsBelow b (by rw [htb]; exact hb); omega
      · subst hb; simp [hctr]
  | post c x hc hx hclx hsx hsy hcl hcur hdone hctr =>
    have hD : ∀ y b, Delivered s y b → Delivered s' y b := fun y b h => by
      refine Delivered.mono (fun hb => .inl ?_) (fun h => by rw [hcl]; exact h) h
      by_cases hy : y = x
      · subst hy; rw [hsx]; exact List.mem_append_left _ hb
      · rw [hsy y hy]; exact hb
    constructor
    · intro d hd hok y hy; rw [hdone] at hd; exact hD _ _ (hi.okDone d hd hok y hy)
    · intro c' hc' y hy; rw [hcur] at hc'; cases hc'
      by_cases hyx : y = x
      · subst hyx; exact .inr (.inl (by rw [hsx]; simp))
      · rcases hi.curFan c hc y hy with h | h
        · exact .inl (by simp [List.mem_filter, h, hyx])
        · exact .inr (hD _ _ h)
    · intro c' hc'; rw [hcur] at hc'; cases hc'; rw [hctr]; exact hi.curCtr c hc
    · intro c' hc' y hy; rw [hcur] at hc'; cases hc'
      exact hi.pendFan c hc y (List.mem_filter.mp hy).1
    · intro y
      by_cases hy : y = x
      · subst hy; rw [hsx, List.pairwise_append]
        refine ⟨hi.sorted y, by simp, ?_⟩
        intro a ha b hb
        simp only [List.mem_singleton] at hb; subst hb
        exact hi.belowCur c hc y hx a ha
      · rw [hsy y hy]; exact hi.sorted y
    · intro y b hb; rw [hctr]
      by_cases hy : y = x
      · subst hy; rw [hsx, List.mem_append, List.mem_singleton] at hb
        rcases hb with hb | hb
        · exact hi.below y b hb
        · subst hb; exact Nat.le_of_eq (hi.curCtr c hc)
      · rw [hsy y hy] at hb; exact hi.below y b hb
    · intro c' hc' y hy b hb; rw [hcur] at hc'; cases hc'
      have hy' := List.mem_filter.mp hy
      have hne : y ≠ x := by simpa using hy'.2
      rw [hsy y hne] at hb
      exact hi.belowCur c hc y hy'.1 b hb
    · intro y b hb; rw [hdone, hcur]
      by_cases hy : y = x
      · subst hy; rw [hsx, List.mem_append, List.mem_singleton] at hb
        rcases hb with hb | hb
        · rcases hi.origin y b hb with h | ⟨c2, hc2, hb2, hf2, hp2⟩
          · exact .inl h
          · rw [hc] at hc2; cases hc2; exact absurd hx hp2
        · subst hb
          exact .inr ⟨_, rfl, rfl, hi.pendFan c hc y hx, by simp [List.mem_filter]⟩
      · rw [hsy y hy] at hb
        rcases hi.origin y b hb with h | ⟨c2, hc2, hb2, hf2, hp2⟩
        · exact .inl h
        · rw [hc] at hc2; cases hc2
          exact .inr ⟨_, rfl, hb2, hf2, fun h => hp2 (List.mem_filter.mp h).1⟩
    · have : turnBatches s' = turnBatches s := by simp [turnBatches, hdone, hcur, hc]
      rw [this]; exact hi.turnsSorted
    · have : turnBatches s' = turnBatches s := by simp [turnBatches, hdone, hcur, hc]
      rw [this, hctr]; exact hi.turnsBelow
  | finish c ok hc hok hseq hcl hcur hdone hctr =>
    have hD : ∀ x b, Delivered s x b → Delivered s' x b := fun x b h => by
      unfold Delivered at *; rw [hseq, hcl]; exact h
    have htb : turnBatches s' = turnBatches s := by simp [turnBatches, hdone, hcur, hc]
    constructor
    · intro d hd hdok x hx; rw [hdone, List.mem_append, List.mem_singleton] at hd
      rcases hd with hd | hd
      · exact hD _ _ (hi.okDone d hd hdok x hx)
      · subst hd
        have hp := hok hdok
        rcases hi.curFan c hc x hx with h | h
        · rw [hp] at h; cases h
        · exact hD _ _ h
    · intro c' hc'; rw [hcur] at hc'; cases hc'
    · intro c' hc'; rw [hcur] at hc'; cases hc'
    · intro c' hc'; rw [hcur] at hc'; cases hc'
    · intro x; rw [hseq]; exact hi.sorted x
    · intro x b hb; rw [hseq] at hb; rw [hctr]; exact hi.below x b hb
    · intro c' hc'; rw [hcur] at hc'; cases hc'
    · intro x b hb; rw [hseq] at hb
      rcases hi.origin x b hb with ⟨d, hd, h⟩ | ⟨c2, hc2, hb2, hf2, _⟩
      · exact .inl ⟨d, by rw [hdone]; exact List.mem_append_left _ hd, h⟩
      · rw [hc] at hc2; cases hc2
        exact .inl ⟨_, by rw [hdone]; exact List.mem_append_right _ (List.mem_singleton.mpr rfl), hb2, hf2⟩
    · rw [htb]; exact hi.turnsSorted
    · rw [htb, hctr]; exact hi.turnsBelow
  | close x hsx hsy hcl hcur hdone hctr =>
    have hsub : ∀ y b, b ∈ seq s' y → b ∈ seq s y := fun y b hb => by
      by_cases hy : y = x
      · subst hy; rw [hsx] at hb; exact List.mem_append_left _ hb
      · rw [hsy y hy] at hb; exact hb
    have hD : ∀ y b, Delivered s y b → Delivered s' y b := fun y b h => by
      by_cases hy : y = x
      · subst hy; exact .inr (by rw [hcl]; simp)
      · refine Delivered.mono (fun hb => .inl (by rw [hsy y hy]; exact hb)) (fun h => ?_) h
        rw [hcl, upd_other _ _ _ _ hy]; exact h
    constructor
    · intro d hd hok y hy; rw [hdone] at hd; exact hD _ _ (hi.okDone d hd hok y hy)
    · intro c hc y hy; rw [hcur] at hc; exact (hi.curFan c hc y hy).imp id (hD _ _)
    · intro c hc; rw [hcur] at hc; rw [hctr]; exact hi.curCtr c hc
    · intro c hc; rw [hcur] at hc; exact hi.pendFan c hc
    · intro y
      by_cases hy : y = x
      · subst hy; rw [hsx]
        have := hi.sorted y
        unfold seq at this
        exact (List.pairwise_append.mp this).1
      · rw [hsy y hy]; exact hi.sorted y
    · intro y b hb; rw [hctr]; exact hi.below y b (hsub y b hb)
    · intro c hc y hy b hb; rw [hcur] at hc; exact hi.belowCur c hc y hy b (hsub y b hb)
    · intro y b hb; rw [hdone, hcur]; exact hi.origin y b (hsub y b hb)
    · unfold turnBatches; rw [hdone, hcur]; exact hi.turnsSorted
    · unfold turnBatches; rw [hdone, hcur, hctr]; exact hi.turnsBelow

theorem inv_step {s s' : State} {l : Label} (hi : Inv s) (h : step s l = some s') : Inv s' :=
  inv_effect hi (step_effect h)

theorem inv_reachable {cap : Nat} {s : State} (h : Reachable (init cap) s) : Inv s := by
  induction h with
  | refl => exact inv_init cap
  | step _ hs ih => exact inv_step ih hs

end Deltio.P6
