import Deltio.Lemmas.Attach
import Deltio.Lemmas.SysInv
import Deltio.Model.System
import Deltio.Props.C10
/-
  C11 — Deletion keeps topics and subscriptions consistent with each other.
-/
namespace Deltio

theorem alookup_aerase {α β} [BEq α] [LawfulBEq α] (k : α) (l : List (α × β)) : alookup k (aerase k l) = none := by
  induction l with
  | nil => rfl
  | cons x xs ih =>
    obtain ⟨k', v⟩ := x
    simp only [aerase]
    split
    · exact ih
    · rename_i h
      simp only [alookup, h]
      exact ih

theorem mem_aerase {α β} [BEq α] [LawfulBEq α] (k : α) (l : List (α × β)) (x : α × β) :
    x ∈ aerase k l ↔ x ∈ l ∧ x.1 ≠ k := by
  induction l with
  | nil => simp [aerase]
  | cons y ys ih =>
    obtain ⟨k', v⟩ := y
    simp only [aerase]
    split
    · rename_i h
      have hk : k' = k := by simpa using h
      rw [ih]
      constructor
      · rintro ⟨h1, h2⟩; exact ⟨List.mem_cons_of_mem _ h1, h2⟩
      · rintro ⟨h1, h2⟩
        simp only [List.mem_cons] at h1
        rcases h1 with rfl | h1
        · exact absurd hk h2
        · exact ⟨h1, h2⟩
    · rename_i h
      have hk : k' ≠ k := by simpa using h
      simp only [List.mem_cons, ih]
      constructor
      · rintro (rfl | ⟨h1, h2⟩)
        · exact ⟨Or.inl rfl, hk⟩
        · exact ⟨Or.inr h1, h2⟩
      · rintro ⟨rfl | h1, h2⟩
        · exact Or.inl rfl
        · exact Or.inr ⟨h1, h2⟩

/-- When DeleteSubscription returns OK the subscription is gone from the manager, from its topic's
    subscription list (so it receives nothing further: publishes fan out over that list), from the
    push registry, and every stream open on it has ended with NOT_FOUND. -/
theorem C11_sub_delete (sys : Sys) (raw : Bytes) (n : Name) (e : SubEnt) (hp : parseSubName raw = some n)
    (hf : sys.findSub n = some e) (hu : ∀ e' ∈ sys.subs, e'.name = n → e'.sid = e.sid) :
    let sys' := (sys.rpc (.deleteSub raw)).1
    (sys.rpc (.deleteSub raw)).2 = .empty ∧ sys'.findSub n = none ∧
    (∀ t ∈ sys'.topics, t.tid = e.topicId → alookup n t.subs = none) ∧
    alookup n sys'.registry = none ∧
    (∀ s ∈ sys'.streams, s.sid = e.sid → s.ended = true) := by
  simp only [Sys.rpc, hp, hf]
  refine ⟨trivial, ?_, ?_, ?_, ?_⟩
  · unfold Sys.findSub
    simp only
    apply List.find?_eq_none.mpr
    intro x hx
    simp only [List.mem_filter] at hx
    intro hxn
    have := hu x hx.1 (by simpa using hxn)
    simp [this] at hx
  · intro t ht htid
    simp only [List.mem_map] at ht
    obtain ⟨x, _, rfl⟩ := ht
    by_cases hc : x.tid = e.topicId
    · simp only [hc, beq_self_eq_true, ↓reduceIte]
      exact alookup_aerase n x.subs
    · have hc' : (x.tid == e.topicId) = false := by simpa using hc
      simp only [hc', Bool.false_eq_true, ↓reduceIte] at htid
      exact absurd htid hc
  · exact alookup_aerase n sys.registry
  · intro s hs hsid
    simp only [List.mem_map] at hs
    obtain ⟨x, _, rfl⟩ := hs
    split
    · rfl
    · rename_i hne
      split at hsid
      · rename_i hc; exact absurd hc hne
      · simp only [Bool.and_eq_true, beq_iff_eq, Bool.not_eq_eq_eq_not, Bool.not_true, not_and, Bool.not_eq_false] at hne
        exact hne hsid

/-- Other topics' lists and all other subscriptions are untouched by DeleteSubscription. -/
theorem C11_sub_delete_frame (sys : Sys) (raw : Bytes) (n : Name) (e : SubEnt) (hp : parseSubName raw = some n)
    (hf : sys.findSub n = some e) :
    let sys' := (sys.rpc (.deleteSub raw)).1
    (∀ e' ∈ sys.subs, e'.sid ≠ e.sid → e' ∈ sys'.subs) ∧
    (∀ t ∈ sys.topics, t.tid ≠ e.topicId → t ∈ sys'.topics) ∧
    (∀ t ∈ sys.topics, ∃ t' ∈ sys'.topics, t'.tid = t.tid ∧ t'.name = t.name ∧ ∀ x ∈ t.subs, x.1 ≠ n → x ∈ t'.subs) := by
  simp only [Sys.rpc, hp, hf]
  refine ⟨?_, ?_, ?_⟩
  · intro e' he' hne
    simp only [List.mem_filter]
    exact ⟨he', by simpa using hne⟩
  · intro t ht hne
    simp only [List.mem_map]
    refine ⟨t, ht, ?_⟩
    have : (t.tid == e.topicId) = false := by simpa using hne
    simp [this]
  · intro t ht
    simp only [List.mem_map]
    by_cases hc : t.tid = e.topicId
    · refine ⟨{ t with subs := aerase n t.subs }, ⟨t, ht, by simp [hc]⟩, rfl, rfl, ?_⟩
      intro x hx hxn
      exact (mem_aerase n t.subs x).mpr ⟨hx, hxn⟩
    · have : (t.tid == e.topicId) = false := by simpa using hc
      exact ⟨t, ⟨t, ht, by simp [this]⟩, rfl, rfl, fun x hx _ => hx⟩

/-- After DeleteTopic the topic's subscriptions still exist with their state (backlog, leases)
    untouched — `C01_all_requeued` / `C01_drain` keep applying — and report `_deleted_topic_`. -/
theorem C11_topic_delete (sys : Sys) (raw : Bytes) (n : Name) (t : TopicEnt) (hp : parseTopicName raw = some n)
    (hf : sys.findTopic n = some t) :
    let sys' := (sys.rpc (.deleteTopic raw)).1
    sys'.subs = sys.subs ∧ sys'.registry = sys.registry ∧
    (∀ e ∈ sys'.subs, e.topicId = t.tid → (sys'.subRes e).topic = deletedTopicStr) := by
  simp only [Sys.rpc, hp, hf]
  refine ⟨trivial, trivial, ?_⟩
  intro e _ he
  simp only [Sys.subRes, Sys.findTopicById]
  have : (sys.topics.filter (fun x => x.tid != t.tid)).find? (fun x => x.tid == e.topicId) = none := by
    apply List.find?_eq_none.mpr
    intro x hx
    simp only [List.mem_filter] at hx
    rw [he]
    simpa using hx.2
  rw [this]

/-- A topic created again under the same name is a new topic: fresh internal id (larger than any
    existing or earlier one) and an empty subscription list — old subscriptions, which refer to
    the old internal id, are not re-attached and keep reporting `_deleted_topic_`. -/
theorem C11_no_reattach (sys : Sys) (raw : Bytes) (n : Name) (hp : parseTopicName raw = some n) (hf : sys.findTopic n = none)
    (hinv : ∀ e ∈ sys.subs, e.topicId ≤ sys.nextTopic) :
    let sys' := (sys.rpc (.createTopic raw)).1
    (∃ t ∈ sys'.topics, t.name = n ∧ t.tid = sys.nextTopic + 1 ∧ t.subs = []) ∧
    (∀ e ∈ sys'.subs, e.topicId ≠ sys.nextTopic + 1) ∧ sys'.subs = sys.subs := by
  simp only [Sys.rpc, hp, hf]
  refine ⟨⟨_, List.mem_append_right _ (List.mem_singleton.mpr rfl), rfl, rfl, rfl⟩, ?_, trivial⟩
  intro e he
  have := hinv e he
  omega

/-! ### Non-vacuity -/
example :
    let T := displayTopic ([112], [116]); let S := displaySub ([112], [115])
    let s1 := (Sys.init.rpc (.createTopic T)).1
    let s2 := (s1.rpc (.createSub S T 0 none)).1
    let s3 := (s2.rpc (.deleteTopic T)).1
    let s4 := (s3.rpc (.createTopic T)).1
    (s2.rpc (.listTopicSubs T 0 [])).2 = .names [S] (encodeToken 1) ∧
    (s3.rpc (.getSub S)).2 = .sub { name := S, topic := deletedTopicStr, ackSecs := 10, push := none } ∧
    (s4.rpc (.listTopicSubs T 0 [])).2 = .names [] [] ∧
    (s4.rpc (.getSub S)).2 = .sub { name := S, topic := deletedTopicStr, ackSecs := 10, push := none } := by
  decide


/-! ### Over all histories -/

/-- At every moment of every sequential history: the subscription list of every live topic is
    exactly the live subscriptions created on it (same internal topic id), in creation order —
    whatever creations, deletions, re-creations under old names, publishes and pulls came before. -/
theorem C11_list_eq (ops : List SysOp) :
    ∀ t ∈ (Sys.init.execOps ops).topics,
      t.subs = ((Sys.init.execOps ops).subs.filter (fun e => e.topicId == t.tid)).map (fun e => (e.name, e.sid)) := by
  intro t ht
  have h := SysInv_all ops
  have := h.attach ⟨t.tid, t.name, t.subs⟩ (by simp only [Sys.tsh, List.mem_map]; exact ⟨t, ht, rfl⟩)
  simp only [attachedOf, Sys.ssh, List.filter_map, List.map_map] at this
  exact this

/-- … and what ListTopicSubscriptions answers (one page, size ≥ the number of subscriptions) is
    exactly their canonical names. -/
theorem C11_list_response (ops : List SysOp) (raw : Bytes) (n : Name) (t : TopicEnt) (hp : parseTopicName raw = some n)
    (hf : (Sys.init.execOps ops).findTopic n = some t) (p : Paging) (hpg : parsePaging 1000 [] = some p) :
    ∃ next, ((Sys.init.execOps ops).rpc (.listTopicSubs raw 1000 [])).2 =
      .names (p.page ((((Sys.init.execOps ops).subs.filter (fun e => e.topicId == t.tid)).map (fun e => displaySub e.name)))) next := by
  have ht : t ∈ (Sys.init.execOps ops).topics := List.mem_of_find?_eq_some hf
  have hl := C11_list_eq ops t ht
  have hb : bytesToNats [] = [] := rfl
  simp only [Sys.rpc, hp, hf, hb, hpg, Sys.listPage]
  rw [hl]
  simp only [List.map_map, Function.comp]
  exact ⟨_, rfl⟩

/-! ### All interleavings of create / delete of one subscription name (slice P1, Deltio/Proto/Attach.lean) -/
section P1slice
open P1

theorem C11_pinned_ghost :
    ∃ s, run (init false) [.create, .deleteStart, .actorDelete 0, .helperSend 0, .attachSend 0, .topicTake,
                           .helperFinish 0, .topicTake, .attachFinish 0] = some s ∧
      s.topic = some 0 ∧ s.mgr = none ∧ s.tdead = false ∧ Quiescent s := by
  refine ⟨_, rfl, rfl, rfl, rfl, rfl, rfl, ?_⟩
  intro g
  by_cases hg : g = 0
  · subst hg; simp [upd, init]
  · simp [upd, init, hg]

/-- No ghost, at any moment, on a live topic: whatever the topic lists under the name is the registered subscription. -/
theorem C11_no_ghost (s : State) (hr : Reachable (init true) s) (hlive : s.tdead = false) (g : Nat) (ht : s.topic = some g) :
    s.mgr = some g := by
  have h := inv_reachable s hr
  cases hm : s.mgr with
  | none => have := (h.empty hm).1 hlive; rw [this] at ht; cases ht
  | some c =>
    have := (h.cur c hm).2.2.1 hlive
    rw [this] at ht
    unfold expectedTopic at ht
    split at ht
    · cases ht; rfl
    · cases ht

theorem C11_quiescent_exact (s : State) (hr : Reachable (init true) s) (hlive : s.tdead = false) (hq : Quiescent s) :
    s.topic = s.mgr := by
  have h := inv_reachable s hr
  obtain ⟨_, _, hg⟩ := hq
  cases hm : s.mgr with
  | none => exact (h.empty hm).1 hlive
  | some c =>
    obtain ⟨_, _, c3, c4, c5, _, _⟩ := h.cur c hm
    rw [c3 hlive]
    have ha : (s.gen c).att = .finished := by
      rcases (hg c).1 with h1 | h1
      · exact absurd h1 c4
      · exact h1
    have hh : (s.gen c).helper = .none := by
      rcases (hg c).2 with h1 | h1
      · exact h1
      · exact absurd h1 c5
    simp [expectedTopic, ha, hh]

/-- Never stuck: while anything is left to do, some step OF THE PROTOCOL ITSELF (not a new request,
    not a topic deletion) is enabled; in particular a Delete that waits for `attach_finished` is
    never left waiting. -/
theorem C11_progress (s : State) (hr : Reachable (init true) s) (hq : ¬ Quiescent s) :
    ∃ l, l.internal = true ∧ ∃ s', step s l = some s' := by
  have h := inv_reachable s hr
  by_cases hmb' : s.mbT ≠ []
  · have hmb := hmb'
    refine ⟨.topicTake, rfl, ?_⟩
    simp only [step]
    cases hx : s.mbT with
    | nil => exact absurd hx hmb
    | cons m rest => cases m <;> exact ⟨_, rfl⟩
  have hmb : s.mbT = [] := Classical.not_not.mp hmb'
  have attach_work : ∀ g, (s.gen g).att ≠ .none → (s.gen g).att ≠ .finished → ∃ l, l.internal = true ∧ ∃ s', step s l = some s' := by
    intro g h1 h2
    have hm := active_is_cur h g (Or.inl ⟨h1, h2⟩)
    obtain ⟨_, c2, _⟩ := h.cur g hm
    cases ha : (s.gen g).att with
    | none => exact absurd ha h1
    | finished => exact absurd ha h2
    | toSend => exact ⟨.attachSend g, rfl, by simp [step, ha]⟩
    | sent => rw [hmb] at c2; simp [expectedMb, ha] at c2
    | replied => exact ⟨.attachFinish g, rfl, by simp [step, ha]⟩
  by_cases hd : s.dels = []
  · have : ¬ ∀ g, ((s.gen g).att = .none ∨ (s.gen g).att = .finished) ∧ ((s.gen g).helper = .none ∨ (s.gen g).helper = .done) :=
      fun hall => hq ⟨hmb, hd, hall⟩
    obtain ⟨g, hg⟩ := Classical.not_forall.mp this
    by_cases ha : (s.gen g).att = .none ∨ (s.gen g).att = .finished
    · have hh : ¬ ((s.gen g).helper = .none ∨ (s.gen g).helper = .done) := fun hc => hg ⟨ha, hc⟩
      have hm := active_is_cur h g (Or.inr (Or.inl ⟨fun hc => hh (Or.inl hc), fun hc => hh (Or.inr hc)⟩))
      obtain ⟨_, c2, _⟩ := h.cur g hm
      cases hx : (s.gen g).helper with
      | none => exact absurd (Or.inl hx) hh
      | done => exact absurd (Or.inr hx) hh
      | toSend => exact ⟨.helperSend g, rfl, by simp [step, hx]⟩
      | sent => rw [hmb] at c2; simp [expectedMb, hx] at c2
      | removed => exact ⟨.helperFinish g, rfl, by simp [step, hx]⟩
    · exact attach_work g (fun hc => ha (Or.inl hc)) (fun hc => ha (Or.inr hc))
  · cases hx : s.dels with
    | nil => exact absurd hx hd
    | cons g rest =>
      have hlt : g < s.next := h.dl g (by rw [hx]; simp)
      by_cases ha : (s.gen g).att = .finished
      · refine ⟨.actorDelete 0, rfl, ?_⟩
        simp only [step, hx, List.getElem?_cons_zero, ha]
        by_cases hdel : (s.gen g).deleted = true
        · simp [hdel]
        · simp [hdel]
      · have hnone : (s.gen g).att ≠ .none := by
          by_cases hc : s.mgr = some g
          · exact (h.cur g hc).2.2.2.1
          · exact fun hn => by have := (h.old g hlt hc).1; rw [hn] at this; cases this
        exact attach_work g hnone ha

/-- Deleting the topic deletes no subscription, and a subscription created afterwards on another,
    live topic is attached there like any other. -/
example : ∃ s, run (init true) [.create, .attachSend 0, .topicTake, .attachFinish 0, .topicDie, .deleteStart, .actorDeleteDirect 0,
                                 .create, .retarget 1, .attachSend 1, .topicTake, .attachFinish 1] = some s ∧
    s.topic = some 1 ∧ s.mgr = some 1 ∧ s.tdead = false := ⟨_, rfl, rfl, rfl, rfl⟩

example : ∃ s, run (init true) [.create, .deleteStart, .attachSend 0, .topicTake, .attachFinish 0, .actorDelete 0,
                                 .helperSend 0, .topicTake, .helperFinish 0, .create, .attachSend 1, .topicTake, .attachFinish 1] = some s ∧
    s.topic = some 1 ∧ s.mgr = some 1 := ⟨_, rfl, rfl, rfl⟩

example : run (init true) [.create, .deleteStart, .actorDelete 0] = none := rfl

end P1slice

/-! ### "report their topic as deleted, and are not re-attached when a topic with the same name is created again" -/

/-- In every state satisfying the global invariant and for EVERY next request (CreateTopic of the
    same name included): a subscription whose topic has been deleted keeps reporting
    `_deleted-topic_` for as long as it exists. (`Sys.abs` is the abstraction of `C10_refines_map`; a
    reference of `none` is what `GetSubscription` / `ListSubscriptions` render as `_deleted-topic_`.) -/
theorem C11_deleted_topic_is_forever (sys : Sys) (h : SysInv sys) (r : Req) (k : Name) (e : SpecSub)
    (hk : alookup k sys.abs.subs = some e) (hn : e.topic = none) :
    alookup k (sys.rpc r).1.abs.subs = none ∨ ∃ e', alookup k (sys.rpc r).1.abs.subs = some e' ∧ e'.topic = none := by
  rw [(C10_refines_map sys h r).1]
  exact Spec.deleted_topic_is_forever sys.abs r k e hk hn

/-- … and that reference is exactly what a read reports. -/
theorem C11_deleted_topic_reported (sys : Sys) (raw : Bytes) (n : Name) (e : SpecSub) (hp : parseSubName raw = some n)
    (hk : alookup n sys.abs.subs = some e) (hn : e.topic = none) :
    ∃ res, (sys.rpc (.getSub raw)).2 = .sub res ∧ res.topic = deletedTopicStr := by
  rw [findSub_abs] at hk
  cases hf : sys.findSub n with
  | none => rw [hf] at hk; cases hk
  | some ent =>
    rw [hf] at hk
    simp only [Option.map_some, Option.some.injEq] at hk
    refine ⟨sys.subRes ent, by simp [Sys.rpc, hp, hf], ?_⟩
    rw [subRes_eq, hk]
    simp [SpecSub.res, hn]

end Deltio
