import Deltio.Lemmas.SysInv
import Deltio.Lemmas.Base64
import Deltio.Model.System
/-
  C13 — Listing and pagination enumerate exactly the project's resources.
-/
namespace Deltio

/-- Effective page size: the requested size, 20 if it is zero, at most 1000. -/
theorem C13_size (sz : Nat) (off : Option Nat) :
    (Paging.new sz off).effSize = if sz = 0 then 20 else min sz 1000 := by
  unfold Paging.new Paging.effSize
  simp only
  split <;> (try split) <;> omega

/-- Never more than the effective size per page. -/
theorem C13_page_length {α} (xs : List α) (p : Paging) : (p.page xs).length ≤ p.effSize := by
  unfold Paging.page
  simp [List.length_take]
  omega

/-- A negative page size or a non-empty undecodable token is rejected, and nothing else is. -/
theorem C13_reject_iff (size : Int) (token : List Nat) :
    parsePaging size token = none ↔ (size < 0 ∨ (token ≠ [] ∧ decodeToken token = none)) := by
  unfold parsePaging i32TryUsize
  by_cases hs : 0 ≤ size
  · have hs' : ¬ size < 0 := by omega
    cases token with
    | nil => simp [hs, hs']
    | cons c cs =>
      cases h : decodeToken (c :: cs) with
      | none => simp [h]
      | some n => simp [h, hs, hs']
  · have hs' : size < 0 := by omega
    cases token with
    | nil => simp [hs, hs']
    | cons c cs =>
      cases h : decodeToken (c :: cs) with
      | none => simp [h]
      | some n => simp [h, hs, hs']

/-- Tokens the server issues decode to the offset they encode (for every `usize` offset). -/
theorem C13_token (n : Nat) (h : n < 18446744073709551616) : decodeToken (encodeToken n) = some n :=
  decode_encode_token n h

/-- Any offset whatsoever — issued or not — yields a page that is a contiguous part of the
    listing (possibly empty), and a next offset is only formed when the page is non-empty, in
    which case it does not exceed the length of the listing (no overflow for huge offsets). -/
theorem C13_any_token_ok {α} (xs : List α) (sz : Nat) (off : Nat) :
    let p := Paging.new sz (some off)
    (p.page xs).Sublist xs ∧
    (∀ o, p.nextOffset (p.page xs).length = some o → o ≤ xs.length ∧ off < xs.length) := by
  intro p
  refine ⟨?_, ?_⟩
  · exact (List.take_sublist _ _).trans (List.drop_sublist _ _)
  · intro o ho
    unfold Paging.nextOffset at ho
    split at ho
    · rename_i hne
      simp at ho
      have hs : p.toSkip = off := by simp [p, Paging.new, Paging.toSkip]
      have hl : (p.page xs).length ≤ xs.length - off := by
        unfold Paging.page; rw [hs]; simp [List.length_take]; omega
      rw [hs] at ho
      omega
    · simp at ho

theorem take_append_drop_length {α} (D : List α) (n : Nat) : D.take n ++ D.drop (D.take n).length = D := by
  by_cases h : n ≤ D.length
  · have : (D.take n).length = n := by simp [List.length_take]; omega
    rw [this]; exact List.take_append_drop n D
  · have h1 : D.take n = D := List.take_of_length_le (by omega)
    rw [h1]; simp

/-- `walk` from offset `off`: the pages concatenate to the rest of the listing. -/
theorem walk_concat {α} (xs : List α) (size : Nat) :
    ∀ (fuel : Nat) (off : Option Nat), xs.length - off.getD 0 < fuel →
      (walk xs size fuel off).flatten = xs.drop (off.getD 0) ∧
      (∀ pg ∈ walk xs size fuel off, pg.length ≤ (Paging.new size none).effSize) ∧
      (walk xs size fuel off).getLast? = some [] := by
  intro fuel
  induction fuel with
  | zero => intro off h; omega
  | succ fuel ih =>
    intro off h
    have hskip : (Paging.new size off).toSkip = off.getD 0 := by simp [Paging.new, Paging.toSkip]
    have heff : (Paging.new size off).effSize = (Paging.new size none).effSize := by simp [Paging.new, Paging.effSize]
    have hpos : 0 < (Paging.new size off).effSize := by
      rw [C13_size]; split <;> omega
    unfold walk
    simp only
    cases hn : (Paging.new size off).nextOffset ((Paging.new size off).page xs).length with
    | none =>
      unfold Paging.nextOffset at hn
      split at hn
      · simp at hn
      · rename_i hz
        have hz' : ((Paging.new size off).page xs).length = 0 := by omega
        have hnil : (Paging.new size off).page xs = [] := List.length_eq_zero_iff.mp hz'
        have hdrop : xs.drop (off.getD 0) = [] := by
          unfold Paging.page at hnil
          rw [hskip] at hnil
          cases hd : xs.drop (off.getD 0) with
          | nil => rfl
          | cons y ys =>
            rw [hd] at hnil
            have : 0 < (List.take (Paging.new size off).effSize (y :: ys)).length := by
              simp [List.length_take]; omega
            rw [hnil] at this; simp at this
        simp [hnil, hdrop]
    | some o =>
      unfold Paging.nextOffset at hn
      split at hn
      · rename_i hne
        simp at hn
        rw [hskip] at hn
        have hlen : ((Paging.new size off).page xs).length ≤ xs.length - off.getD 0 := by
          unfold Paging.page; rw [hskip]; simp [List.length_take]; omega
        have hfuel : xs.length - (some o : Option Nat).getD 0 < fuel := by simp; omega
        obtain ⟨h1, h2, h3⟩ := ih (some o) hfuel
        refine ⟨?_, ?_, ?_⟩
        · simp only [List.flatten_cons, h1]
          simp only [Option.getD_some]
          unfold Paging.page
          rw [hskip, ← hn, ← List.drop_drop]
          exact take_append_drop_length _ _
        · intro pg hpg
          simp at hpg
          rcases hpg with rfl | hpg
          · rw [← heff]; exact C13_page_length xs _
          · exact h2 pg hpg
        · rw [List.getLast?_cons]
          simp [h3]
      · simp at hn

/-- Following `next_page_token` from the first page until it is empty yields every element
    exactly once and in order, with no page longer than the effective size; the walk ends with the
    empty page whose token is empty. -/
theorem C13_walk {α} (xs : List α) (size : Nat) :
    (walk xs size (xs.length + 1) none).flatten = xs ∧
    (∀ pg ∈ walk xs size (xs.length + 1) none, pg.length ≤ (Paging.new size none).effSize) := by
  have h := walk_concat xs size (xs.length + 1) none (by simp)
  exact ⟨by simpa using h.1, h.2.1⟩

/-! ### Non-vacuity -/
example : walk [1, 2, 3, 4, 5] 2 6 none = [[1, 2], [3, 4], [5], []] := by decide
example : parsePaging (-1) [] = none := by decide
example : (Paging.new 5000 (some 3)).page [10, 11, 12, 13, 14] = [13, 14] := by decide


/-! ### The listings are in creation order, whatever happened before -/

/-- After any history, the topic list and the subscription list of the model are sorted by
    strictly increasing internal id (ids are handed out by counters that only grow), i.e. they are in
    creation order and sorting by id — what the server does with the HashMap's arbitrary iteration
    order — yields exactly this order. A listing is the sublist of the entries of the requested
    project (nothing of another project passes the filter), paged by `C13_walk`. -/
theorem C13_listing_is_creation_order (ops : List SysOp) (project : Bytes) :
    let sys := Sys.init.execOps ops
    ((sys.topics.filter (fun t => t.name.1 == project)).map (·.tid)).Pairwise (· < ·) ∧
    ((sys.subs.filter (fun e => e.name.1 == project)).map (·.sid)).Pairwise (· < ·) ∧
    (∀ t ∈ sys.topics.filter (fun t => t.name.1 == project), t.name.1 = project) := by
  intro sys
  have h := SysInv_all ops
  have e3 : sys.tsh.map (·.tid) = sys.topics.map (·.tid) := by simp [Sys.tsh, List.map_map, Function.comp]
  have e4 : sys.ssh.map (·.sid) = sys.subs.map (·.sid) := by simp [Sys.ssh, List.map_map, Function.comp]
  refine ⟨?_, ?_, ?_⟩
  · exact (e3 ▸ h.tids).sublist (List.filter_sublist.map _)
  · exact (e4 ▸ h.sids).sublist (List.filter_sublist.map _)
  · intro t ht; simpa using (List.mem_filter.mp ht).2

end Deltio
