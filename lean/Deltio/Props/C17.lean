import Deltio.Model.System
import Deltio.Props.C05
/-
  C17 — Malformed requests are rejected cleanly and change nothing.
  The model's handlers are total functions into (state × gRPC status / response); that the Rust
  does not panic or hang on these inputs is what the correspondence run adds (every case under
  catch_unwind with a virtual-time watchdog).
-/
namespace Deltio

/-- The malformed-field predicate of the statement, per request kind. -/
def Malformed (now : Nat) : Req → Prop
  | .createTopic n => parseTopicName n = none
  | .getTopic n => parseTopicName n = none
  | .deleteTopic n => parseTopicName n = none
  | .listTopics p size tok => parsePaging size (bytesToNats tok) = none ∨ parseProject p = none
  | .listTopicSubs t size tok => parseTopicName t = none ∨ parsePaging size (bytesToNats tok) = none
  | .createSub n t _ push => parseTopicName t = none ∨ parseSubName n = none ∨ (∃ p, push = some p ∧ parsePushCfg p = none)
  | .getSub n => parseSubName n = none
  | .listSubs p size tok => parsePaging size (bytesToNats tok) = none ∨ parseProject p = none
  | .deleteSub n => parseSubName n = none
  | .publish t _ => parseTopicName t = none
  | .pull n _ _ => parseSubName n = none
  | .ack n ids => parseAckIds ids = none ∨ parseSubName n = none
  | .modAck n secs ids => parseMods now ids (ids.map (fun _ => secs)) = none ∨ parseSubName n = none
  | .unimplemented => False

/-- A malformed field is answered INVALID_ARGUMENT and the state is unchanged — for every request
    kind, every state, every other field value. -/
theorem C17_invalid_argument (sys : Sys) (r : Req) (h : Malformed sys.clock r) :
    sys.rpc r = (sys, .err .invalidArgument) := by
  cases r with
  | createTopic n => simp only [Malformed] at h; simp [Sys.rpc, h]
  | getTopic n => simp only [Malformed] at h; simp [Sys.rpc, h]
  | deleteTopic n => simp only [Malformed] at h; simp [Sys.rpc, h]
  | listTopics p size tok =>
    simp only [Malformed] at h
    rcases h with h | h
    · simp [Sys.rpc, h]
    · simp only [Sys.rpc, h]; split <;> rfl
  | listTopicSubs t size tok =>
    simp only [Malformed] at h
    rcases h with h | h
    · simp [Sys.rpc, h]
    · simp only [Sys.rpc, h]; split <;> rfl
  | createSub n t a push =>
    simp only [Malformed] at h
    rcases h with h | h | ⟨p, rfl, hp⟩
    · simp [Sys.rpc, h]
    · simp only [Sys.rpc, h]; split <;> rfl
    · simp only [Sys.rpc, hp, Option.map_none]
      split
      · rfl
      · split <;> rfl
  | getSub n => simp only [Malformed] at h; simp [Sys.rpc, h]
  | listSubs p size tok =>
    simp only [Malformed] at h
    rcases h with h | h
    · simp [Sys.rpc, h]
    · simp only [Sys.rpc, h]; split <;> rfl
  | deleteSub n => simp only [Malformed] at h; simp [Sys.rpc, h]
  | publish t ms => simp only [Malformed] at h; simp [Sys.rpc, h]
  | pull n mx ri => simp only [Malformed] at h; simp [Sys.rpc, h]
  | ack n ids =>
    simp only [Malformed] at h
    rcases h with h | h
    · simp [Sys.rpc, h]
    · simp only [Sys.rpc, h]; split <;> rfl
  | modAck n secs ids =>
    simp only [Malformed] at h
    rcases h with h | h
    · simp [Sys.rpc, h]
    · simp only [Sys.rpc, h]; split <;> rfl
  | unimplemented => exact absurd h (by simp [Malformed])

/-- One bad element at any position of an otherwise valid batch of ack ids rejects the batch. -/
theorem C17_bad_element_position (pre post : List Bytes) (bad : Bytes) (hb : parseAckId bad = none) :
    parseAckIds (pre ++ bad :: post) = none := by
  induction pre with
  | nil => simp [parseAckIds, hb]
  | cons p ps ih =>
    simp only [List.cons_append, parseAckIds, ih]
    cases parseAckId p <;> rfl

/-- Every request that is answered with an error status (validation or lookup failure) leaves the
    state unchanged; only OK responses change anything. Hence the server keeps serving all other
    resources exactly as before. -/
theorem C17_rejected_changes_nothing (sys : Sys) (r : Req) (st : Status) (h : (sys.rpc r).2 = .err st) :
    (sys.rpc r).1 = sys := by
  cases r <;> simp only [Sys.rpc] at h ⊢ <;> (repeat' split) <;> first | rfl | (exfalso; simp_all)

/-- A StreamingPull control message that fails validation — subscription set, positive
    max_*, lists of different length, a malformed ack id or modify id, negative seconds — applies
    none of its acknowledgements or modifications: the subscription state is untouched and the
    stream ends with INVALID_ARGUMENT. -/
theorem C17_stream_ctl_atomic (sys : Sys) (k : Nat) (c : StreamCtl) (st : Status)
    (h : validateCtl sys.clock c = .error st) :
    (sys.streamSend k c).subs = sys.subs ∧ (sys.streamSend k c).topics = sys.topics ∧ st = .invalidArgument := by
  have hst : st = .invalidArgument := by
    unfold validateCtl at h
    split at h
    · simp at h; exact h.symm
    · split at h
      · simp at h; exact h.symm
      · split at h
        · simp at h; exact h.symm
        · split at h
          · simp at h; exact h.symm
          · split at h
            · simp at h; exact h.symm
            · split at h
              · simp at h; exact h.symm
              · simp at h
  refine ⟨?_, ?_, hst⟩
  · unfold Sys.streamSend
    split
    · rfl
    · split
      · rfl
      · simp [h, Sys.endStream]
  · unfold Sys.streamSend
    split
    · rfl
    · split
      · rfl
      · simp [h, Sys.endStream]

/-! ### Non-vacuity -/
example : Malformed 0 (.modAck (displaySub ([112], [115])) (-1) [[49]]) := by
  left; decide
example : validateCtl 0 { subscription := [], ackIds := [[49]], modIds := [[120]], modSecs := [10], maxMsgs := 0, maxBytes := 0 }
    = .error .invalidArgument := by rfl

end Deltio
