import Deltio.Proto.Wake
import Deltio.Lemmas.Drain
/-
  C06 — Waiting consumers are woken when a message becomes available.
  Slice P2 (Deltio/Proto/Wake.lean): all interleavings, any number of consumers of both kinds,
  any batch limits, consumers cancelled while waiting or while being woken.
-/
namespace Deltio
open P2

/-- Token invariant. `W1`: if a message is queued then a wake-up token exists — the stored permit,
    a notified consumer, or a pull request in the mailbox. `N1`: the permit is only stored while
    nobody is parked. -/
structure WakeInv (s : State) : Prop where
  w1 : s.deleted = false → s.backlog > 0 → s.permit = true ∨ s.q + s.notif > 0
  n1 : s.permit = true → s.parked = 0
  nb : s.blk = 0

theorem C06_inv_init : WakeInv P2.init := by constructor <;> simp [P2.init]

/-- The invariant is preserved by every step when a woken consumer's send cannot be stuck on a
    full mailbox (`bounded = false`): all publishes / nacks / expiries, all pull turns, every
    cancellation point of a consumer. -/
theorem C06_inv_step {s s' : State} (h : WakeInv s) (l : Label) (hs : step false false s l = some s') : WakeInv s' := by
  obtain ⟨w1, n1, nb⟩ := h
  cases l <;> simp only [step, notifyOne] at hs <;> (repeat' split at hs) <;>
    first
      | (simp at hs; done)
      | (simp only [Option.some.injEq] at hs; subst hs
         constructor <;> simp_all <;> omega)

theorem C06_inv_run : ∀ (ls : List Label) (s s' : State), WakeInv s → run false false s ls = some s' → WakeInv s' := by
  intro ls
  induction ls with
  | nil => intro s s' h hr; simp [run] at hr; subst hr; exact h
  | cons l ls ih =>
    intro s s' h hr
    simp only [run] at hr
    split at hr
    · rename_i s1 hs; exact ih s1 s' (C06_inv_step h l hs) hr
    · simp at hr

/-- No lost wake-up / hand-off: in every reachable quiescent state — no pull request queued,
    nobody notified-but-not-run, nobody between result and wait — a queued message implies that
    NO consumer is parked. Equivalently: while any consumer waits, no message stays queued. -/
theorem C06_no_lost_wakeup (ls : List Label) (s : State) (hr : run false false P2.init ls = some s)
    (hq : Quiescent s) (hd : s.deleted = false) (hb : s.backlog > 0) : s.parked = 0 := by
  have h := C06_inv_run ls _ _ C06_inv_init hr
  obtain ⟨hq1, _, _, hq4, _, _⟩ := hq
  have := h.w1 hd hb
  rcases this with hp | hp
  · exact h.n1 hp
  · omega

/-- The Notify model: a stored permit is consumed by exactly one poll; a notified waiter that is
    dropped before running forwards the notification. -/
theorem C06_notify_model_ok (s : State) :
    (s.permit = true → s.g0 > 0 → s.deleted = false →
      ∃ s', step false false s .poll = some s' ∧ s'.permit = false ∧ s'.q = s.q + 1) ∧
    (s.notif > 0 → ∃ s', step false false s .cancelNotified = some s' ∧
      ((s.parked > 0 ∧ s'.notif = s.notif ∧ s'.parked = s.parked - 1) ∨ (s.parked = 0 ∧ s'.permit = true))) := by
  constructor
  · intro hp hg hd
    have : ¬ s.g0 = 0 := by omega
    simp [step, this, hd, hp]
  · intro hn
    have : ¬ s.notif = 0 := by omega
    simp only [step, this, ↓reduceIte, notifyOne]
    by_cases hpk : s.parked > 0
    · simp [hpk]; omega
    · simp [hpk]; omega

/-! ### The bounded-mailbox corner (the code before fix commit 094936c): a woken consumer that is abandoned while
    its next pull request is blocked on a FULL subscription mailbox has consumed the notification
    and forwards nothing. Witness: two consumers park, one message is posted, the woken consumer
    blocks and is cancelled — quiescent, one message queued, one consumer parked for ever. -/
def swallowed : State :=
  { backlog := 1, permit := false, q := 0, g0 := 0, gp := 0, parked := 1, notif := 0, blk := 0, other := 0,
    deleted := false, ended := 0, silent := 0 }

theorem C06_pinned_swallowed :
    run true false P2.init [.arrive, .arrive, .pullTurn 1, .pullTurn 1, .poll, .poll, .otherArrive, .post 1, .block, .cancelBlocked, .otherTurn] = some swallowed ∧
      Quiescent swallowed ∧ swallowed.backlog = 1 ∧ swallowed.parked = 1 := by
  refine ⟨by decide, ?_, rfl, rfl⟩
  unfold Quiescent; decide

/-! ### The repaired actor loop (fix commit 094936c): re-notify after every handled request while the backlog
    is non-empty. The token invariant then also counts the queued non-pull requests, and survives the
    abandonment of a consumer blocked on a full mailbox. -/

structure WakeInvR (s : State) : Prop where
  w1 : s.deleted = false → s.backlog > 0 → s.permit = true ∨ s.q + s.notif + s.other > 0
  n1 : s.permit = true → s.parked = 0

theorem C06_invR_init : WakeInvR P2.init := by constructor <;> simp [P2.init]

theorem C06_invR_step {s s' : State} (h : WakeInvR s) (l : Label) (hs : step true true s l = some s') : WakeInvR s' := by
  obtain ⟨w1, n1⟩ := h
  cases l <;> simp only [step, notifyOne] at hs <;> (repeat' split at hs) <;>
    first
      | (simp at hs; done)
      | (simp only [Option.some.injEq] at hs; subst hs
         constructor <;> simp_all <;> omega)

theorem C06_invR_run : ∀ (ls : List Label) (s s' : State), WakeInvR s → run true true s ls = some s' → WakeInvR s' := by
  intro ls
  induction ls with
  | nil => intro s s' h hr; simp [run] at hr; subst hr; exact h
  | cons l ls ih =>
    intro s s' h hr
    simp only [run] at hr
    split at hr
    · rename_i s1 hs; exact ih s1 s' (C06_invR_step h l hs) hr
    · simp at hr

/-- No lost wake-up with bounded mailboxes and cancellation at EVERY await, including a woken
    consumer abandoned while its pull request waits for room in a full mailbox. -/
theorem C06_no_lost_wakeup_bounded (ls : List Label) (s : State) (hr : run true true P2.init ls = some s)
    (hq : Quiescent s) (hd : s.deleted = false) (hb : s.backlog > 0) : s.parked = 0 := by
  have h := C06_invR_run ls _ _ C06_invR_init hr
  obtain ⟨hq1, _, _, hq4, _, hq6⟩ := hq
  rcases h.w1 hd hb with hp | hp
  · exact h.n1 hp
  · omega

/-! ### Non-vacuity -/
example : run false false P2.init [.arrive, .arrive, .pullTurn 1, .pullTurn 1, .poll, .poll, .post 3, .wake, .pullTurn 1, .wake, .ret false,
      .pullTurn 1, .ret false] =
    some { backlog := 1, permit := true, q := 0, g0 := 0, gp := 0, parked := 0, notif := 0, blk := 0, other := 0, deleted := false, ended := 0, silent := 0 } := by
  decide

/-! ### System level, sequential histories: a StreamingPull never leaves messages queued -/

theorem DrainInv_init : DrainInv Sys.init := by
  constructor
  · simp [Sys.init]
  · intro e he; simp [Sys.init] at he
  · intro s hs; simp [Sys.init] at hs

theorem DrainInv_execOps : ∀ (ops : List SysOp) (sys : Sys), DrainInv sys → sys.admitsAll ops → DrainInv (sys.execOps ops) := by
  intro ops
  induction ops with
  | nil => intro sys h _; exact h
  | cons op rest ih =>
    intro sys h hadm
    exact ih _ (DrainInv_apply h op hadm.1) hadm.2

/-- C06 (system model, all admissible sequential histories — any requests, stream operations and
    time advances, with a possibly blocking Pull only on a subscription nobody streams from): at
    every moment, for every open StreamingPull, nothing is queued on its subscription. Whatever
    became available — by publish, nack, deadline expiry, through the expiry re-check after any
    request — has been handed to a stream: the pull loop's fuel always suffices
    (`drainStream_drains`) and every step that can queue a message is followed by the drain. -/
theorem C06_streams_drained (ops : List SysOp) (hadm : Sys.init.admitsAll ops) :
    ∀ s ∈ (Sys.init.execOps ops).streams, s.ended = false →
      ∀ st, (Sys.init.execOps ops).stateOf s.sid = some st → st.backlog = [] :=
  (DrainInv_execOps ops Sys.init DrainInv_init hadm).drained

/-! non-vacuity: a stream opened on `p/a`, then a publish: delivered to the stream, nothing queued -/
example :
    let s1 := (exSys.streamOpen 1 exS1 10).1
    let s2 := (s1.rpc (.publish exT [([1], [])])).1
    (s2.stateOf 2).map (fun st => (st.backlog.length, st.out.msgs.length)) = some (0, 1) ∧
    (s2.streams.map (fun s => s.outbox.length)) = [1] ∧
    (s2.stateOf 3).map (fun st => st.backlog.length) = some 1 := by decide

end Deltio
