import Deltio.Model.System
import Deltio.Lemmas.Timer
/-
  C15 — Pull batches respect their size limit and are empty only when allowed.
  Part 1 (all inputs): the number of messages one pull turn hands out.
-/
namespace Deltio

/-- What the `pull_messages` loop does, in closed form: it hands out the first
    `pullCount max16 |backlog|` messages of the backlog, with consecutive fresh ack ids. -/
theorem pullLoop_spec (cap dl : Nat) :
    ∀ (bl : List Msg) (na : Nat) (out : Tracker) (res : List Deliv),
      let r := pullLoop cap dl bl na out res
      let n := min bl.length (max (cap - res.length) 1)
      r.1 = bl.drop n ∧ r.2.1 = na + n ∧
      r.2.2.2 = res ++ (List.range n).map (fun i => ({ ack := na + i, msg := bl[i]?.getD ⟨0, [], [], 0⟩, deadline := dl } : Deliv)) ∧
      r.2.2.2.length = res.length + n := by
  intro bl
  induction bl with
  | nil => intro na out res; simp [pullLoop]
  | cons m rest ih =>
    intro na out res
    simp only [pullLoop]
    split
    · rename_i hge
      simp only [List.length_append, List.length_cons, List.length_nil] at hge
      have hn : min (m :: rest).length (max (cap - res.length) 1) = 1 := by
        simp only [List.length_cons]; omega
      simp only [hn]
      simp [List.range_succ]
    · rename_i hlt
      simp only [List.length_append, List.length_cons, List.length_nil, ge_iff_le, Nat.not_le] at hlt
      have ih' := ih (na + 1) (out.add { ack := na, msg := m, deadline := dl }) (res ++ [{ ack := na, msg := m, deadline := dl }])
      simp only [List.length_append, List.length_cons, List.length_nil] at ih'
      obtain ⟨h1, h2, h3, h4⟩ := ih'
      have hn : min (m :: rest).length (max (cap - res.length) 1)
          = min rest.length (max (cap - (res.length + 1)) 1) + 1 := by
        simp only [List.length_cons]; omega
      simp only [hn]
      refine ⟨?_, ?_, ?_, ?_⟩
      · simpa using h1
      · rw [h2]; omega
      · rw [h3]
        simp only [List.append_assoc, List.singleton_append]
        congr 1
        rw [List.range_succ_eq_map, List.map_cons, List.map_map]
        simp only [List.getElem?_cons_zero, Option.getD_some, Nat.add_zero, List.cons.injEq, true_and]
        apply List.map_congr_left
        intro i _
        simp only [Function.comp, List.getElem?_cons_succ]
        congr 1; omega
      · rw [h4]; omega

/-- Number of messages in the response of one pull turn (subscription not deleted). -/
theorem C15_capacity (s : SubState) (max16 now : Nat) (hd : s.deleted = false) :
    (s.turn (.pull max16 now)).2.delivered.length = pullCount max16 s.backlog.length := by
  simp only [SubState.turn, hd]
  have h := pullLoop_spec (pullCapacity max16 s.backlog.length) (roundDeadline (now + s.ackDl)) s.backlog s.nextAck s.out []
  simp only [List.length_nil, Nat.sub_zero, List.nil_append, Nat.zero_add] at h
  have h4 := h.2.2.2
  simp only [Bool.false_eq_true, ↓reduceIte]
  rw [h4]; rfl

/-- Unary Pull: `max_messages ≥ 1` (any i32) never yields more than `max_messages` messages,
    including the values where the 16-bit conversion wraps (65536 ↦ 0 ↦ one message). -/
theorem C15_unary (mx : Int) (backlogLen : Nat) (h1 : 1 ≤ mx) :
    (pullCount (i32AsU16 mx) backlogLen : Int) ≤ mx := by
  unfold pullCount pullCapacity i32AsU16 usizeAsU16
  omega

/-- StreamingPull: `max_outstanding_messages` outside `[0, 65535]` is rejected; inside, every
    response has at most that many messages when it is positive. -/
theorem C15_stream (mo : Int) :
    (i32TryU16 mo = none ↔ (mo < 0 ∨ 65535 < mo)) ∧
    (∀ m16, i32TryU16 mo = some m16 → 1 ≤ mo → ∀ backlogLen, (pullCount m16 backlogLen : Int) ≤ mo) := by
  unfold i32TryU16
  constructor
  · split <;> simp <;> omega
  · intro m16 h hpos bl
    split at h
    · simp at h; subst h
      unfold pullCount pullCapacity usizeAsU16
      omega
    · simp at h

/-- A response is never empty when the backlog is not. -/
theorem C15_nonempty (max16 backlogLen : Nat) (h : 0 < backlogLen) : 0 < pullCount max16 backlogLen := by
  unfold pullCount; omega

/-! ### Non-vacuity and the wrap-around corner cases -/
example : pullCount (i32AsU16 65536) 5000 = 1 := by decide
example : pullCount (i32AsU16 65537) 5000 = 1 := by decide
example : pullCount (i32AsU16 2147483647) 70000 = 4464 := by decide
example : pullCount (i32AsU16 1000) 70000 = 1000 := by decide
example : pullCount (i32AsU16 (-1)) 70000 = 4464 := by decide

/-! ### The empty-response rule at system level -/

/-- C15, the empty-response rule at system level, for every state reached by any history
    (`SubsOk_all`, `SysInv_all`) in which no StreamingPull is open and fewer than 10^6 deliveries are
    outstanding when the wait begins: a Pull without `return_immediately` on an existing
    subscription answers with an empty response only if the clock has reached its wait limit —
    otherwise it returns the messages that became available (at once after the expiry re-check,
    or when the earliest expiry timer of the subscription fires). -/
theorem C15_blocking_pull_aux (sys : Sys) (raw : Bytes) (mx : Int) (n : Name) (e : SubEnt)
    (hp : parseSubName raw = some n) (hf : sys.findSub n = some e)
    (hs : sys.streams = []) (hok : SubsOk sys) (hinv : SysInv sys)
    (hfuel : (sys.subTurn e.sid (.pull (i32AsU16 mx) sys.clock)).1.totalOut ≤ 1000000)
    (hempty : (sys.rpc (.pull raw mx false)).2 = .msgs []) :
    ceilMs (sys.clock + pullLimitUs) + sys.clock % 1000 ≤ (sys.rpc (.pull raw mx false)).1.clock := by
  have hu := SidsUnique_of_SysInv hinv
  have hmem : e ∈ sys.subs := List.mem_of_find?_eq_some hf
  have hid : ∃ e', sys.findSubById e.sid = some e' := ⟨e, find_unique sys.subs hu e hmem⟩
  refine blocking_pull_settled sys raw mx n e hp hf hid hs hok ?_ hempty
  intro t
  apply advanceTo_settled
  · rw [subTurn_streams]; exact hs
  · exact SubsOk_subTurn hok _ _ (by simp)
  · unfold SidsUnique; rw [sids_subTurn]; exact hu
  · exact hfuel

theorem pull_empty_keeps_out (s : SubState) (mx now : Nat) (h : (s.turn (.pull mx now)).2.delivered = []) :
    (s.turn (.pull mx now)).1.out = s.out := by
  cases hd : s.deleted with
  | true => simp [SubState.turn, hd]
  | false =>
    have := pull_turn s mx now hd
    rw [this.2] at h
    rw [this.1]
    simp only
    rw [h]
    rfl

theorem expire_len_le {s : SubState} (h : SubInv s) (now : Nat) :
    (s.turn (.expire now)).1.out.msgs.length ≤ s.out.msgs.length := by
  simp only [SubState.turn]
  obtain ⟨t', ds, he, _⟩ := Inv_takeExpired h.out now
  rw [he]
  obtain ⟨_, hp, _, _⟩ := takeExpired_spec h.out now he
  have hl := hp.length_eq
  simp only [List.length_append] at hl
  by_cases hds : ds.isEmpty = true
  · simp [hds]
  · simp only [hds, Bool.false_eq_true, ↓reduceIte]
    omega

theorem sum_set_le : ∀ (l : List SubEnt), (l.map (·.sid)).Nodup → ∀ (e : SubEnt) (st : SubState), e ∈ l →
    st.out.msgs.length ≤ e.st.out.msgs.length →
    ((l.map (fun x => if x.sid == e.sid then { x with st := st } else x)).map (fun x => x.st.out.msgs.length)).sum
      ≤ (l.map (fun x => x.st.out.msgs.length)).sum := by
  intro l
  induction l with
  | nil => intro _ e st he; simp at he
  | cons y ys ih =>
    intro hu e st he hlt
    simp only [List.map_cons, List.nodup_cons] at hu
    simp only [List.mem_cons] at he
    simp only [List.map_cons, List.sum_cons]
    rcases he with rfl | he
    · simp only [beq_self_eq_true, ↓reduceIte]
      have hid : ys.map (fun x => if x.sid == e.sid then { x with st := st } else x) = ys := by
        have : ys.map (fun x => if x.sid == e.sid then { x with st := st } else x) = ys.map id := by
          apply List.map_congr_left
          intro x hx
          have : (x.sid == e.sid) = false := by
            simp only [beq_eq_false_iff_ne, ne_eq]
            intro hc
            exact hu.1 (by rw [← hc]; exact List.mem_map_of_mem hx)
          simp [this]
        rw [this, List.map_id]
      rw [hid]; omega
    · have hne : (y.sid == e.sid) = false := by
        simp only [beq_eq_false_iff_ne, ne_eq]
        intro hc
        exact hu.1 (by rw [hc]; exact List.mem_map_of_mem he)
      simp only [hne, Bool.false_eq_true, ↓reduceIte]
      have := ih hu.2 e st he hlt
      omega

/-- C15, the empty-response rule at system level for every state satisfying the global invariants
    (all reachable ones: `SubsOk_all`, `SysInv_all`) in which no StreamingPull is open and at most 10^6
    deliveries are outstanding: a Pull without `return_immediately` on an existing subscription
    answers with an empty response only if the clock has reached its wait limit. -/
theorem C15_blocking_pull (sys : Sys) (raw : Bytes) (mx : Int) (n : Name) (e : SubEnt)
    (hp : parseSubName raw = some n) (hf : sys.findSub n = some e)
    (hs : sys.streams = []) (hok : SubsOk sys) (hinv : SysInv sys) (hfuel : sys.totalOut ≤ 1000000)
    (hempty : (sys.rpc (.pull raw mx false)).2 = .msgs []) :
    ceilMs (sys.clock + pullLimitUs) + sys.clock % 1000 ≤ (sys.rpc (.pull raw mx false)).1.clock := by
  have hu := SidsUnique_of_SysInv hinv
  have hmem : e ∈ sys.subs := List.mem_of_find?_eq_some hf
  have hfind : sys.findSubById e.sid = some e := find_unique sys.subs hu e hmem
  by_cases hd : ((sys.subTurn e.sid (.pull (i32AsU16 mx) sys.clock)).2.delivered) = []
  · refine C15_blocking_pull_aux sys raw mx n e hp hf hs hok hinv ?_ hempty
    -- an empty pull followed by the expiry re-check does not add outstanding deliveries
    have ho : (e.st.turn (.pull (i32AsU16 mx) sys.clock)).2.delivered = [] := by
      have := subTurn_out sys e.sid (.pull (i32AsU16 mx) sys.clock) e.st (stateOf_of_find hfind)
      rw [this] at hd; exact hd
    have h1 := pull_empty_keeps_out e.st _ _ ho
    have hinv1 : SubInv (e.st.turn (.pull (i32AsU16 mx) sys.clock)).1 := SubInv_turn (hok e hmem).1 _
    have h2 := expire_len_le hinv1 sys.clock
    rw [h1] at h2
    have := sum_set_le sys.subs hu e ((e.st.turn (.pull (i32AsU16 mx) sys.clock)).1.turn (.expire sys.clock)).1 hmem h2
    have heq : (sys.subTurn e.sid (.pull (i32AsU16 mx) sys.clock)).1.totalOut
        = ((sys.subs.map (fun x => if x.sid == e.sid then { x with st := ((e.st.turn (.pull (i32AsU16 mx) sys.clock)).1.turn (.expire sys.clock)).1 } else x)).map (fun x => x.st.out.msgs.length)).sum := by
      simp only [Sys.totalOut, Sys.subTurn, hfind, Sys.setSubState]
    rw [heq]
    have : sys.totalOut = (sys.subs.map (fun x => x.st.out.msgs.length)).sum := rfl
    omega
  · -- something was delivered at once: the answer is not empty
    exfalso
    simp only [Sys.rpc, hp, hf] at hempty
    have hne : (!(sys.subTurn e.sid (.pull (i32AsU16 mx) sys.clock)).2.delivered.isEmpty || false) = true := by
      simp only [Bool.or_false, Bool.not_eq_true', List.isEmpty_eq_false_iff]
      exact hd
    rw [if_pos hne] at hempty
    simp only [Resp.msgs.injEq] at hempty
    exact hd hempty

/-- C15's empty-response rule for every reachable state. -/
theorem C15_blocking_pull_reachable (ops : List SysOp) (raw : Bytes) (mx : Int) (n : Name) (e : SubEnt)
    (hp : parseSubName raw = some n) (hf : (Sys.init.execOps ops).findSub n = some e)
    (hs : (Sys.init.execOps ops).streams = [])
    (hfuel : (Sys.init.execOps ops).totalOut ≤ 1000000)
    (hempty : ((Sys.init.execOps ops).rpc (.pull raw mx false)).2 = .msgs []) :
    ceilMs ((Sys.init.execOps ops).clock + pullLimitUs) + (Sys.init.execOps ops).clock % 1000
      ≤ ((Sys.init.execOps ops).rpc (.pull raw mx false)).1.clock :=
  C15_blocking_pull _ raw mx n e hp hf hs (SubsOk_all ops) (SysInv_all ops) hfuel hempty

/-! Non-vacuity: the conclusion's two cases on the concrete system `exSys` (Lemmas/SysSub.lean). -/
example : (exSys.rpc (.pull exS1 10 false)).2 = .msgs [] ∧ (exSys.rpc (.pull exS1 10 false)).1.clock = 300000000 := by decide
example :
    let s1 := (exSys.rpc (.publish exT [([1], [])])).1
    let s2 := (s1.rpc (.pull exS1 10 true)).1          -- leased until 10 s
    (s2.rpc (.pull exS1 10 false)).2 ≠ .msgs [] ∧ (s2.rpc (.pull exS1 10 false)).1.clock = 10000000 := by decide

end Deltio
