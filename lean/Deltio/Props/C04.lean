import Deltio.Lemmas.SubRun
import Deltio.Props.C02
import Deltio.Lemmas.Expire
import Deltio.Lemmas.Timer
/-
  C04 — Unacked deliveries are redelivered at the ack deadline, never earlier.
  Time is µs since the process epoch; `now` arguments are universally quantified.
-/
namespace Deltio

/-- The effective ack deadline: the value the subscription was created with, but at least 10 s. -/
theorem C04_eff_deadline (v : Int) :
    (effAckDeadlineSecs v : Int) = if v ≤ 10 then 10 else v := by
  unfold effAckDeadlineSecs
  split <;> simp <;> omega

/-- Rounding never makes a deadline earlier and adds less than 100 ms. -/
theorem C04_round_bounds (t : Nat) : t ≤ roundDeadline t ∧ roundDeadline t < t + 100000 := by
  unfold roundDeadline; omega

/-- Every delivery of a pull turn at time `now` is stamped with the deadline
    `round(now + ack deadline)`, hence not before `now + ack deadline` and less than 100 ms after. -/
theorem C04_deadline_value (s : SubState) (max16 now : Nat) :
    ∀ d ∈ (s.turn (.pull max16 now)).2.delivered,
      d.deadline = roundDeadline (now + s.ackDl) ∧ now + s.ackDl ≤ d.deadline ∧ d.deadline < now + s.ackDl + 100000 := by
  intro d hd
  rcases delivered_spec s (.pull max16 now) with h | ⟨m, n, ht, _, h⟩
  · rw [h] at hd; simp at hd
  · simp at ht
    obtain ⟨rfl, rfl⟩ := ht
    rw [h] at hd
    have := (mem_mkDelivs hd).2.2.1
    have hb := C04_round_bounds (now + s.ackDl)
    omega

/-- Not before the deadline: a delivery that is neither acknowledged nor modified stays leased
    through every turn at a time before its deadline — any turn at all except an ack / modify
    naming its ack id, an expiry turn with `now ≥ deadline`, or deletion. (And while it is leased
    nobody else gets the message: `C03_exclusive`.) -/
theorem C04_not_before {s : SubState} (h : SubInv s) (d : Deliv) (hd : d ∈ s.out.msgs) (ts : List SubTurn)
    (hkeep : ∀ t ∈ ts, ¬ endsLease d.ack d.deadline t) : d ∈ (s.exec ts).out.msgs := by
  induction ts generalizing s with
  | nil => exact hd
  | cons t ts ih =>
    exact ih (SubInv_turn h t) (lease_persists h t d hd (hkeep t (by simp))) (fun u hu => hkeep u (by simp [hu]))

/-- At the deadline: the first expiry turn with `now ≥ deadline` puts the message at the back of
    the queue and wakes a consumer; the old ack id is then outstanding no more (acknowledging or
    modifying it is a no-op, `C02_noop` / `C05_unknown_ignored`), and every later delivery of the
    message carries a strictly larger ack id. -/
theorem C04_at_deadline {s : SubState} (h : SubInv s) (d : Deliv) (hd : d ∈ s.out.msgs) (now : Nat)
    (hdl : d.deadline ≤ now) :
    let s' := (s.turn (.expire now)).1
    d.msg ∈ s'.backlog ∧ (∀ x ∈ s'.out.msgs, x.ack ≠ d.ack) ∧ s'.out.lookup d.ack = none ∧
    (s.turn (.expire now)).2.notified = true ∧ d.ack < s'.nextAck ∧ (s.turn (.expire now)).2.ub = false :=
  at_deadline h d hd now hdl

/-- Redelivery carries a new ack id: whatever a later turn delivers has an ack id above the old. -/
theorem C04_new_ack_id {s : SubState} (h : SubInv s) (d : Deliv) (hd : d ∈ s.out.msgs) (ts : List SubTurn) (u : SubTurn) :
    ∀ x ∈ ((s.exec ts).turn u).2.delivered, d.ack < x.ack := by
  intro x hx
  have hmono : ∀ (q : List SubTurn) (s' : SubState), s'.nextAck ≤ (s'.exec q).nextAck := by
    intro q
    induction q with
    | nil => intro s'; exact Nat.le_refl _
    | cons t q ih => intro s'; exact Nat.le_trans (nextAck_mono s' t) (ih _)
  have h1 := (delivered_from_backlog _ u x hx).2.1
  have h2 := hmono ts s
  have := h.acks d hd
  omega

/-- The expiry timer is armed for the earliest deadline: `next_expiration` is the minimum. -/
theorem C04_next_expiration_min {t : Tracker} (h : t.Inv) :
    ∀ d ∈ t.msgs, ∃ e, t.nextExpiration = some e ∧ e ≤ d.deadline := by
  intro d hd
  have hk := (h.agree d.key).mpr ⟨d, hd, rfl⟩
  unfold Tracker.nextExpiration
  cases he : t.exps with
  | nil => rw [he] at hk; simp at hk
  | cons k ks =>
    refine ⟨k.1, by simp, ?_⟩
    rw [he] at hk
    simp only [List.mem_cons] at hk
    rcases hk with hk | hk
    · rw [← hk]; simp [Deliv.key]
    · have hs := h.sorted
      unfold KeySorted at hs
      rw [he, List.pairwise_cons] at hs
      have := hs.1 _ hk
      simp only [keyLt, Deliv.key, Bool.or_eq_true, Bool.and_eq_true, beq_iff_eq] at this
      rcases this with h1 | ⟨h1, _⟩
      · have := of_decide_eq_true h1; omega
      · omega

/-- Slack: the timer tick that serves deadline `R` is at most 999 µs after it, so the expiry turn
    is enabled within `ack deadline + 100 ms + 1 ms` of the hand-out. -/
theorem C04_slack (now ackDl : Nat) :
    ceilMs (roundDeadline (now + ackDl)) < now + ackDl + 101000 ∧ roundDeadline (now + ackDl) ≤ ceilMs (roundDeadline (now + ackDl)) := by
  unfold ceilMs roundDeadline; omega

/-! ### Non-vacuity -/
example : roundDeadline 10030000 = 10060000 ∧ roundDeadline 10150000 = 10200000 := by decide
example :
    let s := (SubState.init 10000000).exec [.post [⟨7, [], [], 0⟩], .pull 5 30000]
    s.out.msgs.map (·.deadline) = [10060000] ∧
    (s.exec [.expire 10059999]).out.msgs.length = 1 ∧ (s.exec [.expire 10060000]).backlog.length = 1 := by decide

/-! ### System level: the timer loop -/

/-- C04 (system model, no StreamingPull open, at most 10^6 deliveries outstanding): after the clock
    has been advanced to `target` on the timer grid, every delivery that is still outstanding has its
    deadline's timer tick after `target` — nothing stays leased beyond its deadline by a whole tick;
    what expired was requeued by the expiry turns of the loop (`C04_at_deadline`). -/
theorem C04_advance_not_late (sys : Sys) (target : Nat) (hs : sys.streams = []) (hok : SubsOk sys)
    (hinv : SysInv sys) (hfuel : sys.totalOut ≤ 1000000) :
    ∀ e ∈ (Sys.advanceTo 0 1000000 target sys).subs, ∀ dv ∈ e.st.out.msgs, target < ceilMs dv.deadline := by
  have hset := advanceTo_settled 0 1000000 target sys hs hok (SidsUnique_of_SysInv hinv) hfuel
  have hok' : SubsOk (Sys.advanceTo 0 1000000 target sys) := SubsOk_advanceTo _ _ _ hok
  intro e he dv hdv
  have := settled_not_late hok' 0 target hset e he dv hdv
  omega

end Deltio
