import Deltio.Lemmas.SysInv
import Deltio.Lemmas.SysFrame
import Deltio.Props.C05
import Deltio.Props.C02
import Deltio.Props.C15
import Deltio.Lemmas.Base64
/-
  C14 — Push subscriptions deliver at least once until the endpoint accepts.
  The push loop's only access to a subscription's messages is a `pull 1000` turn; per message it
  then issues exactly one turn depending on the endpoint's behaviour. All sequences of endpoint
  outcomes (fault sequences) are sequences of these turns, so the turn theorems of C01–C05 apply.
-/
namespace Deltio

/-- What the endpoint did with one POST. -/
inductive Outcome where
  | status (code : Nat)     -- an HTTP status arrived
  | connError               -- connection refused / reset / broken
  | pending                 -- no answer (yet)
deriving DecidableEq, Repr

/-- `dispatch_message`: the turn the dispatcher issues for a delivery with ack id `a`. -/
def dispatchTurn (a : Nat) : Outcome → Option SubTurn
  | .status c => if pushAccepts c then some (.ack [a]) else some (.modify [(a, none)])
  | .connError => some (.modify [(a, none)])
  | .pending => none

/-- Accepted statuses: exactly 102, 200, 201, 202, 204. -/
theorem C14_statuses (c : Nat) : pushAccepts c = true ↔ (c = 102 ∨ c = 200 ∨ c = 201 ∨ c = 202 ∨ c = 204) := by
  simp [pushAccepts, or_assoc]

/-- A round hands to the endpoint the first `min 1000 |backlog|` queued messages, whatever the
    backlog size (the 16-bit conversion of the length cannot lower the limit below 1000). -/
theorem C14_round (n : Nat) : pullCount 1000 n = min n 1000 := by
  unfold pullCount pullCapacity usizeAsU16; omega

/-- Failure (any other status, connection error): the dispatcher nacks — the message is back in
    the queue in that very turn, a consumer (the next round) is notified, nothing else changes. -/
theorem C14_failure_requeues {s : SubState} (h : SubInv s) (hdel : s.deleted = false) (d : Deliv) (hd : d ∈ s.out.msgs)
    (o : Outcome) (ho : o = .connError ∨ ∃ c, o = .status c ∧ pushAccepts c = false) :
    ∃ t, dispatchTurn d.ack o = some t ∧ (s.turn t).1.backlog = s.backlog ++ [d.msg] ∧
      (∀ x ∈ (s.turn t).1.out.msgs, x.ack ≠ d.ack) ∧ (s.turn t).2.notified = true := by
  have hn := C05_nack h hdel d hd
  rcases ho with rfl | ⟨c, rfl, hc⟩
  · exact ⟨_, rfl, hn.1, hn.2.1, hn.2.2.2.1⟩
  · refine ⟨.modify [(d.ack, none)], by simp [dispatchTurn, hc], hn.1, hn.2.1, hn.2.2.2.1⟩

/-- Acceptance within the deadline (the lease is still there): the dispatcher acks and the message
    is never POSTed — never delivered by any turn — again (`C02_final`). -/
theorem C14_never_again {s : SubState} (h : SubInv s) (hdel : s.deleted = false) (d : Deliv) (hd : d ∈ s.out.msgs) (c : Nat)
    (hc : pushAccepts c = true) (ts : List SubTurn) (hn : NoDelete ts)
    (hfresh : ((held s ++ postedIn ts).map (·.id)).Nodup) :
    dispatchTurn d.ack (.status c) = some (.ack [d.ack]) ∧
    ∀ p u rest, ts = p ++ u :: rest →
      ∀ x ∈ ((((s.turn (.ack [d.ack])).1).exec p).turn u).2.delivered, x.msg.id ≠ d.msg.id := by
  refine ⟨by simp [dispatchTurn, hc], ?_⟩
  intro p u rest hts
  exact (C02_final h hdel [d.ack] d hd (by simp) ts hn hfresh p u rest hts).2

/-- No answer: nothing is issued; the delivery stays leased until its deadline and is then
    re-queued by the expiry turn (`C04_at_deadline`), so a later round POSTs it again. An accepted
    answer arriving after that acks a stale ack id: no effect (`C02_noop`), the message stays. -/
theorem C14_pending_then_late_accept {s : SubState} (h : SubInv s) (d : Deliv) (hd : d ∈ s.out.msgs) (now : Nat) (hdl : d.deadline ≤ now) :
    dispatchTurn d.ack .pending = none ∧
    d.msg ∈ (s.turn (.expire now)).1.backlog ∧
    ((s.turn (.expire now)).1.turn (.ack [d.ack])).1 = (s.turn (.expire now)).1 := by
  have h4 : ∀ x ∈ ((s.turn (.expire now)).1).out.msgs, x.ack ≠ d.ack := by
    -- from the tracker: the expired delivery is no longer outstanding
    intro x hx hxa
    simp only [SubState.turn] at hx
    obtain ⟨t', ds, he, hi⟩ := Inv_takeExpired h.out now
    rw [he] at hx
    obtain ⟨_, hp, h3, h4⟩ := takeExpired_spec h.out now he
    simp only at hx
    split at hx
    · rename_i hds
      have hds' : ds = [] := by simpa using hds
      subst hds'
      have := (hp.mem_iff (a := d)).mpr hd
      simp at this
      have := h4 d this; omega
    · simp only at hx
      have hxm : x ∈ s.out.msgs := (hp.mem_iff).mp (List.mem_append_left _ hx)
      have : x = d := ack_unique h.out.nodup hxm hd hxa
      subst this
      have := h4 x hx; omega
  refine ⟨rfl, ?_, ?_⟩
  · simp only [SubState.turn]
    obtain ⟨t', ds, he, hi⟩ := Inv_takeExpired h.out now
    rw [he]
    obtain ⟨_, hp, h3, h4'⟩ := takeExpired_spec h.out now he
    have hmem := (hp.mem_iff (a := d)).mpr hd
    simp only [List.mem_append] at hmem
    have hds : d ∈ ds := by
      rcases hmem with h1 | h1
      · have := h4' d h1; omega
      · exact h1
    have hne : ds.isEmpty = false := by
      cases ds with
      | nil => simp at hds
      | cons _ _ => rfl
    simp only [hne, Bool.false_eq_true, ↓reduceIte]
    exact List.mem_append_right _ (List.mem_map_of_mem hds)
  · apply C02_noop
    intro a ha
    simp only [List.mem_singleton] at ha
    subst ha
    unfold Tracker.lookup
    apply List.find?_eq_none.mpr
    intro x hx
    simpa using h4 x hx

/-- The push registry is only ever changed by CreateSubscription (adds the endpoint of a push
    subscription under its name) and DeleteSubscription (removes that name): every other request,
    time advance and stream operation leaves it alone. -/
theorem C14_registry_frame (sys : Sys) (r : Req)
    (hr : (∀ n t a p, r ≠ .createSub n t a p) ∧ (∀ n, r ≠ .deleteSub n)) :
    (sys.rpc r).1.registry = sys.registry := by
  cases r with
  | createSub n t a p => exact absurd rfl (hr.1 n t a p)
  | deleteSub n => exact absurd rfl (hr.2 n)
  | publish t ms =>
    simp only [Sys.rpc]
    (repeat' split) <;> first | rfl | (show (Sys.postAll _ _ _).registry = _; rw [skel_registry (skel_postAll _ _ _)])
  | pull n mx ri =>
    simp only [Sys.rpc]
    (repeat' split) <;> first | rfl | (apply skel_registry; simp)
  | ack n ids =>
    simp only [Sys.rpc]
    (repeat' split) <;> first | rfl | (apply skel_registry; simp)
  | modAck n secs ids =>
    simp only [Sys.rpc]
    (repeat' split) <;> first | rfl | (apply skel_registry; simp)
  | createTopic n => simp only [Sys.rpc]; (repeat' split) <;> rfl
  | getTopic n => simp only [Sys.rpc]; (repeat' split) <;> rfl
  | deleteTopic n => simp only [Sys.rpc]; (repeat' split) <;> rfl
  | listTopics p s t => simp only [Sys.rpc]; (repeat' split) <;> rfl
  | listTopicSubs p s t => simp only [Sys.rpc]; (repeat' split) <;> rfl
  | getSub n => simp only [Sys.rpc]; (repeat' split) <;> first | rfl | (apply skel_registry; simp)
  | listSubs p s t => simp only [Sys.rpc]; (repeat' split) <;> first | rfl | (apply skel_registry; simp)
  | unimplemented => rfl

/-- CreateSubscription registers exactly the configured (trimmed) endpoint, only for a push
    subscription; DeleteSubscription unregisters it, so rounds stop dispatching for it. -/
theorem C14_registry_create_delete (sys : Sys) (rawN rawT : Bytes) (ack : Int) (sn tn : Name) (t : TopicEnt)
    (hpn : parseSubName rawN = some sn) (hpt : parseTopicName rawT = some tn) (hf : sys.findTopic tn = some t)
    (hproj : t.name.1 = sn.1) (hfs : sys.findSub sn = none) (hreg : alookup sn sys.registry = none) (p pc : PushCfg)
    (hp : parsePushCfg p = some pc) :
    (sys.rpc (.createSub rawN rawT ack (some p))).1.registry = sys.registry ++ [(sn, pc)] ∧
    (sys.rpc (.createSub rawN rawT ack none)).1.registry = sys.registry := by
  have : (t.name.1 != sn.1) = false := by simp [hproj]
  constructor
  · simp [Sys.rpc, hpn, hpt, hf, hfs, this, hp, hreg]
  · simp [Sys.rpc, hpn, hpt, hf, hfs, this]

/-- The data field of the push body decodes to exactly the published bytes. -/
theorem C14_payload_data (bs : List Nat) (h : ∀ b ∈ bs, b < 256) : b64Decode (b64Encode bs) = some bs :=
  b64_decode_encode bs h

/-! ### Non-vacuity -/
example : pushAccepts 204 = true ∧ pushAccepts 203 = false ∧ pushAccepts 500 = false := by decide
example :
    let s := (SubState.init 10000000).exec [.post [⟨7, [], [], 0⟩], .pull 1000 0]
    ((s.turn (.modify [(1, none)])).1.backlog.map (·.id) = [7]) := by decide


/-- Over all histories: the push registry is exactly the live subscriptions that have a push
    configuration, with the endpoint they were created with — so a push round dispatches for every
    push subscription, for no other, and for none that was deleted. -/
theorem C14_registry (ops : List SysOp) :
    (Sys.init.execOps ops).registry =
      (Sys.init.execOps ops).subs.filterMap (fun e => e.push.map (fun c => (e.name, c))) := by
  have h := SysInv_all ops
  have := h.registry
  simp only [registryOf, Sys.ssh, List.filterMap_map] at this
  exact this

end Deltio
