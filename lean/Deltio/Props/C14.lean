import Deltio.Lemmas.SysInv
import Deltio.Lemmas.SysFrame
import Deltio.Props.C05
import Deltio.Props.C02
import Deltio.Props.C15
import Deltio.Lemmas.Base64
/-
  C14 — Push subscriptions deliver at least once until the endpoint accepts.
  The push loop's only access to a subscription's messages is a `pull 1000` turn; per message it
  then issues exactly one turn depending on the endpoint's behaviour. All sequences of endpoint
  outcomes (fault sequences) are sequences of these turns, so the turn theorems of C01–C05 apply.
-/
namespace Deltio

/-- Accepted statuses: exactly 102, 200, 201, 202, 204. -/
theorem C14_statuses (c : Nat) : pushAccepts c = true ↔ (c = 102 ∨ c = 200 ∨ c = 201 ∨ c = 202 ∨ c = 204) := by
  simp [pushAccepts, or_assoc]

/-- A round hands to the endpoint the first `min 1000 |backlog|` queued messages, whatever the
    backlog size (the 16-bit conversion of the length cannot lower the limit below 1000). -/
theorem C14_round (n : Nat) : pullCount 1000 n = min n 1000 := by
  unfold pullCount pullCapacity usizeAsU16; omega

/-- Failure (any other status, connection error): the dispatcher nacks — the message is back in
    the queue in that very turn, a consumer (the next round) is notified, nothing else changes. -/
theorem C14_failure_requeues {s : SubState} (h : SubInv s) (hdel : s.deleted = false) (d : Deliv) (hd : d ∈ s.out.msgs)
    (o : Outcome) (ho : o = .connError ∨ ∃ c, o = .status c ∧ pushAccepts c = false) :
    ∃ t, dispatchTurn d.ack o = some t ∧ (s.turn t).1.backlog = s.backlog ++ [d.msg] ∧
      (∀ x ∈ (s.turn t).1.out.msgs, x.ack ≠ d.ack) ∧ (s.turn t).2.notified = true := by
  have hn := C05_nack h hdel d hd
  rcases ho with rfl | ⟨c, rfl, hc⟩
  · exact ⟨_, rfl, hn.1, hn.2.1, hn.2.2.2.1⟩
  · refine ⟨.modify [(d.ack, none)], by simp [dispatchTurn, hc], hn.1, hn.2.1, hn.2.2.2.1⟩

/-- Acceptance within the deadline (the lease is still there): the dispatcher acks and the message
    is never POSTed — never delivered by any turn — again (`C02_final`). -/
theorem C14_never_again {s : SubState} (h : SubInv s) (hdel : s.deleted = false) (d : Deliv) (hd : d ∈ s.out.msgs) (c : Nat)
    (hc : pushAccepts c = true) (ts : List SubTurn) (hn : NoDelete ts)
    (hfresh : ((held s ++ postedIn ts).map (·.id)).Nodup) :
    dispatchTurn d.ack (.status c) = some (.ack [d.ack]) ∧
    ∀ p u rest, ts = p ++ u :: rest →
      ∀ x ∈ ((((s.turn (.ack [d.ack])).1).exec p).turn u).2.delivered, x.msg.id ≠ d.msg.id := by
  refine ⟨by simp [dispatchTurn, hc], ?_⟩
  intro p u rest hts
  exact (C02_final h hdel [d.ack] d hd (by simp) ts hn hfresh p u rest hts).2

/-- No answer: nothing is issued; the delivery stays leased until its deadline and is then
    re-queued by the expiry turn (`C04_at_deadline`), so a later round POSTs it again. An accepted
    answer arriving after that acks a stale ack id: no effect (`C02_noop`), the message stays. -/
theorem C14_pending_then_late_accept {s : SubState} (h : SubInv s) (d : Deliv) (hd : d ∈ s.out.msgs) (now : Nat) (hdl : d.deadline ≤ now) :
    dispatchTurn d.ack .pending = none ∧
    d.msg ∈ (s.turn (.expire now)).1.backlog ∧
    ((s.turn (.expire now)).1.turn (.ack [d.ack])).1 = (s.turn (.expire now)).1 := by
  have h4 : ∀ x ∈ ((s.turn (.expire now)).1).out.msgs, x.ack ≠ d.ack := by
    -- from the tracker: the expired delivery is no longer outstanding
    intro x hx hxa
    simp only [SubState.turn] at hx
    obtain ⟨t', ds, he, hi⟩ := Inv_takeExpired h.out now
    rw [he] at hx
    obtain ⟨_, hp, h3, h4⟩ := takeExpired_spec h.out now he
    simp only at hx
    split at hx
    · rename_i hds
      have hds' : ds = [] := by simpa using hds
      subst hds'
      have := (hp.mem_iff (a := d)).mpr hd
      simp at this
      have := h4 d this; omega
    · simp only at hx
      have hxm : x ∈ s.out.msgs := (hp.mem_iff).mp (List.mem_append_left _ hx)
      have : x = d := ack_unique h.out.nodup hxm hd hxa
      subst this
      have := h4 x hx; omega
  refine ⟨rfl, ?_, ?_⟩
  · simp only [SubState.turn]
    obtain ⟨t', ds, he, hi⟩ := Inv_takeExpired h.out now
    rw [he]
    obtain ⟨_, hp, h3, h4'⟩ := takeExpired_spec h.out now he
    have hmem := (hp.mem_iff (a := d)).mpr hd
    simp only [List.mem_append] at hmem
    have hds : d ∈ ds := by
      rcases hmem with h1 | h1
      · have := h4' d h1; omega
      · exact h1
    have hne : ds.isEmpty = false := by
      cases ds with
      | nil => simp at hds
      | cons _ _ => rfl
    simp only [hne, Bool.false_eq_true, ↓reduceIte]
    exact List.mem_append_right _ (List.mem_map_of_mem hds)
  · apply C02_noop
    intro a ha
    simp only [List.mem_singleton] at ha
    subst ha
    unfold Tracker.lookup
    apply List.find?_eq_none.mpr
    intro x hx
    simpa using h4 x hx

/-- The push registry is only ever changed by CreateSubscription (adds the endpoint of a push
    subscription under its name) and DeleteSubscription (removes that name): every other request,
    time advance and stream operation leaves it alone. -/
theorem C14_registry_frame (sys : Sys) (r : Req)
    (hr : (∀ n t a p, r ≠ .createSub n t a p) ∧ (∀ n, r ≠ .deleteSub n)) :
    (sys.rpc r).1.registry = sys.registry := by
  cases r with
  | createSub n t a p => exact absurd rfl (hr.1 n t a p)
  | deleteSub n => exact absurd rfl (hr.2 n)
  | publish t ms =>
    simp only [Sys.rpc]
    (repeat' split) <;> first | rfl | (show (Sys.postAll _ _ _).registry = _; rw [skel_registry (skel_postAll _ _ _)])
  | pull n mx ri =>
    simp only [Sys.rpc]
    (repeat' split) <;> first | rfl | (apply skel_registry; simp)
  | ack n ids =>
    simp only [Sys.rpc]
    (repeat' split) <;> first | rfl | (apply skel_registry; simp)
  | modAck n secs ids =>
    simp only [Sys.rpc]
    (repeat' split) <;> first | rfl | (apply skel_registry; simp)
  | createTopic n => simp only [Sys.rpc]; (repeat' split) <;> rfl
  | getTopic n => simp only [Sys.rpc]; (repeat' split) <;> rfl
  | deleteTopic n => simp only [Sys.rpc]; (repeat' split) <;> rfl
  | listTopics p s t => simp only [Sys.rpc]; (repeat' split) <;> rfl
  | listTopicSubs p s t => simp only [Sys.rpc]; (repeat' split) <;> rfl
  | getSub n => simp only [Sys.rpc]; (repeat' split) <;> first | rfl | (apply skel_registry; simp)
  | listSubs p s t => simp only [Sys.rpc]; (repeat' split) <;> first | rfl | (apply skel_registry; simp)
  | unimplemented => rfl

/-- CreateSubscription registers exactly the configured (trimmed) endpoint, only for a push
    subscription; DeleteSubscription unregisters it, so rounds stop dispatching for it. -/
theorem C14_registry_create_delete (sys : Sys) (rawN rawT : Bytes) (ack : Int) (sn tn : Name) (t : TopicEnt)
    (hpn : parseSubName rawN = some sn) (hpt : parseTopicName rawT = some tn) (hf : sys.findTopic tn = some t)
    (hproj : t.name.1 = sn.1) (hfs : sys.findSub sn = none) (hreg : alookup sn sys.registry = none) (p pc : PushCfg)
    (hp : parsePushCfg p = some pc) :
    (sys.rpc (.createSub rawN rawT ack (some p))).1.registry = sys.registry ++ [(sn, pc)] ∧
    (sys.rpc (.createSub rawN rawT ack none)).1.registry = sys.registry := by
  have : (t.name.1 != sn.1) = false := by simp [hproj]
  constructor
  · simp [Sys.rpc, hpn, hpt, hf, hfs, this, hp, hreg]
  · simp [Sys.rpc, hpn, hpt, hf, hfs, this]

/-- The data field of the push body decodes to exactly the published bytes. -/
theorem C14_payload_data (bs : List Nat) (h : ∀ b ∈ bs, b < 256) : b64Decode (b64Encode bs) = some bs :=
  b64_decode_encode bs h

/-! ### Non-vacuity -/
example : pushAccepts 204 = true ∧ pushAccepts 203 = false ∧ pushAccepts 500 = false := by decide
example :
    let s := (SubState.init 10000000).exec [.post [⟨7, [], [], 0⟩], .pull 1000 0]
    ((s.turn (.modify [(1, none)])).1.backlog.map (·.id) = [7]) := by decide


/-- Over all histories: the push registry is exactly the live subscriptions that have a push
    configuration, with the endpoint they were created with — so a push round dispatches for every
    push subscription, for no other, and for none that was deleted. -/
theorem C14_registry (ops : List SysOp) :
    (Sys.init.execOps ops).registry =
      (Sys.init.execOps ops).subs.filterMap (fun e => e.push.map (fun c => (e.name, c))) := by
  have h := SysInv_all ops
  have := h.registry
  simp only [registryOf, Sys.ssh, List.filterMap_map] at this
  exact this

/-! ### C14 over ALL fault sequences: a message leaves a push subscription only through an accepted answer -/

/-- One event in the life of a push subscription: a Publish on its topic, a push round (the
    `pull 1000` turn — every delivery it returns is POSTed), the endpoint's behaviour for the POST
    of ack id `a` reaching the dispatcher (any status, a connection error, or nothing at all), and the
    expiry timer. Any list of these is a history; the outcomes are arbitrary (fault sequences), and so
    is the order in which answers arrive. -/
inductive PushEv where
  | post (ms : List Msg)
  | round (now : Nat)
  | answer (a : Nat) (o : Outcome)
  | tick (now : Nat)
deriving Repr

/-- The subscription-actor turn an event causes (an unanswered POST causes none). -/
def PushEv.turn : PushEv → Option SubTurn
  | .post ms => some (.post ms)
  | .round now => some (.pull 1000 now)
  | .answer a o => dispatchTurn a o
  | .tick now => some (.expire now)

def pushTurns (evs : List PushEv) : List SubTurn := evs.filterMap PushEv.turn

theorem pushTurns_cons (e : PushEv) (es : List PushEv) :
    pushTurns (e :: es) = (match e.turn with | some t => [t] | none => []) ++ pushTurns es := by
  unfold pushTurns
  simp only [List.filterMap_cons]
  cases e.turn <;> rfl

theorem pushTurns_noDelete (evs : List PushEv) : NoDelete (pushTurns evs) := by
  intro t ht
  unfold pushTurns at ht
  obtain ⟨e, _, he⟩ := List.mem_filterMap.mp ht
  cases e with
  | post ms => simp [PushEv.turn] at he; subst he; simp
  | round now => simp [PushEv.turn] at he; subst he; simp
  | tick now => simp [PushEv.turn] at he; subst he; simp
  | answer a o =>
    cases o with
    | status c =>
      simp only [PushEv.turn, dispatchTurn] at he
      split at he <;> (simp at he; subst he; simp)
    | connError => simp [PushEv.turn, dispatchTurn] at he; subst he; simp
    | pending => simp [PushEv.turn, dispatchTurn] at he

/-- Whatever was acknowledged in a push history was acknowledged by an ACCEPTED answer that arrived
    while that delivery was still outstanding. -/
theorem acked_by_accepted_answer : ∀ (evs : List PushEv) (s : SubState) (m : Msg), m ∈ ackedIn s (pushTurns evs) →
    ∃ p a c rest, evs = p ++ PushEv.answer a (.status c) :: rest ∧ pushAccepts c = true ∧
      ∃ d ∈ (s.exec (pushTurns p)).out.msgs, d.ack = a ∧ d.msg = m := by
  intro evs
  induction evs with
  | nil => intro s m h; simp [pushTurns, ackedIn] at h
  | cons e es ih =>
    intro s m h
    rw [pushTurns_cons] at h
    cases ht : e.turn with
    | none =>
      rw [ht] at h
      simp only [List.nil_append] at h
      obtain ⟨p, a, c, rest, he, hc, d, hd, hda, hdm⟩ := ih s m h
      refine ⟨e :: p, a, c, rest, by rw [he]; rfl, hc, d, ?_, hda, hdm⟩
      rw [pushTurns_cons, ht]; exact hd
    | some t =>
      rw [ht] at h
      simp only [List.singleton_append, ackedIn, List.mem_append] at h
      rcases h with h | h
      · -- acknowledged by this very event: it is an accepted answer
        cases e with
        | post ms => simp [PushEv.turn] at ht; subst ht; simp [ackedBy] at h
        | round now => simp [PushEv.turn] at ht; subst ht; simp [ackedBy] at h
        | tick now => simp [PushEv.turn] at ht; subst ht; simp [ackedBy] at h
        | answer a o =>
          cases o with
          | connError => simp [PushEv.turn, dispatchTurn] at ht; subst ht; simp [ackedBy] at h
          | pending => simp [PushEv.turn, dispatchTurn] at ht
          | status c =>
            simp only [PushEv.turn, dispatchTurn] at ht
            by_cases hc : pushAccepts c = true
            · simp only [hc, if_true, Option.some.injEq] at ht
              subst ht
              simp only [ackedBy] at h
              split at h
              · simp at h
              · obtain ⟨d, hd, hdm⟩ := List.mem_map.mp h
                obtain ⟨hd1, hd2⟩ := mem_remove_removed [a] s.out d hd
                refine ⟨[], a, c, es, rfl, hc, d, ?_, by simpa using hd2, hdm⟩
                simpa [pushTurns, SubState.exec] using hd1
            · simp only [hc, Bool.false_eq_true, if_false, Option.some.injEq] at ht
              subst ht; simp [ackedBy] at h
      · obtain ⟨p, a, c, rest, he, hc, d, hd, hda, hdm⟩ := ih (s.turn t).1 m h
        refine ⟨e :: p, a, c, rest, by rw [he]; rfl, hc, d, ?_, hda, hdm⟩
        rw [pushTurns_cons, ht]
        simpa [SubState.exec] using hd

/-- **At least once until the endpoint accepts — for every fault sequence.** After ANY history of
    publishes, push rounds, endpoint behaviours (each accepted status, any other status, connection
    errors, answers that never come or come late, in any order) and timer ticks, every message that was
    posted to the push subscription is either still held by it — queued, or leased and re-queued at its
    deadline (`C04_at_deadline`), so that a later round POSTs it again (`C14_round`, `C01_drain`) — or an
    answer with status 102, 200, 201, 202 or 204 arrived for a delivery of it while that delivery was
    still outstanding. Nothing else ever removes a message. -/
theorem C14_until_accepted (ackDl : Nat) (evs : List PushEv) (m : Msg) (hm : m ∈ postedIn (pushTurns evs)) :
    m ∈ held ((SubState.init ackDl).exec (pushTurns evs)) ∨
    ∃ p a c rest, evs = p ++ PushEv.answer a (.status c) :: rest ∧ pushAccepts c = true ∧
      ∃ d ∈ ((SubState.init ackDl).exec (pushTurns p)).out.msgs, d.ack = a ∧ d.msg = m := by
  have hc := exec_conserve (SubInv_init ackDl) rfl (pushTurns evs) (pushTurns_noDelete evs)
  have hm' : m ∈ held (SubState.init ackDl) ++ postedIn (pushTurns evs) := List.mem_append_right _ hm
  have := (hc.mem_iff (a := m)).mpr hm'
  rcases List.mem_append.mp this with h | h
  · exact .inl h
  · exact .inr (acked_by_accepted_answer evs _ m h)

/-! non-vacuity: rejected, then unanswered past the deadline, then accepted — held until the last step -/
example :
    let m : Msg := { id := 7, data := [1], attrs := [], pubTime := 0 }
    let evs1 : List PushEv := [.post [m], .round 0, .answer 1 (.status 500), .round 5, .tick 10100000, .round 10100000]
    let evs2 := evs1 ++ [.answer 3 (.status 204)]
    m ∈ held ((SubState.init 10000000).exec (pushTurns evs1)) ∧
    held ((SubState.init 10000000).exec (pushTurns evs2)) = [] := by decide

end Deltio
