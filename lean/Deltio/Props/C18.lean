import Deltio.Lemmas.Names
/-
  C18 — Resource names are parsed canonically.
  Property theorems only; helper lemmas live in `Deltio/Lemmas/Names.lean`.
  `middle` is `"/topics/"` or `"/subscriptions/"`; every theorem is for all byte strings.
-/
namespace Deltio

/-- Clause 1: a string is accepted only if it is `projects/` ++ project-without-slash ++ the
    literal middle segment ++ an id (the stored id is the rest with `/` trimmed at both ends). -/
theorem C18_shape (middle s : Bytes) (n : Name) (h : parseName middle s = some n) :
    slash ∉ n.1 ∧ ∃ r, s = projectsPrefix ++ n.1 ++ middle ++ r ∧ n.2 = trimSlashes r := by
  unfold parseName at h
  split at h
  · simp at h
  · rename_i rest hrest
    have hs := stripPrefix_eq_some hrest
    simp only at h
    split at h
    · simp at h
    · split at h
      · simp at h
      · rename_i r hr
        have hafter := stripPrefix_eq_some hr
        simp at h
        subst h
        refine ⟨?_, r, ?_, rfl⟩
        · intro hmem
          have := mem_takeWhile (· != slash) rest slash hmem
          simp at this
        · have hsplit : rest = rest.takeWhile (· != slash) ++ rest.dropWhile (· != slash) :=
            List.takeWhile_append_dropWhile.symm
          rw [hafter] at hsplit
          rw [hs]
          conv => lhs; rw [hsplit]
          simp [List.append_assoc]

/-- Clause 2: the canonical (echoed) form of an accepted name is accepted and denotes the same
    resource. `hm` holds for both literal segments (they start with `/`). -/
theorem C18_canonical (middle s : Bytes) (n : Name) (m' : Bytes) (hm : middle = slash :: m')
    (h : parseName middle s = some n) :
    parseName middle (displayName middle n) = some n := by
  obtain ⟨hp, r, _, hr⟩ := C18_shape middle s n h
  unfold parseName displayName
  rw [List.append_assoc, List.append_assoc, stripPrefix_append]
  simp only
  have e1 : (n.1 ++ (middle ++ n.2)) = n.1 ++ slash :: (m' ++ n.2) := by rw [hm]; rfl
  rw [e1, takeWhile_ne_slash_append _ _ hp, dropWhile_ne_slash_append _ _ hp]
  have e2 : slash :: (m' ++ n.2) = middle ++ n.2 := by rw [hm]; rfl
  rw [e2, stripPrefix_append]
  simp only [List.isEmpty_iff]
  rw [hr, trimSlashes_idem]
  simp [hm]
  exact Prod.ext rfl hr.symm

theorem C18_canonical_topic (s : Bytes) (n : Name) (h : parseTopicName s = some n) :
    parseTopicName (displayTopic n) = some n :=
  C18_canonical topicsMiddle s n _ rfl h

theorem C18_canonical_sub (s : Bytes) (n : Name) (h : parseSubName s = some n) :
    parseSubName (displaySub n) = some n :=
  C18_canonical subsMiddle s n _ rfl h

/-- Clause 3: names that differ in project or id have different canonical forms, hence (the
    parsed pair being the map key) denote different resources. -/
theorem C18_distinct (middle m' : Bytes) (hm : middle = slash :: m') (n₁ n₂ : Name)
    (h₁ : slash ∉ n₁.1) (h₂ : slash ∉ n₂.1)
    (h : displayName middle n₁ = displayName middle n₂) : n₁ = n₂ := by
  unfold displayName at h
  simp only [List.append_assoc] at h
  have h' := List.append_cancel_left h
  rw [hm] at h'
  have t1 := takeWhile_ne_slash_append n₁.1 (m' ++ n₁.2) h₁
  have t2 := takeWhile_ne_slash_append n₂.1 (m' ++ n₂.2) h₂
  have d1 := dropWhile_ne_slash_append n₁.1 (m' ++ n₁.2) h₁
  have d2 := dropWhile_ne_slash_append n₂.1 (m' ++ n₂.2) h₂
  have hc : (slash :: m' ++ n₁.2) = slash :: (m' ++ n₁.2) := rfl
  have hc2 : (slash :: m' ++ n₂.2) = slash :: (m' ++ n₂.2) := rfl
  rw [hc, hc2] at h'
  rw [h'] at t1 d1
  have e1 : n₁.1 = n₂.1 := by rw [← t1, t2]
  have e2 : slash :: (m' ++ n₁.2) = slash :: (m' ++ n₂.2) := by rw [← d1, d2]
  have e3 : n₁.2 = n₂.2 := List.append_cancel_left (List.cons.inj e2).2
  exact Prod.ext e1 e3

/-- Two accepted strings denote the same resource iff their parsed pairs are equal; parsed pairs
    with different project or id print differently. -/
theorem C18_distinct_parsed (middle m' : Bytes) (hm : middle = slash :: m') (s₁ s₂ : Bytes)
    (n₁ n₂ : Name) (h₁ : parseName middle s₁ = some n₁) (h₂ : parseName middle s₂ = some n₂)
    (hne : n₁ ≠ n₂) : displayName middle n₁ ≠ displayName middle n₂ := fun h =>
  hne (C18_distinct middle m' hm n₁ n₂ (C18_shape _ _ _ h₁).1 (C18_shape _ _ _ h₂).1 h)

/-! ### Non-vacuity: the hypotheses are met by concrete names -/

/-- `projects/p/topics/a/` parses to (`p`, `a`). -/
example : parseTopicName ([112,114,111,106,101,99,116,115,47, 112, 47,116,111,112,105,99,115,47, 97, 47])
    = some ([112], [97]) := by decide

/-- … and its canonical form `projects/p/topics/a` (19 bytes) is accepted. -/
example : parseTopicName (displayTopic ([112], [97])) = some ([112], [97]) := by decide

/-! ### The pinned tree (before the `fix:` commit) violated clauses 1 and 2 -/

/-- `projects/p/subscriptions/x` was accepted as the *topic* `ptions/x` of project `p`. -/
theorem C18_pinned_middle_not_compared :
    parseNamePinned 8 (projectsPrefix ++ [112] ++ subsMiddle ++ [120])
      = some ([112], [112,116,105,111,110,115,47,120]) := by decide

/-- `projects/p/topics/a/` was accepted as (`p`,`a`) but its canonical form was rejected. -/
theorem C18_pinned_canonical_rejected :
    parseNamePinned 8 (projectsPrefix ++ [112] ++ topicsMiddle ++ [97, 47]) = some ([112], [97]) ∧
    parseNamePinned 8 (displayTopic ([112], [97])) = none := by decide

end Deltio
