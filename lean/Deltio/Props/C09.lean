import Deltio.Lemmas.SubRun
import Deltio.Lemmas.Base64
import Deltio.Model.System
import Deltio.Props.C01
/-
  C09 — Messages are delivered intact with a stable, globally unique identity.
-/
namespace Deltio

/-- Every delivery (first or repeated, whichever consumer triggers the pull turn) carries a
    message record that is *equal* — id, data bytes, attributes, publish time — to one that was
    posted to the subscription: no turn constructs or alters a message. -/
theorem C09_payload (ackDl : Nat) (ts : List SubTurn) (hn : NoDelete ts) (u : SubTurn) :
    ∀ x ∈ (((SubState.init ackDl).exec ts).turn u).2.delivered, x.msg ∈ postedIn ts :=
  C01_no_foreign ackDl ts hn u

/-- With distinct posted ids, two deliveries with the same message id carry the same record:
    the publish time and payload never change between deliveries. -/
theorem C09_stable (ackDl : Nat) (ts : List SubTurn) (hn : NoDelete ts) (hfresh : ((postedIn ts).map (·.id)).Nodup)
    (p q : List SubTurn) (u v : SubTurn) (hp : p <+: ts) (hq : q <+: ts) :
    ∀ x ∈ (((SubState.init ackDl).exec p).turn u).2.delivered,
    ∀ y ∈ (((SubState.init ackDl).exec q).turn v).2.delivered, x.msg.id = y.msg.id → x.msg = y.msg := by
  intro x hx y hy hid
  have sub : ∀ r, r <+: ts → NoDelete r ∧ ∀ m ∈ postedIn r, m ∈ postedIn ts := by
    intro r hr
    obtain ⟨z, hz⟩ := hr
    refine ⟨fun t ht => hn t (by rw [← hz]; simp [ht]), ?_⟩
    intro m hm
    unfold postedIn at *
    rw [← hz]; simp only [List.flatMap_append, List.mem_append]; exact Or.inl hm
  have hxp := (sub p hp).2 _ (C01_no_foreign ackDl p (sub p hp).1 u x hx)
  have hyp := (sub q hq).2 _ (C01_no_foreign ackDl q (sub q hq).1 v y hy)
  -- injectivity of `id` on a list whose ids are pairwise distinct
  have inj : ∀ (l : List Msg), (l.map (·.id)).Nodup → ∀ a ∈ l, ∀ b ∈ l, a.id = b.id → a = b := by
    intro l
    induction l with
    | nil => intro _ a ha; simp at ha
    | cons c cs ih =>
      intro hnd a ha b hb hab
      simp only [List.map_cons, List.nodup_cons] at hnd
      simp only [List.mem_cons] at ha hb
      rcases ha with rfl | ha <;> rcases hb with rfl | hb
      · rfl
      · exact absurd (by rw [hab]; exact List.mem_map_of_mem hb) hnd.1
      · exact absurd (by rw [← hab]; exact List.mem_map_of_mem ha) hnd.1
      · exact ih hnd.2 a ha b hb hab
  exact inj _ hfresh _ hxp _ hyp hid

/-- Message ids: `(topic internal id, per-topic counter)` ↦ id is injective while the counter fits
    32 bits, so ids of different topics — in particular of a deleted topic and its re-creation
    under the same name, which get different internal ids (`C09_topic_ids_fresh`) — never collide. -/
theorem C09_ids_injective (t₁ c₁ t₂ c₂ : Nat) (h₁ : c₁ < 4294967296) (h₂ : c₂ < 4294967296)
    (h : mkId t₁ c₁ = mkId t₂ c₂) : t₁ = t₂ ∧ c₁ = c₂ := by
  unfold mkId at h; omega

/-- The ids of one publish: exactly one per message, in request order, consecutive. -/
theorem C09_publish_ids (tid base pt : Nat) : ∀ (ms : List (Bytes × List (Bytes × Bytes))) (i : Nat),
    (mkMsgs tid base pt ms i).map (·.id) = (List.range ms.length).map (fun k => mkId tid (base + i + k + 1)) ∧
    (mkMsgs tid base pt ms i).map (fun m => (m.data, m.attrs)) = ms := by
  intro ms
  induction ms with
  | nil => intro i; simp [mkMsgs]
  | cons m rest ih =>
    intro i
    obtain ⟨d, a⟩ := m
    have := ih (i + 1)
    simp only [mkMsgs, List.map_cons, List.length_cons, List.range_succ_eq_map, List.map_map, this.1, this.2]
    refine ⟨?_, trivial⟩
    congr 1
    apply List.map_congr_left
    intro k _
    simp only [Function.comp]
    congr 1; omega

/-- Internal topic ids are never reused: each successful CreateTopic takes a strictly larger id
    than every topic that exists or ever existed (the counter only grows). -/
theorem C09_topic_ids_fresh (sys : Sys) (raw : Bytes) (hinv : ∀ t ∈ sys.topics, t.tid ≤ sys.nextTopic) :
    let r := sys.rpc (.createTopic raw)
    sys.nextTopic ≤ r.1.nextTopic ∧ (∀ t ∈ r.1.topics, t.tid ≤ r.1.nextTopic) ∧
    (∀ t ∈ r.1.topics, t ∉ sys.topics → t.tid = sys.nextTopic + 1 ∧ ∀ t' ∈ sys.topics, t'.tid < t.tid) := by
  simp only [Sys.rpc]
  cases parseTopicName raw with
  | none => exact ⟨Nat.le_refl _, hinv, fun t ht hn => absurd ht hn⟩
  | some n =>
    simp only
    cases sys.findTopic n with
    | some _ => exact ⟨Nat.le_refl _, hinv, fun t ht hn => absurd ht hn⟩
    | none =>
      simp only
      refine ⟨by omega, ?_, ?_⟩
      · intro t ht
        simp only [List.mem_append, List.mem_singleton] at ht
        rcases ht with ht | rfl
        · have := hinv t ht; omega
        · simp
      · intro t ht hn
        simp only [List.mem_append, List.mem_singleton] at ht
        rcases ht with ht | rfl
        · exact absurd ht hn
        · refine ⟨rfl, fun t' ht' => ?_⟩
          have := hinv t' ht'; simp only; omega

/-- Push payload: the base64 text placed in the JSON body decodes to exactly the data bytes. -/
theorem C09_push_payload (bs : List Nat) (h : ∀ b ∈ bs, b < 256) : b64Decode (b64Encode bs) = some bs :=
  b64_decode_encode bs h

/-! ### Non-vacuity -/
example : mkId 2 1 = 8589934593 := by decide
example : (mkMsgs 2 5 0 [([1], []), ([2], [])] 0).map (·.id) = [mkId 2 6, mkId 2 7] := by decide

end Deltio
