import Deltio.Proto.Flow
/-
  C19 — Flow-control waiters never miss free capacity.
  Slice P5 (Deltio/Proto/Flow.lean): every interleaving of the waiter's atomic operations with the
  atomic operations of any number of concurrent inc / dec calls.
-/
namespace Deltio
open P5

structure FlowInv (s : State) : Prop where
  /-- the recorded epoch is never ahead of the current one -/
  we_le : s.we ≤ s.epoch
  /-- a fetch since the future was created, with no `notify_waiters` since: its call is still running -/
  touched : s.touched = true → s.we = s.epoch → (s.wpc = .c2m ∨ s.wpc = .c2b ∨ s.wpc = .parked) → s.ops.length > 0
  /-- values loaded since the creation are current as long as nothing was fetched since -/
  lmCur : s.touched = false → (s.wpc = .c2b ∨ s.wpc = .parked) → s.lm = s.msgs
  lbCur : s.touched = false → s.wpc = .parked → s.sawM = true → s.lb = s.bytes
  /-- a check in progress that got past the first load saw msgs below the limit -/
  sawOk : (s.wpc = .c1b ∨ s.wpc = .c2b) → s.sawM = true ∧ s.lm < s.maxM
  /-- why the waiter parked -/
  why : s.wpc = .parked → (s.sawM = false ∧ s.lm ≥ s.maxM) ∨ (s.sawM = true ∧ s.lm < s.maxM ∧ s.lb ≥ s.maxB)
  /-- what a returned waiter observed -/
  ret : s.wpc = .returned → s.sawM = true ∧ s.lm < s.maxM ∧ s.lb < s.maxB

theorem C19_inv_init (maxB maxM : Int) : FlowInv (P5.init maxB maxM) := by
  constructor <;> simp [P5.init]

theorem C19_inv_step {s s' : State} (h : FlowInv s) (l : Label) (hs : step s l = some s') : FlowInv s' := by
  obtain ⟨h1, h2, h3, h4, h5, h6, h7⟩ := h
  cases l with
  | begin db dm =>
    simp only [step, Option.some.injEq] at hs; subst hs
    constructor <;> simp_all <;> omega
  | opStep i =>
    simp only [step] at hs
    split at hs
    · simp at hs
    · rename_i o ho
      have hlen : s.ops.length > 0 := by
        cases hops : s.ops with
        | nil => rw [hops] at ho; simp at ho
        | cons _ _ => simp
      (repeat' split at hs) <;>
        (simp only [Option.some.injEq] at hs; subst hs
         constructor <;> simp_all <;> omega)
  | waiter =>
    simp only [step] at hs
    (repeat' split at hs) <;>
      first
        | (simp at hs; done)
        | (simp only [Option.some.injEq] at hs; subst hs
           constructor <;> simp_all <;> omega)

theorem C19_inv_run : ∀ (ls : List Label) (s s' : State), FlowInv s → run s ls = some s' → FlowInv s' := by
  intro ls
  induction ls with
  | nil => intro s s' h hr; simp [run] at hr; subst hr; exact h
  | cons l ls ih =>
    intro s s' h hr
    simp only [run] at hr
    split at hr
    · rename_i s1 hs; exact ih s1 s' (C19_inv_step h l hs) hr
    · simp at hr

/-- Safety: the waiter never resumes without having observed, within one check, the message count
    below its limit and then the byte count below its limit. -/
theorem C19_safety (maxB maxM : Int) (ls : List Label) (s : State) (hr : run (P5.init maxB maxM) ls = some s)
    (hret : s.wpc = .returned) : s.sawM = true ∧ s.lm < s.maxM ∧ s.lb < s.maxB :=
  (C19_inv_run ls _ _ (C19_inv_init maxB maxM) hr).ret hret

/-- No missed capacity: in every reachable state in which no inc / dec call is in progress and the
    waiter has no enabled step (it is parked and no `notify_waiters` ran since its future was
    created), at least one counter is at or above its limit. Contrapositive: whenever both counts
    are below their limits, however the other threads' operations interleaved with the beginning of
    the wait, the waiter is runnable or has already resumed. -/
theorem C19_no_missed_capacity (maxB maxM : Int) (ls : List Label) (s : State) (hr : run (P5.init maxB maxM) ls = some s)
    (hidle : s.ops = []) (hstuck : step s .waiter = none) (hnr : s.wpc ≠ .returned) :
    ¬ (s.msgs < s.maxM ∧ s.bytes < s.maxB) := by
  have h := C19_inv_run ls _ _ (C19_inv_init maxB maxM) hr
  -- a waiter without an enabled step is parked with an up-to-date epoch
  have hp : s.wpc = .parked ∧ s.we = s.epoch := by
    simp only [step] at hstuck
    (repeat' split at hstuck) <;> simp_all
  obtain ⟨hpk, he⟩ := hp
  have hnt : s.touched = false := by
    cases ht : s.touched with
    | false => rfl
    | true =>
      have := h.touched ht he (Or.inr (Or.inr hpk))
      rw [hidle] at this; simp at this
  have hlm := h.lmCur hnt (Or.inr hpk)
  rcases h.why hpk with ⟨_, hge⟩ | ⟨hs, _, hge⟩
  · intro hc; omega
  · have hlb := h.lbCur hnt hpk hs
    intro hc; omega

/-- Broadcast: one `notify_waiters` (the last step of any inc / dec) bumps the epoch, and a parked
    waiter whose recorded epoch differs from the current one is runnable — whichever waiter it is,
    so any number of simultaneously parked waiters are all released by one such step. -/
theorem C19_broadcast (s : State) (hp : s.wpc = .parked) (i : Nat) (o : Op) (ho : s.ops[i]? = some o) (hpc : o.pc = 2)
    (hle : s.we ≤ s.epoch) :
    ∃ s', step s (.opStep i) = some s' ∧ s'.epoch = s.epoch + 1 ∧ (step s' .waiter).isSome = true := by
  have h0 : ¬ o.pc = 0 := by omega
  have h1 : ¬ o.pc = 1 := by omega
  refine ⟨{ s with epoch := s.epoch + 1, ops := s.ops.eraseIdx i }, by simp [step, ho, h0, h1], rfl, ?_⟩
  have : s.we ≠ s.epoch + 1 := by omega
  simp [step, hp, this]

/-! ### Non-vacuity: a dec racing with the beginning of the wait -/
example :
    -- limit 1 message; one outstanding. The waiter fails its first check, a `dec` runs to completion
    -- between the creation of the future and the second check: the waiter resumes on the second check.
    ∃ s, run { P5.init 100 1 with msgs := 1 } [.waiter, .waiter, .begin 0 (-1), .opStep 0, .opStep 0, .opStep 0, .waiter, .waiter] = some s ∧
      s.wpc = .returned := by
  refine ⟨_, rfl, ?_⟩
  decide

example :
    -- the dec's fetches land after the second check but its notify comes later: parked, then woken.
    ∃ s, run { P5.init 100 1 with msgs := 1 } [.waiter, .waiter, .begin 0 (-1), .waiter, .opStep 0, .opStep 0, .opStep 0, .waiter, .waiter, .waiter, .waiter] = some s ∧
      s.wpc = .returned := by
  refine ⟨_, rfl, ?_⟩
  decide

end Deltio
