import Deltio.Lemmas.SysSub
import Deltio.Lemmas.MapRefine
import Deltio.Lemmas.Attach
import Deltio.Lemmas.SysInv
import Deltio.Model.System
import Deltio.Props.C17
/-
  C10 — Topic and subscription namespaces behave as atomic maps (sequential histories: the
  handlers as functions of the state; every manager critical section is one step of the model).
-/
namespace Deltio

theorem find?_append_new {α} (l : List α) (x : α) (p : α → Bool) (hx : p x = true) (hn : l.find? p = none) :
    (l ++ [x]).find? p = some x := by
  rw [List.find?_append, hn]; simp [hx]

/-- CreateTopic succeeds exactly when the (parsed) name is absent, else ALREADY_EXISTS with the
    state unchanged; afterwards the name is present. -/
theorem C10_create_topic (sys : Sys) (raw : Bytes) (n : Name) (hp : parseTopicName raw = some n) :
    (sys.findTopic n = none →
      (sys.rpc (.createTopic raw)).2 = .topic (displayTopic n) ∧
      ((sys.rpc (.createTopic raw)).1.findTopic n).isSome ∧
      (∀ n', n' ≠ n → (sys.rpc (.createTopic raw)).1.findTopic n' = sys.findTopic n') ∧
      (sys.rpc (.createTopic raw)).1.subs = sys.subs) ∧
    ((sys.findTopic n).isSome → sys.rpc (.createTopic raw) = (sys, .err .alreadyExists)) := by
  constructor
  · intro hf
    simp only [Sys.rpc, hp, hf]
    refine ⟨trivial, ?_, ?_, trivial⟩
    · unfold Sys.findTopic at hf ⊢
      rw [find?_append_new _ _ _ (by simp) hf]; rfl
    · intro n' hne
      unfold Sys.findTopic
      simp only
      rw [List.find?_append]
      cases h : sys.topics.find? (fun x => x.name == n') with
      | some t => simp
      | none =>
        have : (n == n') = false := by
          simp only [beq_eq_false_iff_ne, ne_eq]; exact fun h => hne h.symm
        simp [this]
  · intro hs
    cases hf : sys.findTopic n with
    | none => rw [hf] at hs; simp at hs
    | some t => simp [Sys.rpc, hp, hf]

/-- get / publish / delete of an absent topic name: NOT_FOUND, nothing changes. -/
theorem C10_absent_topic (sys : Sys) (raw : Bytes) (n : Name) (hp : parseTopicName raw = some n) (hf : sys.findTopic n = none)
    (msgs : List (Bytes × List (Bytes × Bytes))) (size : Int) (tok : Bytes) :
    sys.rpc (.getTopic raw) = (sys, .err .notFound) ∧ sys.rpc (.deleteTopic raw) = (sys, .err .notFound) ∧
    sys.rpc (.publish raw msgs) = (sys, .err .notFound) ∧
    (parsePaging size (bytesToNats tok)).isSome → sys.rpc (.listTopicSubs raw size tok) = (sys, .err .notFound) := by
  intro h
  cases hpp : parsePaging size (bytesToNats tok) with
  | none => simp [hpp] at h
  | some p => simp [Sys.rpc, hp, hf, hpp]

/-- get / delete / pull / ack / modify on an absent subscription name: NOT_FOUND, nothing changes. -/
theorem C10_absent_sub (sys : Sys) (raw : Bytes) (n : Name) (hp : parseSubName raw = some n) (hf : sys.findSub n = none)
    (mx : Int) (ri : Bool) (ids : List Bytes) (as : List Nat) (secs : Int) (mods : List (Nat × Option Nat))
    (hids : parseAckIds ids = some as) (hm : parseMods sys.clock ids (ids.map (fun _ => secs)) = some mods) :
    sys.rpc (.getSub raw) = (sys, .err .notFound) ∧ sys.rpc (.deleteSub raw) = (sys, .err .notFound) ∧
    sys.rpc (.pull raw mx ri) = (sys, .err .notFound) ∧ sys.rpc (.ack raw ids) = (sys, .err .notFound) ∧
    sys.rpc (.modAck raw secs ids) = (sys, .err .notFound) := by
  simp [Sys.rpc, hp, hf, hids, hm]

/-- CreateSubscription: NOT_FOUND without its topic, INVALID_ARGUMENT for another project,
    ALREADY_EXISTS for a present name — each with nothing created — else OK. -/
theorem C10_create_sub (sys : Sys) (rawN rawT : Bytes) (ack : Int) (sn tn : Name)
    (hpn : parseSubName rawN = some sn) (hpt : parseTopicName rawT = some tn) :
    (sys.findTopic tn = none → sys.rpc (.createSub rawN rawT ack none) = (sys, .err .notFound)) ∧
    (∀ t, sys.findTopic tn = some t → t.name.1 ≠ sn.1 → sys.rpc (.createSub rawN rawT ack none) = (sys, .err .invalidArgument)) ∧
    (∀ t, sys.findTopic tn = some t → t.name.1 = sn.1 → (sys.findSub sn).isSome →
        sys.rpc (.createSub rawN rawT ack none) = (sys, .err .alreadyExists)) ∧
    (∀ t, sys.findTopic tn = some t → t.name.1 = sn.1 → sys.findSub sn = none →
        ∃ r, (sys.rpc (.createSub rawN rawT ack none)).2 = .sub r ∧ r.name = displaySub sn ∧
          r.ackSecs = effAckDeadlineSecs ack ∧ r.push = none ∧
          ((sys.rpc (.createSub rawN rawT ack none)).1.findSub sn).isSome) := by
  refine ⟨?_, ?_, ?_, ?_⟩
  · intro hf; simp [Sys.rpc, hpn, hpt, hf]
  · intro t hf hne
    have : (t.name.1 != sn.1) = true := by simpa using hne
    simp [Sys.rpc, hpn, hpt, hf, this]
  · intro t hf he hs
    cases hfs : sys.findSub sn with
    | none => rw [hfs] at hs; simp at hs
    | some e => simp [Sys.rpc, hpn, hpt, hf, he, hfs]
  · intro t hf he hfs
    have : (t.name.1 != sn.1) = false := by simp [he]
    simp only [Sys.rpc, hpn, hpt, hf, hfs, this, Bool.false_eq_true, ↓reduceIte]
    refine ⟨_, rfl, rfl, rfl, rfl, ?_⟩
    unfold Sys.findSub at hfs ⊢
    simp only
    rw [find?_append_new _ _ _ (by simp) hfs]; rfl

/-- Read back: GetSubscription changes no name, attachment, resource or registry entry (`skel`; it is
    a mailbox turn of the subscription actor, so deliveries whose deadline has passed are requeued) and reports the name, the effective ack deadline and the push
    configuration stored at creation, and the topic it was created on (or `_deleted_topic_`). -/
theorem C10_readback (sys : Sys) (raw : Bytes) (n : Name) (e : SubEnt) (hp : parseSubName raw = some n)
    (hf : sys.findSub n = some e) :
    (sys.rpc (.getSub raw)).2 = .sub (sys.subRes e) ∧ (sys.rpc (.getSub raw)).1.skel = sys.skel ∧
    (sys.subRes e).name = displaySub e.name ∧
    (sys.subRes e).ackSecs = e.ackSecs ∧ (sys.subRes e).push = e.push ∧
    (sys.subRes e).topic = (match sys.findTopicById e.topicId with
        | some t => displayTopic t.name
        | none => deletedTopicStr) := by
  refine ⟨by simp [Sys.rpc, hp, hf], by simp [Sys.rpc, hp, hf], rfl, rfl, rfl, rfl⟩

/-- Delete makes the name absent (names are unique: `hu`, an invariant of the manager map). -/
theorem C10_delete_topic (sys : Sys) (raw : Bytes) (n : Name) (t : TopicEnt) (hp : parseTopicName raw = some n)
    (hf : sys.findTopic n = some t) (hu : ∀ t' ∈ sys.topics, t'.name = n → t'.tid = t.tid) :
    (sys.rpc (.deleteTopic raw)).2 = .empty ∧ (sys.rpc (.deleteTopic raw)).1.findTopic n = none ∧
    (sys.rpc (.deleteTopic raw)).1.subs = sys.subs := by
  simp only [Sys.rpc, hp, hf]
  refine ⟨trivial, ?_, trivial⟩
  unfold Sys.findTopic
  simp only
  apply List.find?_eq_none.mpr
  intro x hx
  simp only [List.mem_filter] at hx
  intro hxn
  have := hu x hx.1 (by simpa using hxn)
  simp [this] at hx

/-! ### Non-vacuity -/
example :
    let raw := displayTopic ([112], [116])
    (Sys.init.rpc (.createTopic raw)).2 = .topic raw ∧
    (((Sys.init.rpc (.createTopic raw)).1).rpc (.createTopic raw)).2 = .err .alreadyExists ∧
    (Sys.init.rpc (.getTopic raw)).2 = .err .notFound := by decide


/-! ### Over all histories (invariant `SysInv`, Deltio/Lemmas/SysInv.lean) -/

/-- After ANY history of requests, stream operations and time advances, topic names and
    subscription names are unique keys, and internal ids are unique and increase with creation:
    the two namespaces are maps. -/
theorem C10_names_are_keys (ops : List SysOp) :
    let sys := Sys.init.execOps ops
    (sys.topics.map (·.name)).Nodup ∧ (sys.subs.map (·.name)).Nodup ∧
    (sys.topics.map (·.tid)).Pairwise (· < ·) ∧ (sys.subs.map (·.sid)).Pairwise (· < ·) := by
  intro sys
  have h := SysInv_all ops
  have e1 : sys.tsh.map (·.name) = sys.topics.map (·.name) := by simp [Sys.tsh, List.map_map, Function.comp]
  have e2 : sys.ssh.map (·.name) = sys.subs.map (·.name) := by simp [Sys.ssh, List.map_map, Function.comp]
  have e3 : sys.tsh.map (·.tid) = sys.topics.map (·.tid) := by simp [Sys.tsh, List.map_map, Function.comp]
  have e4 : sys.ssh.map (·.sid) = sys.subs.map (·.sid) := by simp [Sys.ssh, List.map_map, Function.comp]
  exact ⟨e1 ▸ h.tnames, e2 ▸ h.snames, e3 ▸ h.tids, e4 ▸ h.sids⟩

/-- Hence, in every reachable state, DeleteTopic of a present name makes it absent (no hypothesis). -/
theorem C10_delete_topic_all (ops : List SysOp) (raw : Bytes) (n : Name) (t : TopicEnt) (hp : parseTopicName raw = some n)
    (hf : (Sys.init.execOps ops).findTopic n = some t) :
    ((Sys.init.execOps ops).rpc (.deleteTopic raw)).1.findTopic n = none := by
  have hk := (C10_names_are_keys ops).1
  have hu : ∀ t' ∈ (Sys.init.execOps ops).topics, t'.name = n → t'.tid = t.tid := by
    intro t' ht' hn
    have ht : t ∈ (Sys.init.execOps ops).topics := List.mem_of_find?_eq_some hf
    have htn : t.name = n := by have := List.find?_some hf; simpa using this
    -- injectivity of `name` on a list with distinct names
    have inj : ∀ (l : List TopicEnt), (l.map (·.name)).Nodup → ∀ a ∈ l, ∀ b ∈ l, a.name = b.name → a = b := by
      intro l
      induction l with
      | nil => intro _ a ha; simp at ha
      | cons c cs ih =>
        intro hnd a ha b hb hab
        simp only [List.map_cons, List.nodup_cons] at hnd
        simp only [List.mem_cons] at ha hb
        rcases ha with rfl | ha <;> rcases hb with rfl | hb
        · rfl
        · exact absurd (by rw [hab]; exact List.mem_map_of_mem hb) hnd.1
        · exact absurd (by rw [← hab]; exact List.mem_map_of_mem ha) hnd.1
        · exact ih hnd.2 a ha b hb hab
    rw [inj _ hk t' ht' t ht (by rw [hn, htn])]
  exact (C10_delete_topic _ raw n t hp hf hu).2.1

/-! ### All interleavings of create / delete of one subscription name (slice P1, Deltio/Proto/Attach.lean) -/
section P1slice
open P1

theorem C10_create_returns_registered (s s' : State) (hr : Reachable (init true) s) (g : Nat)
    (hs : step s (.attachFinish g) = some s') : s'.mgr = some g ∧ (s'.tdead = false → s'.topic = some g) := by
  have h := inv_reachable s hr
  have h' := inv_step h _ hs
  simp only [step] at hs
  split at hs
  · rename_i hg
    have hm := active_is_cur h g (Or.inl (by rw [hg]; simp))
    simp only [Option.some.injEq] at hs
    have hm' : s'.mgr = some g := by rw [← hs]; exact hm
    obtain ⟨_, _, c3, _, _, c6, _⟩ := h'.cur g hm'
    refine ⟨hm', fun hlive => ?_⟩
    rw [c3 hlive]
    have ha : (s'.gen g).att = .finished := by rw [← hs]; simp [upd]
    have hh : (s'.gen g).helper = .none := by
      obtain ⟨_, _, _, _, _, d6, _⟩ := h.cur g hm
      have : (s.gen g).helper = .none := helper_none_of_att d6 (by rw [hg]; simp)
      rw [← hs]; simp [upd, this]
    simp [expectedTopic, ha, hh]
  · cases hs

theorem C10_delete_returns_absent (s s' : State) (hr : Reachable (init true) s) (g : Nat)
    (hs : step s (.helperFinish g) = some s') :
    s.mgr = some g ∧ s'.mgr = none ∧ (s'.tdead = false → s'.topic = none) ∧ s'.mbT = [] := by
  have h := inv_reachable s hr
  have h' := inv_step h _ hs
  simp only [step] at hs
  split at hs
  · rename_i hg
    have hm := active_is_cur h g (Or.inr (Or.inl (by rw [hg]; simp)))
    simp only [Option.some.injEq] at hs
    have hm' : s'.mgr = none := by rw [← hs]
    exact ⟨hm, hm', h'.empty hm'⟩
  · cases hs

theorem C10_recreate_after_gone (s s' : State) (hr : Reachable (init true) s) (hs : step s .create = some s') :
    (s.tdead = false → s.topic = none) ∧ s.mbT = [] ∧ ∀ g, g < s.next → (s.gen g).att = .finished ∧ (s.gen g).helper = .done := by
  have h := inv_reachable s hr
  simp only [step] at hs
  split at hs
  · rename_i hn
    refine ⟨(h.empty hn).1, (h.empty hn).2, ?_⟩
    intro g hg
    have := h.old g hg (by rw [hn]; simp)
    exact ⟨this.1, this.2.1⟩
  · cases hs

/-- The atomic specification of one name: present or absent. `create` is the linearization point
    of a successful CreateSubscription; `helperFinish` (= `finish_delete` after the detach) and the
    direct finish on a dead topic are those of a successful DeleteSubscription; every other step
    of the protocol — including the deletion of the topic — is invisible to the specification. -/
def spec (present : Bool) (l : Label) (present' : Bool) : Prop :=
  match l with
  | .create => present = false ∧ present' = true
  | .helperFinish _ => present = true ∧ present' = false
  | .actorDeleteDirect _ => present' = present ∨ (present = true ∧ present' = false)
  | _ => present' = present

theorem C10_lp_sim (s s' : State) (hr : Reachable (init true) s) (l : Label) (hs : step s l = some s') :
    spec s.mgr.isSome l s'.mgr.isSome := by
  cases l with
  | create =>
    simp only [step] at hs
    split at hs
    · rename_i hn
      simp only [Option.some.injEq] at hs; subst hs
      simp [spec, hn]
    · cases hs
  | helperFinish g =>
    have h := (C10_delete_returns_absent s s' hr g hs)
    simp [spec, h.1, h.2.1]
  | actorDeleteDirect i =>
    have hinv := inv_reachable s hr
    simp only [step] at hs
    split at hs
    · cases hs
    · rename_i g _
      split at hs
      · cases hs
      · split at hs
        · cases hs
        · rename_i hw
          split at hs
          · simp only [Option.some.injEq] at hs; subst hs; exact Or.inl rfl
          · rename_i hd
            simp only [Option.some.injEq] at hs; subst hs
            have hfin : (s.gen g).att = .finished := by
              by_cases hc : (s.gen g).att = .finished
              · exact hc
              · exact absurd ⟨hinv.rep, hc⟩ hw
            have hm := active_is_cur hinv g (Or.inr (Or.inr ⟨hfin, by simpa using hd⟩))
            right; simp [hm]
  | attachSend g =>
    simp only [step] at hs; split at hs
    · simp only [Option.some.injEq] at hs; subst hs; rfl
    · cases hs
  | topicTake =>
    simp only [step] at hs
    split at hs
    · cases hs
    · simp only [Option.some.injEq] at hs; subst hs; rfl
    · simp only [Option.some.injEq] at hs; subst hs; rfl
  | attachFinish g =>
    simp only [step] at hs; split at hs
    · simp only [Option.some.injEq] at hs; subst hs; rfl
    · cases hs
  | deleteStart =>
    simp only [step] at hs; split at hs
    · cases hs
    · simp only [Option.some.injEq] at hs; subst hs; rfl
  | actorDelete i =>
    simp only [step] at hs
    split at hs
    · cases hs
    · split at hs
      · cases hs
      · split at hs <;> (simp only [Option.some.injEq] at hs; subst hs; rfl)
  | helperSend g =>
    simp only [step] at hs; split at hs
    · simp only [Option.some.injEq] at hs; subst hs; rfl
    · cases hs
  | topicDie =>
    simp only [step] at hs; split at hs
    · cases hs
    · simp only [Option.some.injEq] at hs; subst hs; rfl
  | retarget g =>
    simp only [step] at hs; split at hs
    · simp only [Option.some.injEq] at hs; subst hs; rfl
    · cases hs

/-- Whole runs follow the specification step by step. -/
inductive specRun : Bool → List Label → Bool → Prop
  | nil (b : Bool) : specRun b [] b
  | cons {b b' b'' : Bool} {l : Label} {ls : List Label} : spec b l b' → specRun b' ls b'' → specRun b (l :: ls) b''

theorem C10_lp_run (ls : List Label) : ∀ (s s' : State), Reachable (init true) s → run s ls = some s' →
    specRun s.mgr.isSome ls s'.mgr.isSome := by
  induction ls with
  | nil => intro s s' _ h; simp only [run, Option.some.injEq] at h; subst h; exact specRun.nil _
  | cons l rest ih =>
    intro s s' hr h
    simp only [run] at h
    cases hs : step s l with
    | none => rw [hs] at h; cases h
    | some s1 =>
      rw [hs] at h
      exact specRun.cons (C10_lp_sim s s1 hr l hs) (ih s1 s' (Reachable.step hr hs) h)

end P1slice

/-! ### C10 as ONE refinement theorem: the system model refines the atomic-map specification

`Spec` (`Lemmas/MapSpec.lean`) is the two maps and nothing else; `Spec.apply` is the statement of
C10 read as a program: create succeeds exactly when the name is absent (else ALREADY_EXISTS), a
subscription additionally needs its topic (NOT_FOUND) in the same project (INVALID_ARGUMENT) with
nothing created otherwise; get / publish / pull / ack / modify / delete on an absent name answer
NOT_FOUND; get and list report the name, topic, effective ack deadline and push configuration the
subscription was created with (the topic reads `_deleted-topic_` once its topic is gone, for ever). -/

/-- In every state satisfying the global invariant, every request answers what the specification
    answers (status, and the full resource content for control-plane calls) and changes the two maps
    exactly as the specification does. -/
theorem C10_refines_map (sys : Sys) (h : SysInv sys) (r : Req) :
    (sys.rpc r).1.abs = (sys.abs.apply r).1 ∧ classOf (sys.rpc r).2 = (sys.abs.apply r).2 :=
  refines_all sys h r

/-- Over ALL histories of requests, stream operations and time advances: the namespaces of the
    reached state are those of the specification run, and the next request is answered as the
    specification answers it there. Nothing but the requests themselves ever changes a namespace. -/
theorem C10_refines_map_run (ops : List SysOp) (r : Req) :
    (Sys.init.execOps ops).abs = (Spec.run {} ops) ∧
    classOf ((Sys.init.execOps ops).rpc r).2 = ((Spec.run {} ops).apply r).2 := by
  have ha : (Sys.init.execOps ops).abs = Spec.run {} ops := by
    have := abs_execOps ops Sys.init SysInv_init
    simpa [Sys.abs, Sys.init] using this
  refine ⟨ha, ?_⟩
  rw [← ha]
  exact (refines_all _ (SysInv_all ops) r).2

/-! non-vacuity: the specification distinguishes the cases (a second create is rejected, a
    subscription on a deleted topic reports `_deleted-topic_`, a re-created topic does not adopt it) -/
def specAfter (rs : List Req) : Spec := rs.foldl (fun s r => (s.apply r).1) {}

example :
    ((specAfter [.createTopic exT]).apply (.createTopic exT)).2 = .err .alreadyExists ∧
    ((specAfter []).apply (.createSub exS1 exT 0 none)).2 = .err .notFound ∧
    ((specAfter [.createTopic exT, .createSub exS1 exT 0 none]).apply (.createSub exS1 exT 0 none)).2 = .err .alreadyExists ∧
    ((specAfter [.createTopic exT, .createSub exS1 exT 0 none, .deleteTopic exT, .createTopic exT]).apply (.getSub exS1)).2 =
      .sub { name := exS1, topic := deletedTopicStr, ackSecs := 10, push := none } ∧
    ((specAfter [.createTopic exT, .createSub exS1 exT 0 none, .deleteTopic exT, .createTopic exT]).apply
      (.listTopicSubs exT 0 [])).2 = .names [] [] := by decide

end Deltio
