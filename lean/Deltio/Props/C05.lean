import Deltio.Lemmas.SubRun
import Deltio.Model.System
/-
  C05 — ModifyAckDeadline replaces the deadline; zero means nack.
-/
namespace Deltio

/-- Classes of the seconds value, for every integer (in particular the whole i32 range). -/
theorem C05_parse (n : Int) :
    (parseExtension n = .error ↔ n < 0) ∧ (parseExtension n = .nack ↔ n = 0) ∧
    (1 ≤ n ∧ n ≤ 599 → parseExtension n = .secs n.toNat) ∧ (600 ≤ n → parseExtension n = .secs 600) := by
  unfold parseExtension
  refine ⟨?_, ?_, ?_, ?_⟩
  · split
    · simp [*]
    · split
      · simp; omega
      · split <;> simp <;> omega
  · split
    · simp; omega
    · split
      · simp; omega
      · split <;> simp [*]
  · intro h
    have h1 : ¬ n < 0 := by omega
    have h2 : ¬ n ≥ 600 := by omega
    have h3 : ¬ n = 0 := by omega
    simp [h1, h2, h3]
  · intro h
    have h1 : ¬ n < 0 := by omega
    simp [h1, h]

/-- A request with a malformed ack id or negative seconds at any position is rejected as a whole
    (`none` = INVALID_ARGUMENT): no partial list of modifications is ever produced. -/
theorem C05_all_or_nothing (now : Nat) : ∀ (ids : List Bytes) (secs : List Int), ids.length = secs.length →
    (parseMods now ids secs = none ↔ (∃ b ∈ ids, parseAckId b = none) ∨ (∃ n ∈ secs, n < 0)) := by
  intro ids
  induction ids with
  | nil => intro secs hl; cases secs <;> simp_all [parseMods]
  | cons b bs ih =>
    intro secs hl
    cases secs with
    | nil => simp at hl
    | cons n ns =>
      simp only [List.length_cons, Nat.add_right_cancel_iff] at hl
      have ih' := ih ns hl
      unfold parseMods
      cases hb : parseAckId b with
      | none => simp [hb]
      | some a =>
        simp only
        have hp := (C05_parse n).1
        cases he : parseExtension n with
        | error =>
          have : n < 0 := hp.mp he
          simp; right; left; exact this
        | nack =>
          have hn : ¬ n < 0 := fun hc => by rw [hp.mpr hc] at he; cases he
          simp only [Option.map_eq_none_iff, ih', List.mem_cons, exists_eq_or_imp, hb]
          simp [hn]
        | secs k =>
          have hn : ¬ n < 0 := fun hc => by rw [hp.mpr hc] at he; cases he
          simp only [Option.map_eq_none_iff, ih', List.mem_cons, exists_eq_or_imp, hb]
          simp [hn]

/-- The unary RPC rejects such a request with INVALID_ARGUMENT and leaves the whole system
    unchanged — whether or not the subscription exists (the parse precedes the lookup). -/
theorem C05_atomic_request (sys : Sys) (raw : Bytes) (secs : Int) (ids : List Bytes)
    (hbad : (∃ b ∈ ids, parseAckId b = none) ∨ (ids ≠ [] ∧ secs < 0)) :
    sys.rpc (.modAck raw secs ids) = (sys, .err .invalidArgument) := by
  have hnone : parseMods sys.clock ids (ids.map (fun _ => secs)) = none := by
    rw [C05_all_or_nothing sys.clock ids _ (by simp)]
    rcases hbad with h | ⟨hne, hs⟩
    · exact Or.inl h
    · right
      cases ids with
      | nil => exact absurd rfl hne
      | cons b bs => exact ⟨secs, by simp, hs⟩
  simp [Sys.rpc, hnone]

/-- Replacement: after `Modify [(a, some R')]` on an outstanding delivery its deadline is `R'`
    (extending or shortening), it is the only delivery with that ack id, its only expiry key is
    `(R', a)` (tracker invariant), and the message is unchanged — so C04 applies with `R'`. -/
theorem C05_replace {s : SubState} (h : SubInv s) (hdel : s.deleted = false) (d : Deliv) (hd : d ∈ s.out.msgs) (R' : Nat) :
    let s' := (s.turn (.modify [(d.ack, some R')])).1
    ({ d with deadline := R' } : Deliv) ∈ s'.out.msgs ∧ s'.out.Inv ∧ s'.backlog = s.backlog ∧
    (∀ x ∈ s'.out.msgs, x.ack = d.ack → x = { d with deadline := R' }) ∧
    (∀ k ∈ s'.out.exps, k.2 = d.ack → k = (R', d.ack)) := by
  have hl := lookup_of_mem h.out.nodup hd
  have hinv := Inv_modifyOne (dl := R') h.out hl
  simp only [SubState.turn, hdel, Bool.false_eq_true, ↓reduceIte, Tracker.modify, hl, List.map_nil, List.append_nil]
  have hmem : ({ d with deadline := R' } : Deliv) ∈ s.out.msgs.map (fun x => if x.ack == d.ack then { d with deadline := R' } else x) := by
    simp only [List.mem_map]
    exact ⟨d, hd, by simp⟩
  have huniq : ∀ x ∈ s.out.msgs.map (fun x => if x.ack == d.ack then ({ d with deadline := R' } : Deliv) else x), x.ack = d.ack →
      x = { d with deadline := R' } := by
    intro x hx hxa
    exact ack_unique hinv.nodup hx hmem (by simpa using hxa)
  refine ⟨hmem, hinv, trivial, huniq, ?_⟩
  intro k hk hk2
  obtain ⟨x, hx, hxk⟩ := (hinv.agree k).mp hk
  have hxa : x.ack = d.ack := by rw [← hxk] at hk2; simpa [Deliv.key] using hk2
  rw [← hxk, huniq x hx hxa]
  rfl

/-- Nack (`N = 0`): the message goes back to the end of the queue in the same turn, both tracker
    entries are removed, and a waiting consumer is notified. -/
theorem C05_nack {s : SubState} (h : SubInv s) (hdel : s.deleted = false) (d : Deliv) (hd : d ∈ s.out.msgs) :
    let r := s.turn (.modify [(d.ack, none)])
    r.1.backlog = s.backlog ++ [d.msg] ∧ (∀ x ∈ r.1.out.msgs, x.ack ≠ d.ack) ∧
    (∀ k ∈ r.1.out.exps, k.2 ≠ d.ack) ∧ r.2.notified = true ∧ r.1.out.Inv := by
  have hl := lookup_of_mem h.out.nodup hd
  have hinv := Inv_removeOne h.out hl
  simp only [SubState.turn, hdel, Bool.false_eq_true, ↓reduceIte, Tracker.modify, hl, List.map_cons, List.map_nil]
  refine ⟨trivial, ?_, ?_, by simp, hinv⟩
  · intro x hx; exact ((mem_eraseMsg _ _ _).mp hx).2
  · intro k hk hk2
    obtain ⟨x, hx, hxk⟩ := (hinv.agree k).mp hk
    have := ((mem_eraseMsg _ _ _).mp hx).2
    apply this
    rw [← hxk] at hk2
    simpa [Deliv.key] using hk2

theorem modify_noop : ∀ (mods : List (Nat × Option Nat)) (t : Tracker), (∀ m ∈ mods, t.lookup m.1 = none) →
    t.modify mods = (t, []) := by
  intro mods
  induction mods with
  | nil => intro t _; rfl
  | cons m rest ih =>
    intro t h
    obtain ⟨a, nd⟩ := m
    unfold Tracker.modify
    have := h (a, nd) (by simp)
    simp only at this
    rw [this]
    exact ih t (fun b hb => h b (by simp [hb]))

/-- Unknown or stale ack ids are ignored: nothing is outstanding under them, nothing changes. -/
theorem C05_unknown_ignored (s : SubState) (mods : List (Nat × Option Nat)) (h : ∀ m ∈ mods, s.out.lookup m.1 = none) :
    (s.turn (.modify mods)).1 = s := by
  simp only [SubState.turn]
  split
  · rfl
  · rw [modify_noop mods s.out h]; simp

/-- Other deliveries are untouched by a modification that does not name them. -/
theorem C05_frame (s : SubState) (mods : List (Nat × Option Nat)) (d : Deliv) (hd : d ∈ s.out.msgs)
    (hn : d.ack ∉ mods.map (·.1)) : d ∈ (s.turn (.modify mods)).1.out.msgs := by
  simp only [SubState.turn]
  split
  · exact hd
  · exact modify_untouched mods s.out d hd hn

/-! ### Non-vacuity -/
example : parseExtension (-1) = .error ∧ parseExtension 0 = .nack ∧ parseExtension 599 = .secs 599 ∧
    parseExtension 2147483647 = .secs 600 := by decide
example :
    let s := (SubState.init 10000000).exec [.post [⟨7, [], [], 0⟩], .pull 5 0]
    ((s.turn (.modify [(1, some 3000000)])).1.out.exps = [(3000000, 1)]) ∧
    ((s.turn (.modify [(1, none)])).1.backlog.map (·.id) = [7]) := by decide

end Deltio
