import Deltio.Proto.Wake
import Deltio.Model.System
/-
  C12 — Deleting a subscription releases the consumers waiting on it.
  Slice P2 with the deletion signal: `delete` = DeleteEnd (deletion signal completed, all Notify
  waiters woken, actor exited so that queued and later requests get Closed). Both outcomes of the
  consumers' randomised `select!` are labels (`wakeDeleted viaSignal`).
-/
namespace Deltio
open P2

/-- Before the fix (a50e01f): a StreamingPull loop whose `select!` takes the `signal` branch
    after the deletion re-pulls, gets Closed from the exited actor and `return`s without a status:
    the response stream never terminates while the request half is open. -/
theorem C12_pinned_hang :
    run false false P2.init [.arrive, .pullTurn 1, .poll, .delete, .wakeDeleted true, .closed true true] =
      some { backlog := 0, permit := false, q := 0, g0 := 0, gp := 0, parked := 0, notif := 0, blk := 0, other := 0,
             deleted := true, ended := 0, silent := 1 } := by
  decide

/-- Steps of the repaired consumers (everything except the pinned silent end and the
    environment-only `cancelQueued` / non-pull requests). -/
def repairedStep : Label → Bool
  | .closed _ pinned => !pinned
  | .cancelQueued => false
  | .otherArrive => false
  | .otherTurn => false
  | _ => true

/-- Consumers that have not yet terminated, weighted by the steps they still need. -/
def openWork (s : State) : Nat := 2 * s.notif + s.q + 2 * s.blk + s.g0 + 2 * s.gp + s.parked

/-- Immediately after the deletion nobody is parked any more (all waiters were notified), and it
    stays that way: a consumer that polls after the deletion sees the `deleted` branch ready. -/
theorem C12_nobody_parks (b r : Bool) {s s' : State} (l : Label) (hd : s.deleted = true) (hp : s.parked = 0)
    (hs : step b r s l = some s') : s'.deleted = true ∧ s'.parked = 0 ∧ s'.silent = s.silent + (if repairedStep l then 0 else s'.silent - s.silent) := by
  cases l <;> simp only [step, notifyOne] at hs <;> (repeat' split at hs) <;>
    first
      | (simp at hs; done)
      | (simp only [Option.some.injEq] at hs; subst hs; simp_all [repairedStep])

theorem C12_delete_wakes_all (b r : Bool) {s s' : State} (hs : step b r s .delete = some s') :
    s'.deleted = true ∧ s'.parked = 0 ∧ s'.notif = s.notif + s.parked := by
  simp only [step] at hs
  split at hs
  · simp at hs
  · simp at hs; subst hs; simp

/-- Released: after the deletion, as long as any consumer has not terminated some consumer step
    is enabled (nobody waits for a message that can no longer arrive) … -/
theorem C12_released_progress (b r : Bool) (s : State) (hd : s.deleted = true) (hp : s.parked = 0) (hw : openWork s > 0) :
    ∃ l, repairedStep l = true ∧ (step b r s l).isSome = true := by
  unfold openWork at hw
  by_cases h1 : s.notif > 0
  · exact ⟨.wakeDeleted false, rfl, by simp [step, hd]; omega⟩
  · by_cases h2 : s.q > 0
    · exact ⟨.closed false false, rfl, by simp [step, hd]; omega⟩
    · by_cases h3 : s.g0 > 0
      · refine ⟨.poll, rfl, ?_⟩
        have : ¬ s.g0 = 0 := by omega
        simp [step, this, hd]
      · by_cases h4 : s.gp > 0
        · refine ⟨.ret false, rfl, ?_⟩
          have : ¬ s.gp = 0 := by omega
          simp [step, this]
        · refine ⟨.unblock, rfl, ?_⟩
          have : ¬ s.blk = 0 := by omega
          simp [step, this]

/-- … and every such step — whichever branch the randomised `select!` takes — strictly decreases
    the remaining work and ends no consumer silently: every consumer terminates after at most two
    of its own steps, at zero virtual time, with an error status (`ended`) or with the messages it
    had already received. -/
theorem C12_released_measure (b r : Bool) {s s' : State} (l : Label) (hd : s.deleted = true) (hp : s.parked = 0)
    (hl : repairedStep l = true) (hs : step b r s l = some s') :
    openWork s' < openWork s ∧ s'.silent = s.silent := by
  cases l <;> simp only [step, notifyOne] at hs <;> (repeat' split at hs) <;>
    first
      | (simp at hs; done)
      | (simp only [Option.some.injEq] at hs; subst hs; simp_all [repairedStep, openWork] <;> omega)

/-- Racing requests: a request that reaches the mailbox before the actor exits is handled by a turn
    (as if ordered before the deletion); one that does not finds the mailbox closed and is answered
    with an error — in this slice, a queued pull after `delete` always has the `closed` step. -/
theorem C12_racers (b r : Bool) (s : State) (hd : s.deleted = true) (hq : s.q > 0) :
    ∃ s', step b r s (.closed false false) = some s' ∧ s'.ended = s.ended + 1 := by
  have : ¬ s.q = 0 := by omega
  simp [step, hd, this]

/-! ### Non-vacuity: three consumers (parked, queued, notified) are all released by one deletion -/
example :
    run false false P2.init [.arrive, .arrive, .arrive, .pullTurn 1, .pullTurn 1, .poll, .poll, .delete,
        .wakeDeleted true, .wakeDeleted false, .closed true false, .closed false false] =
      some { backlog := 0, permit := false, q := 0, g0 := 0, gp := 0, parked := 0, notif := 0, blk := 0, other := 0,
             deleted := true, ended := 3, silent := 0 } := by
  decide

/-! ### System level -/

/-- C12 (system model): DeleteSubscription ends every StreamingPull open on the subscription with
    NOT_FOUND — appended to what the stream had already produced — and leaves no stream open on it;
    streams on other subscriptions are untouched. -/
theorem C12_delete_ends_streams (sys : Sys) (raw : Bytes) (n : Name) (e : SubEnt)
    (hp : parseSubName raw = some n) (hf : sys.findSub n = some e) :
    (∀ s ∈ (sys.rpc (.deleteSub raw)).1.streams, s.sid = e.sid → s.ended = true) ∧
    (∀ s ∈ sys.streams, s.sid = e.sid → s.ended = false →
        { s with outbox := s.outbox ++ [.done .notFound], ended := true } ∈ (sys.rpc (.deleteSub raw)).1.streams) ∧
    (∀ s ∈ sys.streams, s.sid ≠ e.sid → s ∈ (sys.rpc (.deleteSub raw)).1.streams) := by
  simp only [Sys.rpc, hp, hf]
  refine ⟨?_, ?_, ?_⟩
  · intro s hs hsid
    simp only [List.mem_map] at hs
    obtain ⟨s0, _, rfl⟩ := hs
    by_cases hc : (s0.sid == e.sid && !s0.ended) = true
    · simp [hc]
    · simp only [hc, Bool.false_eq_true, ↓reduceIte] at hsid ⊢
      have : (s0.sid == e.sid) = true := by simp [hsid]
      simp only [this, Bool.true_and, Bool.not_eq_true', Bool.not_eq_false] at hc
      exact hc
  · intro s hs hsid hend
    simp only [List.mem_map]
    refine ⟨s, hs, ?_⟩
    have : (s.sid == e.sid && !s.ended) = true := by simp [hsid, hend]
    simp [this]
  · intro s hs hne
    simp only [List.mem_map]
    refine ⟨s, hs, ?_⟩
    have : (s.sid == e.sid && !s.ended) = false := by simp [hne]
    simp [this]

end Deltio
