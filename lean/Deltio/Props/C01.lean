import Deltio.Lemmas.SubRun
import Deltio.Lemmas.SysSub
import Deltio.Lemmas.SysInv
import Deltio.Lemmas.Fanout
/-
  C01 — Fan-out without loss: every accepted message reaches every attached subscription.
  Subscription-local part: all turn sequences of the subscription's actor (= all schedules of any
  number of clients). The system-level fan-out (which subscriptions get which `post` turn) is in
  `C01_fanout` below.
-/
namespace Deltio

/-- Conservation (no loss, no duplication, nothing foreign). From a fresh subscription, after any
    sequence of turns without deletion: the queued + leased + acknowledged messages are exactly a
    permutation of the posted ones. -/
theorem C01_conservation (ackDl : Nat) (ts : List SubTurn) (hn : NoDelete ts) :
    (held ((SubState.init ackDl).exec ts) ++ ackedIn (SubState.init ackDl) ts).Perm (postedIn ts) := by
  have h := exec_conserve (SubInv_init ackDl) rfl ts hn
  simpa [held, SubState.init, Tracker.empty] using h

/-- Every posted message is, at the end, in exactly one of: backlog, outstanding, acknowledged;
    and nothing else is in the backlog or outstanding. `hfresh`: posted message ids are distinct
    (they are, by `C09_ids_unique`). -/
theorem C01_partition (ackDl : Nat) (ts : List SubTurn) (hn : NoDelete ts)
    (hfresh : ((postedIn ts).map (·.id)).Nodup) :
    let s := (SubState.init ackDl).exec ts
    (∀ m, m ∈ postedIn ts ↔ (m ∈ s.backlog ∨ m ∈ s.out.msgs.map (·.msg) ∨ m ∈ ackedIn (SubState.init ackDl) ts)) ∧
    ((s.backlog ++ s.out.msgs.map (·.msg) ++ ackedIn (SubState.init ackDl) ts).map (·.id)).Nodup := by
  intro s
  have hc := C01_conservation ackDl ts hn
  constructor
  · intro m
    rw [← hc.mem_iff]
    simp [held, s]
  · exact ((hc.map (·.id)).nodup_iff).mpr hfresh

/-- Once every lease has run out (an expiry turn at a time at or after every deadline), every
    unacknowledged message is back in the queue: nothing stays leased. -/
theorem C01_all_requeued {s : SubState} (h : SubInv s) (T : Nat) (hT : ∀ d ∈ s.out.msgs, d.deadline ≤ T) :
    (s.turn (.expire T)).1.out.msgs = [] ∧
    ((s.turn (.expire T)).1.backlog).Perm (held s) := by
  simp only [SubState.turn]
  obtain ⟨t', ds, he, hi⟩ := Inv_takeExpired h.out T
  rw [he]
  obtain ⟨_, hp, h3, h4⟩ := takeExpired_spec h.out T he
  have hempty : t'.msgs = [] := by
    cases hm : t'.msgs with
    | nil => rfl
    | cons x xs =>
      have hx : x ∈ t'.msgs := by rw [hm]; simp
      have h1 := h4 x hx
      have h2 := hT x ((hp.mem_iff).mp (List.mem_append_left _ hx))
      omega
  simp only
  split
  · rename_i hds
    have hds' : ds = [] := by simpa using hds
    subst hds'
    rw [hempty] at hp
    simp at hp
    simp [held, hp]
  · simp only
    refine ⟨hempty, ?_⟩
    rw [hempty] at hp
    simp only [List.nil_append] at hp
    unfold held
    exact List.Perm.append_left _ (hp.map _)

/-- Draining: `k ≥ |backlog|` consecutive pulls (any `max_messages`, any times) deliver every
    queued message, in queue order. Together with `C01_all_requeued`: an unacknowledged message is
    delivered again after every expiry of its lease — for ever, until acknowledged. -/
def pullsOut (s : SubState) : List (Nat × Nat) → List Msg
  | [] => []
  | (mx, now) :: rest => ((s.turn (.pull mx now)).2.delivered.map (·.msg)) ++ pullsOut (s.turn (.pull mx now)).1 rest

theorem C01_drain : ∀ (ps : List (Nat × Nat)) (s : SubState), s.deleted = false → s.backlog.length ≤ ps.length →
    pullsOut s ps = s.backlog := by
  intro ps
  induction ps with
  | nil => intro s _ hl; simp at hl; simp [pullsOut, hl]
  | cons p rest ih =>
    intro s hd hl
    obtain ⟨mx, now⟩ := p
    simp only [pullsOut]
    have hp := pull_turn s mx now hd
    rw [hp.2]
    have hd' : (s.turn (.pull mx now)).1.deleted = false := by rw [hp.1]; exact hd
    have hlen : (s.turn (.pull mx now)).1.backlog.length ≤ rest.length := by
      rw [hp.1]
      simp only [List.length_drop, List.length_cons] at hl ⊢
      have : s.backlog.length = 0 ∨ 1 ≤ pullN s mx := by
        simp only [pullN, takeCount]; omega
      omega
    rw [ih _ hd' hlen, hp.1]
    simp

/-- Nothing foreign: a subscription only ever holds or delivers messages that were posted to it. -/
theorem C01_no_foreign (ackDl : Nat) (ts : List SubTurn) (hn : NoDelete ts) (u : SubTurn) :
    ∀ x ∈ (((SubState.init ackDl).exec ts).turn u).2.delivered, x.msg ∈ postedIn ts := by
  intro x hx
  have hb := (delivered_from_backlog _ u x hx).1
  have hc := C01_conservation ackDl ts hn
  exact (hc.mem_iff).mp (List.mem_append_left _ (List.mem_append_left _ hb))

/-! ### Non-vacuity -/
example :
    let ts : List SubTurn := [.post [⟨1, [], [], 0⟩, ⟨2, [], [], 0⟩], .pull 1 0, .ack [1], .post [⟨3, [], [], 0⟩], .pull 1 5]
    let s := (SubState.init 10000000).exec ts
    s.backlog.map (·.id) = [3] ∧ s.out.msgs.map (·.msg.id) = [2] ∧ (ackedIn (SubState.init 10000000) ts).map (·.id) = [1] := by
  decide

/-! ### System level -/

/-- C01 (system level, no StreamingPull open): Publish returns one id per message and hands
    exactly those messages — in order, with those ids — to every subscription attached to the topic
    by one `post` turn each; every other subscription is untouched. -/
theorem C01_fanout (sys : Sys) (raw : Bytes) (msgs : List (Bytes × List (Bytes × Bytes))) (n : Name) (t : TopicEnt)
    (hp : parseTopicName raw = some n) (hf : sys.findTopic n = some t) (hs : sys.streams = [])
    (hnd : (t.subs.map (·.2)).Nodup) :
    let ms := mkMsgs t.tid t.nextMsg sys.pubSeq msgs 0
    (sys.rpc (.publish raw msgs)).2 = .ids (ms.map (·.id)) ∧
    (∀ sid', sid' ∉ t.subs.map (·.2) → (sys.rpc (.publish raw msgs)).1.stateOf sid' = sys.stateOf sid') ∧
    (∀ sid ∈ t.subs.map (·.2), ∀ st, sys.stateOf sid = some st →
        (sys.rpc (.publish raw msgs)).1.stateOf sid = some ((st.turn (.post ms)).1.turn (.expire sys.clock)).1) := by
  intro ms
  simp only [Sys.rpc, hp, hf]
  have h := postAll_spec ms t.subs
    ({ sys with topics := sys.topics.map (fun x => if x.tid == t.tid then { x with nextMsg := x.nextMsg + msgs.length } else x),
                pubSeq := sys.pubSeq + 1 } : Sys) hs hnd
  exact ⟨rfl, h.1, h.2.1⟩

/-- In a state satisfying the global invariant the attached list of a topic has distinct ids. -/
theorem attached_nodup {sys : Sys} (h : SysInv sys) (t : TopicEnt) (ht : t ∈ sys.topics) : (t.subs.map (·.2)).Nodup := by
  have ha := h.attach ⟨t.tid, t.name, t.subs⟩ (by
    unfold Sys.tsh
    exact List.mem_map_of_mem (f := fun t => (⟨t.tid, t.name, t.subs⟩ : TSh)) ht)
  simp only at ha
  rw [ha]
  unfold attachedOf
  simp only [List.map_map]
  have hs := h.sids
  have hsub : List.Sublist (List.map ((fun (x : Name × Nat) => x.2) ∘ fun (e : SSh) => (e.name, e.sid)) (List.filter (fun e => e.topicId == t.tid) sys.ssh))
      (sys.ssh.map (·.sid)) := by
    have : ((fun (x : Name × Nat) => x.2) ∘ fun (e : SSh) => (e.name, e.sid)) = (fun (e : SSh) => e.sid) := rfl
    rw [this]
    exact (List.filter_sublist).map _
  exact (hs.sublist hsub).imp (fun h => Nat.ne_of_lt h)

/-- C01 (system level) for every reachable state: after ANY history that leaves no StreamingPull
    open, a Publish hands its messages, by one `post` turn each, to exactly the subscriptions
    attached to the topic — which are exactly the live subscriptions created on it (`C11_list_eq`). -/
theorem C01_fanout_reachable (ops : List SysOp) (raw : Bytes) (msgs : List (Bytes × List (Bytes × Bytes))) (n : Name) (t : TopicEnt)
    (hp : parseTopicName raw = some n) (hf : (Sys.init.execOps ops).findTopic n = some t)
    (hs : (Sys.init.execOps ops).streams = []) :
    let sys := Sys.init.execOps ops
    let ms := mkMsgs t.tid t.nextMsg sys.pubSeq msgs 0
    (sys.rpc (.publish raw msgs)).2 = .ids (ms.map (·.id)) ∧
    (∀ sid', sid' ∉ t.subs.map (·.2) → (sys.rpc (.publish raw msgs)).1.stateOf sid' = sys.stateOf sid') ∧
    (∀ sid ∈ t.subs.map (·.2), ∀ st, sys.stateOf sid = some st →
        (sys.rpc (.publish raw msgs)).1.stateOf sid = some ((st.turn (.post ms)).1.turn (.expire sys.clock)).1) :=
  C01_fanout _ raw msgs n t hp hf hs (attached_nodup (SysInv_all ops) t (List.mem_of_find?_eq_some hf))

/-! non-vacuity (two subscriptions on one topic) -/
example :
    let s1 := (exSys.rpc (.publish exT [([1], [])])).1
    (s1.stateOf 2).map (fun st => st.backlog.map (·.data)) = some [[1]] ∧
    (s1.stateOf 3).map (fun st => st.backlog.map (·.data)) = some [[1]] := by decide

/-! ### C01 under ALL interleavings of the message-passing protocol (slice P6, `Proto/Fanout.lean`)

Any number of publishers, other clients and subscriptions, any mailbox capacity, any schedule: the
labels of the slice are the atomic steps (mailbox enqueue, topic-actor turn, post task enqueued,
post task failed, reply, subscription-actor turn, subscription actor exit). -/

/-- **No loss under any schedule.** When a Publish has been answered with its ids (`ok`), the post of
    its batch has reached EVERY subscription that was attached when the topic actor accepted it: it
    is in that subscription's mailbox or was handled by its actor (in `seq`), unless the
    subscription's actor has exited (it was deleted). -/
theorem C01_schedules (cap : Nat) (s : P6.State) (h : P6.Reachable (P6.init cap) s)
    (d : P6.Done) (hd : d ∈ s.done) (hok : d.ok = true) (x : Nat) (hx : x ∈ d.fan) :
    P6.Delivered s x d.b :=
  (P6.inv_reachable h).okDone d hd hok x hx

/-- The fan-out set of a publish turn is the topic actor's attached set at the moment the turn
    begins (every `attach` handled before, no `remove` since). -/
theorem C01_fan_is_attached (s s' : P6.State) (r n : Nat) (rest : List P6.TReq)
    (hc : s.cur = none) (ht : s.tmb = .publish r n :: rest) (h : P6.step s .topicTake = some s') :
    s'.cur = some { r := r, b := ⟨s.ctr, n⟩, fan := s.subs, pending := s.subs } := by
  simp [P6.step, hc, ht] at h; subst h; rfl

/-- **Nothing foreign under any schedule.** Whatever a subscription holds was published by a turn
    whose fan-out set contained it — never a message accepted before it was attached or after it
    was removed, never another topic's. -/
theorem C01_schedules_no_foreign (cap : Nat) (s : P6.State) (h : P6.Reachable (P6.init cap) s)
    (x : Nat) (b : P6.Batch) (hb : b ∈ P6.seq s x) :
    (∃ d ∈ s.done, d.b = b ∧ x ∈ d.fan) ∨ (∃ c, s.cur = some c ∧ c.b = b ∧ x ∈ c.fan ∧ x ∉ c.pending) :=
  (P6.inv_reachable h).origin x b hb

/-- Mailboxes are FIFO queues: a step appends one request at the end, takes the head, or (actor
    exit) drops everything. So a request enqueued after a Publish was answered is handled after that
    Publish's post. -/
theorem C01_mailbox_fifo (s s' : P6.State) (l : P6.Label) (h : P6.step s l = some s') (x : Nat) :
    s'.smb x = s.smb x ∨ (∃ m, s'.smb x = s.smb x ++ [m]) ∨ (∃ m, s.smb x = m :: s'.smb x) ∨ s'.smb x = [] := by
  cases l <;> simp only [P6.step] at h
  case cliPublish r n => split at h <;> simp at h; subst h; exact .inl rfl
  case cliAttach y => split at h <;> simp at h; subst h; exact .inl rfl
  case cliRemove y => split at h <;> simp at h; subst h; exact .inl rfl
  case cliOther y =>
    split at h <;> simp at h; subst h
    by_cases hy : x = y
    · subst hy; exact .inr (.inl ⟨.other, by simp⟩)
    · exact .inl (by simp [P6.upd_other _ _ _ _ hy])
  case topicTake => split at h <;> simp at h <;> (subst h; exact .inl rfl)
  case postDone y =>
    split at h
    · rename_i c _
      split at h <;> simp at h; subst h
      by_cases hy : x = y
      · subst hy; exact .inr (.inl ⟨.post c.b, by simp⟩)
      · exact .inl (by simp [P6.upd_other _ _ _ _ hy])
    · simp at h
  case postFail y =>
    split at h
    · split at h <;> simp at h; subst h; exact .inl rfl
    · simp at h
  case reply =>
    split at h
    · split at h <;> simp at h; subst h; exact .inl rfl
    · simp at h
  case subTake y =>
    split at h
    · simp at h
    · split at h
      · simp at h
      · rename_i b rest hm; simp at h; subst h
        by_cases hy : x = y
        · subst hy; exact .inr (.inr (.inl ⟨.post b, by simp [hm]⟩))
        · exact .inl (by simp [P6.upd_other _ _ _ _ hy])
      · rename_i rest hm; simp at h; subst h
        by_cases hy : x = y
        · subst hy; exact .inr (.inr (.inl ⟨.other, by simp [hm]⟩))
        · exact .inl (by simp [P6.upd_other _ _ _ _ hy])
  case subClose y =>
    split at h
    · simp at h
    · simp at h; subst h
      by_cases hy : x = y
      · subst hy; exact .inr (.inr (.inr (by simp)))
      · exact .inl (by simp [P6.upd_other _ _ _ _ hy])

/-- A running publish turn can always make progress, whatever the mailboxes hold (capacity ≥ 1):
    the reply, a post that has room, a post that fails, or the turn of the subscription actor
    whose full mailbox blocks the post. -/
theorem C01_publish_turn_progress (s : P6.State) (hcap : 1 ≤ s.cap) (c : P6.Cur) (hc : s.cur = some c) :
    ∃ l, l.internal = true ∧ (P6.step s l).isSome = true := by
  cases hp : c.pending with
  | nil => exact ⟨.reply, rfl, by simp [P6.step, hc, hp]⟩
  | cons x rest =>
    have hx : x ∈ c.pending := by rw [hp]; simp
    cases hcl : s.closed x with
    | true => exact ⟨.postFail x, rfl, by simp [P6.step, hc, hx, hcl]⟩
    | false =>
      by_cases hl : (s.smb x).length < s.cap
      · exact ⟨.postDone x, rfl, by simp [P6.step, hc, hx, hcl, hl]⟩
      · refine ⟨.subTake x, rfl, ?_⟩
        cases hm : s.smb x with
        | nil => simp [hm] at hl; omega
        | cons m rest' => cases m <;> simp [P6.step, hcl, hm]

/-! non-vacuity: capacity 1, two subscriptions, two publishers; the first publish is answered while
    the second one's post to subscription 2 is still blocked behind the first one's. -/
example :
    (P6.run (P6.init 1)
      [.cliAttach 1, .topicTake, .cliAttach 2, .topicTake, .cliPublish 7 2, .topicTake, .cliPublish 8 1,
       .postDone 2, .postDone 1, .reply, .topicTake, .subTake 1, .postDone 1]).map
      (fun s => (s.done.map (fun d => (d.r, d.ok, d.fan)), s.cur.map (·.pending))) =
    some ([(7, true, [1, 2])], some [2]) ∧
    (P6.run (P6.init 1)
      [.cliAttach 1, .topicTake, .cliAttach 2, .topicTake, .cliPublish 7 2, .topicTake, .cliPublish 8 1,
       .postDone 2, .postDone 1, .reply, .topicTake, .subTake 1, .postDone 1]).map
      (fun s => (s.taken 1, P6.posts (s.smb 1), P6.posts (s.smb 2))) =
    some ([P6.Batch.mk 0 2], [P6.Batch.mk 2 1], [P6.Batch.mk 0 2]) := by decide

/-- … and a post that finds the subscription's actor gone fails the Publish (no ids returned). -/
example :
    (P6.run (P6.init 1)
      [.cliAttach 1, .topicTake, .cliPublish 7 2, .subClose 1, .topicTake, .postFail 1]).map
      (fun s => s.done.map (fun d => (d.r, d.ok))) = some [(7, false)] := by decide

end Deltio
