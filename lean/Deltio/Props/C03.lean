import Deltio.Lemmas.SubRun
/-
  C03 — A delivered message is exclusively leased until its deadline.
  Every consumer (unary Pull, StreamingPull, push round) obtains messages only through `pull`
  turns of the one subscription actor; the theorems quantify over all turn sequences.
-/
namespace Deltio

/-- While a delivery is outstanding, no turn hands its message to anybody: deliveries come from
    the backlog, and the backlog holds no message that is outstanding. `hnd`: message ids held
    by the subscription are pairwise distinct (from `C01_partition`). -/
theorem C03_exclusive_step {s : SubState} (hnd : ((held s).map (·.id)).Nodup) (d : Deliv)
    (hd : d ∈ s.out.msgs) (t : SubTurn) :
    ∀ x ∈ (s.turn t).2.delivered, x.msg.id ≠ d.msg.id := by
  intro x hx he
  have hb := (delivered_from_backlog s t x hx).1
  unfold held at hnd
  rw [List.map_append, List.nodup_append] at hnd
  exact hnd.2.2 _ (List.mem_map_of_mem hb) _ (List.mem_map_of_mem (List.mem_map_of_mem hd)) he

/-- … and the lease itself persists (same ack id, same deadline) through every turn except an
    acknowledgement or modification naming its ack id, an expiry turn at or after its deadline,
    or the deletion of the subscription. -/
theorem C03_lease_persists {s : SubState} (h : SubInv s) (t : SubTurn) (d : Deliv) (hd : d ∈ s.out.msgs)
    (hne : ¬ endsLease d.ack d.deadline t) : d ∈ (s.turn t).1.out.msgs :=
  lease_persists h t d hd hne

/-- Run form: along any sequence of turns none of which ends the lease of `d`, the message of
    `d` is delivered by no turn. -/
theorem C03_exclusive {s : SubState} (h : SubInv s) (hdel : s.deleted = false) (d : Deliv) (hd : d ∈ s.out.msgs)
    (ts : List SubTurn) (hn : NoDelete ts) (hfresh : ((held s ++ postedIn ts).map (·.id)).Nodup)
    (hkeep : ∀ t ∈ ts, ¬ endsLease d.ack d.deadline t) :
    ∀ p u rest, ts = p ++ u :: rest → ∀ x ∈ ((s.exec p).turn u).2.delivered, x.msg.id ≠ d.msg.id := by
  intro p u rest hts
  -- the lease is still there after the prefix
  have hpers : ∀ (q : List SubTurn) (s' : SubState), SubInv s' → d ∈ s'.out.msgs → (∀ t ∈ q, ¬ endsLease d.ack d.deadline t) →
      d ∈ (s'.exec q).out.msgs := by
    intro q
    induction q with
    | nil => intro s' _ hd' _; exact hd'
    | cons t q ih =>
      intro s' hi hd' hk
      exact ih _ (SubInv_turn hi t) (lease_persists hi t d hd' (hk t (by simp))) (fun u hu => hk u (by simp [hu]))
  have hdp := hpers p s h hd (fun t ht => hkeep t (by rw [hts]; simp [ht]))
  -- ids held after the prefix are distinct
  have hnp : NoDelete p := fun t ht => hn t (by rw [hts]; simp [ht])
  have hc := exec_conserve h hdel p hnp
  have hsub : ((held s ++ postedIn p).map (·.id)).Nodup := by
    have : (held s ++ postedIn p).Sublist (held s ++ postedIn ts) := by
      apply List.Sublist.append_left
      unfold postedIn
      rw [hts]
      simp only [List.flatMap_append]
      exact List.sublist_append_left _ _
    exact hfresh.sublist (this.map _)
  have hnd : ((held (s.exec p) ++ ackedIn s p).map (·.id)).Nodup := ((hc.map (·.id)).nodup_iff).mpr hsub
  have hnd' : ((held (s.exec p)).map (·.id)).Nodup := by
    rw [List.map_append] at hnd
    exact (List.nodup_append.mp hnd).1
  exact C03_exclusive_step hnd' d hdp u

/-- Every delivery carries an ack id never used before on the subscription: ack ids handed out by
    a turn lie in `[nextAck before, nextAck after)`, and `nextAck` never decreases. -/
theorem C03_ack_ids_fresh (s : SubState) (t : SubTurn) :
    (∀ d ∈ (s.turn t).2.delivered, s.nextAck ≤ d.ack ∧ d.ack < (s.turn t).1.nextAck) ∧
    s.nextAck ≤ (s.turn t).1.nextAck ∧
    (((s.turn t).2.delivered).map (·.ack)).Nodup := by
  refine ⟨fun d hd => (delivered_from_backlog s t d hd).2, nextAck_mono s t, ?_⟩
  rcases delivered_spec s t with h | ⟨_, _, _, _, h⟩
  · rw [h]; simp
  · rw [h]; exact mkDelivs_acks_nodup _ _ _

/-- … so no ack id issued by a later turn equals one issued earlier, nor one still outstanding. -/
theorem C03_ack_ids_never_reused {s : SubState} (h : SubInv s) (ts : List SubTurn) (u : SubTurn) :
    ∀ x ∈ ((s.exec ts).turn u).2.delivered, (∀ d ∈ s.out.msgs, d.ack < x.ack) ∧ s.nextAck ≤ x.ack := by
  intro x hx
  have hmono : ∀ (q : List SubTurn) (s' : SubState), s'.nextAck ≤ (s'.exec q).nextAck := by
    intro q
    induction q with
    | nil => intro s'; exact Nat.le_refl _
    | cons t q ih => intro s'; exact Nat.le_trans (nextAck_mono s' t) (ih _)
  have h1 := (delivered_from_backlog _ u x hx).2.1
  have h2 := hmono ts s
  refine ⟨fun d hd => ?_, by omega⟩
  have := h.acks d hd
  omega

/-- No response contains the same message twice. -/
theorem C03_no_dup_in_response {s : SubState} (hnd : ((held s).map (·.id)).Nodup) (t : SubTurn) :
    (((s.turn t).2.delivered).map (·.msg.id)).Nodup := by
  rcases delivered_spec s t with h | ⟨max16, now, _, _, h⟩
  · rw [h]; simp
  · rw [h]
    have : (mkDelivs (roundDeadline (now + s.ackDl)) s.nextAck (s.backlog.take (pullN s max16))).map (·.msg.id)
        = (s.backlog.take (pullN s max16)).map (·.id) := by
      rw [← mkDelivs_msgs (roundDeadline (now + s.ackDl)) s.nextAck (s.backlog.take (pullN s max16)), List.map_map]
      simp
    rw [this]
    unfold held at hnd
    rw [List.map_append] at hnd
    exact ((List.nodup_append.mp hnd).1).sublist ((List.take_sublist _ _).map _)

/-! ### Non-vacuity: a lease that blocks redelivery until the expiry turn at its deadline -/
example :
    let s := (SubState.init 10000000).exec [.post [⟨7, [], [], 0⟩], .pull 5 0]
    s.out.msgs.map (·.deadline) = [10000000] ∧
    ((s.exec [.expire 9999999]).turn (.pull 5 9999999)).2.delivered = [] ∧
    (((s.exec [.expire 10000000]).turn (.pull 5 10000000)).2.delivered).map (·.ack) = [2] := by
  decide

end Deltio
