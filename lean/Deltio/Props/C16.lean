import Deltio.Proto.Cancel
import Deltio.Lemmas.SubRun
/-
  C16 — Abandoned requests have all-or-nothing effect.
  Slice P4 (Deltio/Proto/Cancel.lean): CreateSubscription with a cancel label at every await of
  the caller's future, the topic mailbox filling and draining arbitrarily.
-/
namespace Deltio
open P4

/-- Before the fix (9b215df): abandoning CreateSubscription while its attach message waits for
    room in the topic mailbox leaves the subscription registered but never attached — quiescent,
    for ever. -/
theorem C16_pinned_orphan :
    run (P4.init false) [.start, .fill, .cancel, .drain] =
      some { repaired := false, inMgr := true, attached := false, attachQueued := false, handler := .cancelled, task := .idle, full := false } ∧
    Quiescent { repaired := false, inMgr := true, attached := false, attachQueued := false, handler := .cancelled, task := .idle, full := false } := by
  refine ⟨by decide, ?_⟩
  unfold Quiescent; decide

/-- K1: a registered subscription is attached, or its attach message is queued, or a task that
    cannot be cancelled is about to send it. -/
structure CancelInv (s : State) : Prop where
  rep : s.repaired = true
  k1 : s.inMgr = true → s.attached = true ∨ s.attachQueued = true ∨ s.task = .needSend
  none : s.inMgr = false → s.attached = false ∧ s.attachQueued = false ∧ s.task = .idle ∧ s.handler = .idle
  hnever : s.handler ≠ .needSend
  wait : s.task = .awaitReply → s.attachQueued = true
  hwait : s.handler = .awaitReply → s.task = .needSend ∨ s.task = .awaitReply

theorem C16_inv_init : CancelInv (P4.init true) := by constructor <;> simp [P4.init]

theorem C16_inv_step {s s' : State} (h : CancelInv s) (l : Label) (hs : step s l = some s') : CancelInv s' := by
  obtain ⟨h1, h2, h3, h4, h5, h6⟩ := h
  cases l <;> simp only [step] at hs <;> (repeat' split at hs) <;>
    first
      | (simp at hs; done)
      | (simp only [Option.some.injEq] at hs; subst hs; constructor <;> simp_all)

theorem C16_inv_reachable (s : State) (hr : Reachable (P4.init true) s) : CancelInv s := by
  induction hr with
  | refl => exact C16_inv_init
  | step _ hs ih => exact C16_inv_step ih _ hs

/-- All or nothing: with the attach in a task of its own, in every reachable quiescent state —
    whatever the caller did, wherever it was cancelled, however the mailbox filled and drained —
    the subscription is registered iff it is attached: the state of "never received" or of
    "completed", nothing in between. In particular every subscription that exists is attached. -/
theorem C16_all_or_nothing (s : State) (hr : Reachable (P4.init true) s) (hq : Quiescent s) :
    (s.inMgr = true ↔ s.attached = true) := by
  have h := C16_inv_reachable s hr
  obtain ⟨hq1, _, _, hq4, _⟩ := hq
  constructor
  · intro hm
    rcases h.k1 hm with h1 | h1 | h1
    · exact h1
    · rw [hq1] at h1; cases h1
    · exact absurd h1 hq4
  · intro ha
    cases hm : s.inMgr with
    | true => rfl
    | false => have := (h.none hm).1; rw [ha] at this; cases this

/-- … and it is not stuck: the pending attach is sent as soon as the mailbox has room and taken
    by the topic actor's next turn (progress of the mailbox itself is `C07_progress`). -/
theorem C16_progress (s : State) (h : CancelInv s) (hq : ¬ Quiescent s) (hroom : s.full = false) :
    ∃ l, l ≠ Label.cancel ∧ l ≠ Label.fill ∧ l ≠ Label.drain ∧ (step s l).isSome = true := by
  by_cases h1 : s.attachQueued = true
  · exact ⟨.topicTake, by simp, by simp, by simp, by simp [step, h1]⟩
  · by_cases h2 : s.task = .needSend
    · exact ⟨.taskSend, by simp, by simp, by simp, by simp [step, h2, hroom]⟩
    · exfalso
      apply hq
      have hnq : s.attachQueued = false := by simpa using h1
      refine ⟨hnq, h.hnever, ?_, h2, ?_⟩
      · intro hc
        -- the caller only waits while the task is sending or waiting
        rcases h.hwait hc with k | k
        · exact h2 k
        · have := h.wait k; rw [hnq] at this; cases this
      · intro hc; have := h.wait hc; rw [hnq] at this; cases this

/-- Every other handler has exactly one effectful step — the enqueue of its single mailbox
    message; the actor's turn then runs whether or not the caller still waits. For a Pull this
    means: messages handed to an abandoned consumer are outstanding like any others, with their
    deadline, and are redelivered after it (C04). -/
theorem C16_abandoned_pull {s : SubState} (h : SubInv s) (hd : s.deleted = false) (max16 now : Nat) :
    ∀ d ∈ (s.turn (.pull max16 now)).2.delivered,
      d ∈ (s.turn (.pull max16 now)).1.out.msgs ∧ d.deadline = roundDeadline (now + s.ackDl) := by
  intro d hdm
  have hp := pull_turn s max16 now hd
  rw [hp.2] at hdm
  rw [hp.1]
  obtain ⟨_, h2⟩ := foldl_add (roundDeadline (now + s.ackDl)) (s.backlog.take (pullN s max16)) s.nextAck s.out h.out h.acks
  simp only
  rw [h2]
  exact ⟨List.mem_append_right _ hdm, (mem_mkDelivs hdm).2.2.1⟩

end Deltio
