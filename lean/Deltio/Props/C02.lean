import Deltio.Lemmas.SubRun
import Deltio.Lemmas.SysSub
import Deltio.Lemmas.SubsOk
/-
  C02 — Acknowledgement is final and affects only that delivery.
  All theorems are about arbitrary sequences of turns of one subscription actor, i.e. about every
  schedule of any number of clients of that subscription (each actor handles one turn at a time).
-/
namespace Deltio

/-- The consistency invariant of the outstanding-message tracker (hash map vs. expiration set)
    holds after every sequence of turns from a fresh subscription: ack ids are unique, the
    expiration set is strictly sorted and holds exactly the keys of the outstanding deliveries. -/
theorem C02_tracker_consistent (ackDl : Nat) (ts : List SubTurn) :
    ((SubState.init ackDl).exec ts).out.Inv :=
  (SubInv_exec (SubInv_init ackDl) ts).out

/-- Hence `take_expired` never pops an expiration key without a delivery (the `unwrap_unchecked`
    is never reached with `None`): no expiry turn reports undefined behaviour. -/
theorem C02_takeExpired_total (ackDl : Nat) (ts : List SubTurn) (now : Nat) :
    (((SubState.init ackDl).exec ts).turn (.expire now)).2.ub = false := by
  have h := C02_tracker_consistent ackDl ts
  obtain ⟨t', ds, he, _⟩ := Inv_takeExpired h now
  simp only [SubState.turn, he]
  split <;> rfl

/-- An acknowledged outstanding delivery is gone for good: in every continuation (arbitrary
    turns, posts of other messages included), the message is neither queued nor leased again and
    no later turn delivers it. `hfresh`: message ids are not reused by later posts. -/
theorem C02_final {s : SubState} (h : SubInv s) (hd : s.deleted = false) (ids : List Nat) (d : Deliv)
    (hout : d ∈ s.out.msgs) (hack : d.ack ∈ ids) (ts : List SubTurn) (hn : NoDelete ts)
    (hfresh : ((held s ++ postedIn ts).map (·.id)).Nodup) :
    ∀ p u rest, ts = p ++ u :: rest →
      d.msg.id ∉ (held (((s.turn (.ack ids)).1).exec p)).map (·.id) ∧
      ∀ x ∈ ((((s.turn (.ack ids)).1).exec p).turn u).2.delivered, x.msg.id ≠ d.msg.id := by
  intro p u rest hts
  -- the acknowledged message is in the acked part of the conservation law
  have hrem : d ∈ (s.out.remove ids).2 := by
    have hp := remove_perm ids h.out
    have := (hp.mem_iff (a := d)).mpr hout
    simp only [List.mem_append] at this
    rcases this with h1 | h1
    · exact absurd hack ((mem_remove_msgs ids s.out d).mp h1).2
    · exact h1
  have hnp : NoDelete (SubTurn.ack ids :: p) := by
    intro t ht
    simp only [List.mem_cons] at ht
    rcases ht with rfl | ht
    · exact ⟨by simp, by simp⟩
    · exact hn t (by rw [hts]; simp [ht])
  have hc := exec_conserve h hd (SubTurn.ack ids :: p) hnp
  simp only [SubState.exec, ackedIn, postedIn, List.flatMap_cons, postedBy, List.nil_append] at hc
  have hsub : ((held s ++ p.flatMap postedBy).map (·.id)).Nodup := by
    have : (held s ++ p.flatMap postedBy).Sublist (held s ++ postedIn ts) := by
      apply List.Sublist.append_left
      unfold postedIn
      rw [hts]
      simp only [List.flatMap_append]
      exact List.sublist_append_left _ _
    exact hfresh.sublist (this.map _)
  have hnd : ((held ((s.turn (.ack ids)).1.exec p) ++ (ackedBy s (.ack ids) ++ ackedIn (s.turn (.ack ids)).1 p)).map (·.id)).Nodup :=
    ((hc.map (·.id)).nodup_iff).mpr hsub
  have hin : d.msg ∈ ackedBy s (.ack ids) := by
    simp only [ackedBy, hd, Bool.false_eq_true, ↓reduceIte]
    exact List.mem_map_of_mem hrem
  have hnot : d.msg.id ∉ (held ((s.turn (.ack ids)).1.exec p)).map (·.id) := by
    intro hmem
    rw [List.map_append, List.nodup_append] at hnd
    have := hnd.2.2 _ hmem (d.msg.id) (List.mem_map_of_mem (List.mem_append_left _ hin))
    exact this rfl
  refine ⟨hnot, ?_⟩
  intro x hx hxe
  apply hnot
  rw [← hxe]
  have := (delivered_from_backlog _ u x hx).1
  exact List.mem_map_of_mem (List.mem_append_left _ this)

/-- The acknowledgement touches nothing else: the backlog, the ack-id counter and every other
    outstanding delivery (deadline included) are unchanged, and nothing new becomes outstanding. -/
theorem C02_frame (s : SubState) (ids : List Nat) :
    (s.turn (.ack ids)).1.backlog = s.backlog ∧ (s.turn (.ack ids)).1.nextAck = s.nextAck ∧
    (∀ d ∈ s.out.msgs, d.ack ∉ ids → d ∈ (s.turn (.ack ids)).1.out.msgs) ∧
    (∀ d ∈ (s.turn (.ack ids)).1.out.msgs, d ∈ s.out.msgs) ∧
    (s.turn (.ack ids)).2.delivered = [] ∧ (s.turn (.ack ids)).2.notified = false := by
  simp only [SubState.turn]
  split
  · exact ⟨rfl, rfl, fun d hd _ => hd, fun d hd => hd, rfl, rfl⟩
  · refine ⟨rfl, rfl, ?_, ?_, rfl, rfl⟩
    · intro d hd hn; exact (mem_remove_msgs ids s.out d).mpr ⟨hd, hn⟩
    · intro d hd; exact ((mem_remove_msgs ids s.out d).mp hd).1

theorem remove_noop : ∀ (ids : List Nat) (t : Tracker), (∀ a ∈ ids, t.lookup a = none) → t.remove ids = (t, []) := by
  intro ids
  induction ids with
  | nil => intro t _; rfl
  | cons a rest ih =>
    intro t h
    unfold Tracker.remove
    rw [h a (by simp)]
    exact ih t (fun b hb => h b (by simp [hb]))

/-- Acknowledging ids none of which is outstanding — unknown, stale (expired or nacked, never
    reissued by `C03_ack_ids_fresh`) or already acknowledged — changes nothing at all. -/
theorem C02_noop (s : SubState) (ids : List Nat) (h : ∀ a ∈ ids, s.out.lookup a = none) :
    (s.turn (.ack ids)).1 = s := by
  simp only [SubState.turn]
  split
  · rfl
  · rw [remove_noop ids s.out h]

/-! ### Non-vacuity -/
example :
    let s0 := (SubState.init 10000000).exec [.post [⟨7, [], [], 0⟩, ⟨8, [], [], 0⟩], .pull 1 0]
    s0.out.msgs.map (·.ack) = [1] ∧ s0.backlog.map (·.id) = [8] ∧
    ((s0.turn (.ack [1])).1.exec [.expire 99999999, .pull 10 99999999]).out.msgs.map (·.msg.id) = [8] := by
  decide

/-! ### System level -/

/-- C02 (system level): an Acknowledge on one subscription leaves the state of every other
    subscription — in particular other subscriptions' copies of the same message — untouched, and
    changes no topic, no manager entry, no registry entry. -/
theorem C02_other_subs (sys : Sys) (raw : Bytes) (ids : List Bytes) (n : Name) (e : SubEnt)
    (hp : parseSubName raw = some n) (hf : sys.findSub n = some e) (sid' : Nat) (hne : sid' ≠ e.sid) :
    (sys.rpc (.ack raw ids)).1.stateOf sid' = sys.stateOf sid' ∧ (sys.rpc (.ack raw ids)).1.skel = sys.skel := by
  cases hids : parseAckIds ids with
  | none => simp [Sys.rpc, hids]
  | some as =>
    simp only [Sys.rpc, hids, hp, hf]
    exact ⟨subReq_other sys e.sid sid' _ hne, skel_subReq sys e.sid _⟩

/-! non-vacuity (two subscriptions on one topic) -/
example :
    let s1 := (exSys.rpc (.publish exT [([1], [])])).1
    let s2 := (s1.rpc (.pull exS1 10 true)).1
    let s3 := (s2.rpc (.pull exS2 10 true)).1
    let s4 := (s3.rpc (.ack exS1 [[49]])).1
    (s4.stateOf 2).map (fun st => st.out.len) = some 0 ∧ (s4.stateOf 3).map (fun st => st.out.len) = some 1 := by decide

/-- C02 (system level, all histories): after ANY sequence of requests, stream operations and time
    advances, the two structures of every registered subscription's outstanding-message tracker
    agree (the invariant behind the `unwrap_unchecked`s of `take_expired`), so an acknowledged
    delivery is gone from both and can never be taken by an expiry again. -/
theorem C02_system_tracker_consistent (ops : List SysOp) :
    ∀ e ∈ (Sys.init.execOps ops).subs, e.st.out.Inv ∧ e.st.deleted = false :=
  fun e he => ⟨(SubsOk_all ops e he).1.out, (SubsOk_all ops e he).2⟩

/-- The L1 theorems of this file (and of C01, C03, C04, C05, C08) quantify over all turn sequences of
    one subscription actor; by the bridge `Sys_subs_are_turn_runs` every subscription of every
    reachable system state is such a run. Restated here for C02's consistency invariant. -/
theorem C02_reachable_is_turn_run (ops : List SysOp) : ∀ e ∈ (Sys.init.execOps ops).subs, IsTurnRun e.st :=
  Sys_subs_are_turn_runs ops

end Deltio
