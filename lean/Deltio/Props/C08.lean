import Deltio.Lemmas.SubRun
import Deltio.Lemmas.Order
import Deltio.Props.C09
import Deltio.Lemmas.Fanout
/-
  C08 — Publish order is delivery order; message ids are issued in order.
-/
namespace Deltio

/-- One id per submitted message, the k-th id for the k-th message, strictly increasing within
    the request and all above every id the topic issued before (counter `base`). -/
theorem C08_ids (tid base pt : Nat) (ms : List (Bytes × List (Bytes × Bytes))) :
    ((mkMsgs tid base pt ms 0).map (·.id)).length = ms.length ∧
    ((mkMsgs tid base pt ms 0).map (·.id)).Pairwise (· < ·) ∧
    (∀ i ∈ (mkMsgs tid base pt ms 0).map (·.id), mkId tid base < i ∧ i ≤ mkId tid (base + ms.length)) := by
  have h := (C09_publish_ids tid base pt ms 0).1
  rw [h]
  refine ⟨by simp, ?_, ?_⟩
  · rw [List.pairwise_map]
    have : (List.range ms.length).Pairwise (· < ·) := List.pairwise_lt_range
    exact this.imp (fun {a b} hab => by unfold mkId; omega)
  · intro i hi
    simp only [List.mem_map, List.mem_range] at hi
    obtain ⟨k, hk, rfl⟩ := hi
    unfold mkId; omega

/-- The topic's counter advances by the number of messages: ids of successive publishes of one
    topic increase strictly in the order in which the topic actor handled them. -/
theorem C08_publish_advances (sys : Sys) (raw : Bytes) (msgs : List (Bytes × List (Bytes × Bytes))) (n : Name) (t : TopicEnt)
    (hn : parseTopicName raw = some n) (ht : sys.findTopic n = some t) :
    (sys.rpc (.publish raw msgs)).2 = .ids ((mkMsgs t.tid t.nextMsg sys.pubSeq msgs 0).map (·.id)) := by
  simp [Sys.rpc, hn, ht]

/-- FIFO queue discipline of the subscription: a pull turn delivers exactly the first `n` messages
    of the backlog, in backlog order, and leaves the rest in order; a post appends at the back.
    Hence messages that have never been delivered leave in the order they were posted, and the
    messages of one publish (posted by one turn) stay contiguous. -/
theorem C08_fifo (s : SubState) (max16 now : Nat) (hd : s.deleted = false) :
    let r := s.turn (.pull max16 now)
    r.2.delivered.map (·.msg) ++ r.1.backlog = s.backlog := by
  have hp := pull_turn s max16 now hd
  simp only
  rw [hp.2, hp.1]
  simp

theorem C08_post_appends (s : SubState) (ms : List Msg) (hd : s.deleted = false) :
    (s.turn (.post ms)).1.backlog = s.backlog ++ ms := by
  simp [SubState.turn, hd]

/-- Re-queued messages (nack, expiry) go to the back: they never overtake a queued message. -/
theorem C08_requeue_at_back {s : SubState} (t : SubTurn) (hne : ∀ mx now, t ≠ .pull mx now) (hde : t ≠ .deleteEnd) :
    s.backlog <+: (s.turn t).1.backlog := by
  cases t with
  | post ms => simp only [SubState.turn]; split <;> simp
  | pull mx now => exact absurd rfl (hne mx now)
  | ack ids => simp only [SubState.turn]; split <;> simp
  | modify mods => simp only [SubState.turn]; split <;> simp
  | expire now =>
    simp only [SubState.turn]
    split
    · simp
    · split <;> simp
  | deleteBegin => simp [SubState.turn]
  | deleteEnd => exact absurd rfl hde
  | getStats => simp [SubState.turn]
  | getInfo => simp [SubState.turn]

/-! ### First deliveries occur in publish order -/

/-- Ghost bookkeeping along a run: `D` the ids delivered so far, `F` the sequence of FIRST deliveries
    (ids that no earlier turn had delivered), `hi` the largest id posted so far. -/
structure Ghost where
  D : List Nat
  F : List Nat
  hi : Nat

def ghostStep (s : SubState) (g : Ghost) : SubTurn → Ghost
  | .post ms => { g with hi := (ms.map (·.id)).foldl max g.hi }
  | .pull mx now =>
    let taken := (s.turn (.pull mx now)).2.delivered.map (·.msg.id)
    { g with D := g.D ++ taken, F := g.F ++ taken.filter (fun i => !g.D.contains i) }
  | _ => g

def ghostRun (s : SubState) (g : Ghost) : List SubTurn → SubState × Ghost
  | [] => (s, g)
  | t :: ts => ghostRun (s.turn t).1 (ghostStep s g t) ts

/-- Posts arrive in publish order: ids increase inside a post and from post to post (this is what
    the topic actor guarantees: `C08_ids`, one publish turn at a time, and what the turn-trace
    validation checks on every concurrent run: "posts in id order"). -/
def PostsInOrder (s : SubState) (g : Ghost) : List SubTurn → Prop
  | [] => True
  | t :: ts =>
    (match t with
      | .post ms => Incr (ms.map (·.id)) ∧ ∀ m ∈ ms, g.hi < m.id
      | _ => True) ∧ PostsInOrder (s.turn t).1 (ghostStep s g t) ts

theorem orderInv_run : ∀ (ts : List SubTurn) (s : SubState) (g : Ghost), OrderInv s g.D g.F g.hi → SubInv s → s.deleted = false →
    NoDelete ts → PostsInOrder s g ts →
    OrderInv (ghostRun s g ts).1 (ghostRun s g ts).2.D (ghostRun s g ts).2.F (ghostRun s g ts).2.hi := by
  intro ts
  induction ts with
  | nil => intro s g h _ _ _ _; exact h
  | cons t ts ih =>
    intro s g h hs hd hn hp
    have hn' : NoDelete ts := fun u hu => hn u (List.mem_cons_of_mem _ hu)
    have ht := hn t List.mem_cons_self
    have hd' : (s.turn t).1.deleted = false := by rw [turn_deleted t ht.1]; exact hd
    simp only [PostsInOrder] at hp
    simp only [ghostRun]
    apply ih _ _ _ (SubInv_turn hs t) hd' hn' hp.2
    cases t with
    | post ms => exact orderInv_post h hs hd ms hp.1.1 hp.1.2
    | pull mx now => exact orderInv_pull h hs hd mx now
    | ack ids => exact orderInv_other h hs hd _ (Or.inl ⟨ids, rfl⟩)
    | modify mods => exact orderInv_other h hs hd _ (Or.inr (Or.inl ⟨mods, rfl⟩))
    | expire now => exact orderInv_other h hs hd _ (Or.inr (Or.inr (Or.inl ⟨now, rfl⟩)))
    | deleteBegin => exact absurd rfl ht.1
    | deleteEnd => exact absurd rfl ht.2
    | getStats => exact orderInv_other h hs hd _ (Or.inr (Or.inr (Or.inr (Or.inl rfl))))
    | getInfo => exact orderInv_other h hs hd _ (Or.inr (Or.inr (Or.inr (Or.inr rfl))))

/-- On every subscription, under every schedule of its consumers, ackers, nackers and expiries:
    the first deliveries of messages occur in strictly increasing id order — the order in which the
    topic accepted them — and every first delivery is above everything delivered before it; only
    redeliveries may appear out of order. Messages of one publish, posted by one turn, are
    consecutive in that order. -/
theorem C08_first_delivery_order (ackDl : Nat) (ts : List SubTurn) (hn : NoDelete ts)
    (hp : PostsInOrder (SubState.init ackDl) ⟨[], [], 0⟩ ts) :
    Incr (ghostRun (SubState.init ackDl) ⟨[], [], 0⟩ ts).2.F := by
  have h0 : OrderInv (SubState.init ackDl) [] [] 0 := by
    constructor <;> simp [SubState.init, Tracker.empty, freshOf, Incr, held]
  exact (orderInv_run ts _ ⟨[], [], 0⟩ h0 (SubInv_init ackDl) rfl hn hp).fIncr

/-! ### Non-vacuity -/
example :
    (ghostRun (SubState.init 10000000) ⟨[], [], 0⟩
      [.post [⟨5, [], [], 0⟩, ⟨6, [], [], 0⟩], .pull 1 0, .modify [(1, none)], .post [⟨7, [], [], 0⟩], .pull 10 1]).2.F = [5, 6, 7] ∧
    (ghostRun (SubState.init 10000000) ⟨[], [], 0⟩
      [.post [⟨5, [], [], 0⟩, ⟨6, [], [], 0⟩], .pull 1 0, .modify [(1, none)], .post [⟨7, [], [], 0⟩], .pull 10 1]).2.D = [5, 6, 5, 7] := by
  decide

example : (mkMsgs 2 0 0 [([1], []), ([2], []), ([3], [])] 0).map (·.id) = [8589934593, 8589934594, 8589934595] := by decide

/-! ### C08 under ALL interleavings of concurrent publishers (slice P6, `Proto/Fanout.lean`) -/

/-- **Posts reach every subscription in accept order, under any schedule.** For every subscription,
    the sequence of batches its actor has handled followed by those still in its mailbox is ordered
    by id range: every id of an earlier batch is below every id of a later one — the order in
    which the topic actor accepted the publishes. (With `C08_first_delivery_order`, which takes
    posts in id order as its hypothesis, first deliveries are in publish order.) -/
theorem C08_posts_in_order (cap : Nat) (s : P6.State) (h : P6.Reachable (P6.init cap) s) (x : Nat) :
    (P6.seq s x).Pairwise P6.Before :=
  (P6.inv_reachable h).sorted x

/-- **Ids are issued in accept order.** The id ranges of all publish turns, in the order the topic
    actor accepted them, are disjoint and increasing, whatever the interleaving of publishers. -/
theorem C08_accept_order (cap : Nat) (s : P6.State) (h : P6.Reachable (P6.init cap) s) :
    (P6.turnBatches s).Pairwise P6.Before :=
  (P6.inv_reachable h).turnsSorted

/-- A batch is contiguous and enters a subscription's queue as a whole: one post carries the whole
    id range `lo+1 … lo+n` of its publish turn (there is no label that splits a batch), and no id of
    any batch exceeds the topic's counter. -/
theorem C08_batches_below_counter (cap : Nat) (s : P6.State) (h : P6.Reachable (P6.init cap) s) (x : Nat)
    (b : P6.Batch) (hb : b ∈ P6.seq s x) : b.lo + b.n ≤ s.ctr :=
  (P6.inv_reachable h).below x b hb

/-- **The messages of one Publish request stay contiguous.** The id ranges of any two publish turns are
    disjoint and do not interleave: no id of another request lies inside the range `lo+1 … lo+n` of a
    request, whatever the interleaving of the publishers (one Publish request is one publish turn). -/
theorem C08_request_ranges_disjoint (cap : Nat) (s : P6.State) (h : P6.Reachable (P6.init cap) s) :
    (P6.turnBatches s).Pairwise (fun a b => ∀ i, a.lo < i → i ≤ a.lo + a.n → ¬ (b.lo < i ∧ i ≤ b.lo + b.n)) := by
  refine (C08_accept_order cap s h).imp ?_
  intro a b hab i h1 h2 h3
  unfold P6.Before at hab
  omega

/-! non-vacuity: two racing publishers at capacity 1; subscription 1 handles the batches in accept order -/
example :
    (P6.run (P6.init 1)
      [.cliAttach 1, .topicTake, .cliPublish 7 2, .topicTake, .cliPublish 8 3, .postDone 1, .reply, .topicTake,
       .subTake 1, .postDone 1, .subTake 1, .reply]).map
      (fun s => (s.taken 1, P6.turnBatches s, s.ctr)) =
    some (([P6.Batch.mk 0 2, P6.Batch.mk 2 3], [P6.Batch.mk 0 2, P6.Batch.mk 2 3], 5) : List P6.Batch × List P6.Batch × Nat) := by decide

end Deltio
