import Deltio.Lemmas.SubRun
import Deltio.Props.C09
/-
  C08 — Publish order is delivery order; message ids are issued in order.
-/
namespace Deltio

/-- One id per submitted message, the k-th id for the k-th message, strictly increasing within
    the request and all above every id the topic issued before (counter `base`). -/
theorem C08_ids (tid base pt : Nat) (ms : List (Bytes × List (Bytes × Bytes))) :
    ((mkMsgs tid base pt ms 0).map (·.id)).length = ms.length ∧
    ((mkMsgs tid base pt ms 0).map (·.id)).Pairwise (· < ·) ∧
    (∀ i ∈ (mkMsgs tid base pt ms 0).map (·.id), mkId tid base < i ∧ i ≤ mkId tid (base + ms.length)) := by
  have h := (C09_publish_ids tid base pt ms 0).1
  rw [h]
  refine ⟨by simp, ?_, ?_⟩
  · rw [List.pairwise_map]
    have : (List.range ms.length).Pairwise (· < ·) := List.pairwise_lt_range
    exact this.imp (fun {a b} hab => by unfold mkId; omega)
  · intro i hi
    simp only [List.mem_map, List.mem_range] at hi
    obtain ⟨k, hk, rfl⟩ := hi
    unfold mkId; omega

/-- The topic's counter advances by the number of messages: ids of successive publishes of one
    topic increase strictly in the order in which the topic actor handled them. -/
theorem C08_publish_advances (sys : Sys) (raw : Bytes) (msgs : List (Bytes × List (Bytes × Bytes))) (n : Name) (t : TopicEnt)
    (hn : parseTopicName raw = some n) (ht : sys.findTopic n = some t) :
    (sys.rpc (.publish raw msgs)).2 = .ids ((mkMsgs t.tid t.nextMsg sys.pubSeq msgs 0).map (·.id)) := by
  simp [Sys.rpc, hn, ht]

/-- FIFO queue discipline of the subscription: a pull turn delivers exactly the first `n` messages
    of the backlog, in backlog order, and leaves the rest in order; a post appends at the back.
    Hence messages that have never been delivered leave in the order they were posted, and the
    messages of one publish (posted by one turn) stay contiguous. -/
theorem C08_fifo (s : SubState) (max16 now : Nat) (hd : s.deleted = false) :
    let r := s.turn (.pull max16 now)
    r.2.delivered.map (·.msg) ++ r.1.backlog = s.backlog := by
  have hp := pull_turn s max16 now hd
  simp only
  rw [hp.2, hp.1]
  simp

theorem C08_post_appends (s : SubState) (ms : List Msg) (hd : s.deleted = false) :
    (s.turn (.post ms)).1.backlog = s.backlog ++ ms := by
  simp [SubState.turn, hd]

/-- Re-queued messages (nack, expiry) go to the back: they never overtake a queued message. -/
theorem C08_requeue_at_back {s : SubState} (t : SubTurn) (hne : ∀ mx now, t ≠ .pull mx now) (hde : t ≠ .deleteEnd) :
    s.backlog <+: (s.turn t).1.backlog := by
  cases t with
  | post ms => simp only [SubState.turn]; split <;> simp
  | pull mx now => exact absurd rfl (hne mx now)
  | ack ids => simp only [SubState.turn]; split <;> simp
  | modify mods => simp only [SubState.turn]; split <;> simp
  | expire now =>
    simp only [SubState.turn]
    split
    · simp
    · split <;> simp
  | deleteBegin => simp [SubState.turn]
  | deleteEnd => exact absurd rfl hde
  | getStats => simp [SubState.turn]
  | getInfo => simp [SubState.turn]

/-! ### Non-vacuity -/
example : (mkMsgs 2 0 0 [([1], []), ([2], []), ([3], [])] 0).map (·.id) = [8589934593, 8589934594, 8589934595] := by decide

end Deltio
