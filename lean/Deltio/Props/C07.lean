import Deltio.Proto.Deadlock
import Deltio.Lemmas.SysClock
import Deltio.Lemmas.SysSub
/-
  C07 — Every request terminates: no deadlock between topic and subscription actors.
  Slice P3 (Deltio/Proto/Deadlock.lean): all interleavings, any number of client requests, any
  mailbox capacity ≥ 1.
-/
namespace Deltio
open P3

/-! ### The protocol before the fix deadlocks (witness, checked by kernel evaluation) -/

def pinnedTrace1 : List Label :=
  [.enq 0,          -- DeleteSubscription enqueued
   .sTake,          -- the subscription actor enters Delete (deleted := true)
   .enq 0,          -- another request fills the subscription mailbox (capacity 1)
   .enq 0,          -- Publish enqueued …
   .tTake,          -- … and taken: the topic actor now waits for room in the subscription mailbox
   .sSendRemove]    -- the deleting actor's RemoveSubscription sits in the topic mailbox, never taken

theorem stuck_of_all (s : State) (h : ∀ l ∈ allLabels s, step s l = none) : Stuck s := by
  intro l
  cases l with
  | enq i =>
    by_cases hi : i < s.clients.length
    · exact h _ (List.mem_append_left _ (List.mem_map.mpr ⟨i, List.mem_range.mpr hi, rfl⟩))
    · have : s.clients[i]? = none := by simp; omega
      simp [step, this]
  | tTake => exact h _ (by simp [allLabels])
  | tPostDone => exact h _ (by simp [allLabels])
  | sTake => exact h _ (by simp [allLabels])
  | sSendRemove => exact h _ (by simp [allLabels])
  | hSendRemove => exact h _ (by simp [allLabels])
  | hSendFinish => exact h _ (by simp [allLabels])

def stuck1 : State :=
  { cap := 1, repaired := false, clients := [], mbT := [.remove], mbS := [.other], publishing := true,
    attached := true, deleted := true, sPhase := .awaitRemove, helper := .none }

/-- Capacity 1: after six steps nothing can move although three requests are unanswered. -/
theorem C07_pinned_deadlock :
    run (init 1 false [.delete, .otherS, .publish]) pinnedTrace1 = some stuck1 ∧ Stuck stuck1 ∧ Pending stuck1 := by
  refine ⟨by decide, ?_, ?_⟩
  · apply stuck_of_all; decide
  · right; left; decide

def stuck16 : State :=
  { cap := 16, repaired := false, clients := [], mbT := [.remove], mbS := List.replicate 16 .other, publishing := true,
    attached := true, deleted := true, sPhase := .awaitRemove, helper := .none }

/-- The real capacity, 16: DeleteSubscription taken, 16 requests fill the subscription mailbox,
    a Publish is taken by the topic actor — 21 steps, then stuck for ever. -/
theorem C07_pinned_deadlock_16 :
    run (init 16 false (.delete :: List.replicate 16 .otherS ++ [.publish]))
        ([.enq 0, .sTake] ++ List.replicate 16 (.enq 0) ++ [.enq 0, .tTake, .sSendRemove]) = some stuck16 ∧
      Stuck stuck16 ∧ Pending stuck16 := by
  refine ⟨by decide, ?_, ?_⟩
  · apply stuck_of_all; decide
  · right; left; decide

/-! ### The repaired protocol: progress and a strictly decreasing measure -/

structure Inv (s : State) : Prop where
  rep : s.repaired = true
  cap : 1 ≤ s.cap
  phase : s.sPhase = .idle ∨ s.sPhase = .exited
  await : s.helper = .awaitRemove → TMsg.remove ∈ s.mbT
  exited : s.sPhase = .exited → s.helper = .none
  fin : SMsg.finish ∈ s.mbS → s.helper = .none
  del : (s.helper ≠ .none ∨ SMsg.finish ∈ s.mbS) → s.deleted = true

theorem C07_inv_init (cap : Nat) (h : 1 ≤ cap) (clients : List Want) : Inv (init cap true clients) := by
  constructor <;> simp [init, h]

/-- The invariant is inductive: it holds in every reachable state of the repaired protocol. -/
theorem C07_inv_step {s s' : State} (h : Inv s) (l : Label) (hs : step s l = some s') : Inv s' := by
  obtain ⟨hrep, hcap, hph, haw, hex, hfin, hdel⟩ := h
  cases l <;> simp only [step] at hs <;> (repeat' split at hs) <;>
    first
      | (simp at hs; done)
      | (simp only [Option.some.injEq] at hs; subst hs; constructor <;> simp_all <;> grind)

theorem C07_inv_reachable (cap : Nat) (h : 1 ≤ cap) (clients : List Want) (s : State)
    (hr : Reachable (init cap true clients) s) : Inv s := by
  induction hr with
  | refl => exact C07_inv_init cap h clients
  | step _ hs ih => exact C07_inv_step ih _ hs

/-- Progress (no deadlock): in every reachable state of the repaired protocol in which anything
    at all is pending, some atomic step is enabled — for every capacity ≥ 1, every number and mix
    of client requests, every interleaving. -/
theorem C07_progress {s : State} (h : Inv s) (hp : Pending s) : ∃ l, (step s l).isSome = true := by
  obtain ⟨hrep, hcap, hph, haw, hex, hfin, hdel⟩ := h
  by_cases h1 : s.sPhase = .idle ∧ s.mbS ≠ []
  · -- the subscription actor is never blocked: it takes its next message
    refine ⟨.sTake, ?_⟩
    obtain ⟨hi, hm⟩ := h1
    cases hmb : s.mbS with
    | nil => exact absurd hmb hm
    | cons m rest => cases m <;> simp [step, hi, hmb, hrep] <;> split <;> simp
  · have h1' : s.sPhase = .exited ∨ s.mbS = [] := by
      rcases hph with hi | he
      · right
        cases hmb : s.mbS with
        | nil => rfl
        | cons m rest => exact absurd ⟨hi, by simp [hmb]⟩ h1
      · left; exact he
    by_cases h2 : s.publishing = true
    · -- the running Publish can enqueue its post (room in an empty mailbox) or sees Closed
      refine ⟨.tPostDone, ?_⟩
      rcases h1' with he | hm
      · simp [step, h2, he]
      · simp only [step, h2]
        have : s.mbS.length < s.cap := by simp [hm]; omega
        simp [this]
        split <;> simp
    · have h2' : s.publishing = false := by simpa using h2
      by_cases h3 : s.mbT = []
      · -- both actors idle with empty (or closed) mailboxes: whoever wants to send can
        have hT : s.mbT.length < s.cap := by simp [h3]; omega
        have hS : s.sPhase = .exited ∨ s.mbS.length < s.cap := by
          rcases h1' with he | hm
          · exact Or.inl he
          · right; simp [hm]; omega
        by_cases h4 : s.clients = []
        · -- only the helper (or nothing) is left
          have hhelp : s.helper ≠ .none := by
            rcases hp with hp | hp | hp | hp | hp | hp | hp
            · exact absurd h4 hp
            · exact absurd h3 hp
            · rcases h1' with he | hm
              · exact absurd he hp.2
              · exact absurd hm hp.1
            · rw [h2'] at hp; cases hp
            · rcases hph with hi | he <;> simp_all
            · rcases hph with hi | he <;> simp_all
            · exact hp
          cases hh : s.helper with
          | none => exact absurd hh hhelp
          | sendRemove => exact ⟨.hSendRemove, by simp [step, hh, hT]⟩
          | awaitRemove =>
            have := haw hh
            rw [h3] at this; simp at this
          | sendFinish =>
            have hne : s.sPhase ≠ .exited := fun he => by have := hex he; rw [hh] at this; cases this
            have hS' : s.mbS.length < s.cap := by
              rcases hS with he | hl
              · exact absurd he hne
              · exact hl
            exact ⟨.hSendFinish, by simp [step, hh, hne, hS']⟩
        · refine ⟨.enq 0, ?_⟩
          cases hc : s.clients with
          | nil => exact absurd hc h4
          | cons w rest =>
            cases w <;> simp [step, hc, hT]
            · rcases hS with he | hl
              · simp [he]
              · by_cases he : s.sPhase = .exited <;> simp [he, hl]
            · rcases hS with he | hl
              · simp [he]
              · by_cases he : s.sPhase = .exited <;> simp [he, hl]
      · -- the topic actor takes its next message
        refine ⟨.tTake, ?_⟩
        cases hmb : s.mbT with
        | nil => exact absurd hmb h3
        | cons m rest => cases m <;> simp [step, h2', hmb, hrep]

/-! ### Bounded work: a measure that every step strictly decreases -/

def wWant : Want → Nat
  | .publish => 4 | .otherT => 2 | .otherS => 2 | .delete => 6
def wT : TMsg → Nat
  | .publish => 3 | .remove => 3 | .other => 1
def wS : SMsg → Nat
  | .post => 1 | .delete => 5 | .finish => 1 | .other => 1
def wHelper : Helper → Nat
  | .none => 0 | .sendRemove => 4 | .awaitRemove => 0 | .sendFinish => 2

/-- Remaining work: every pending item weighs the number of atomic steps it still needs. -/
def mu (s : State) : Nat :=
  (s.clients.map wWant).sum + (s.mbT.map wT).sum + (s.mbS.map wS).sum + (if s.publishing then 2 else 0) + wHelper s.helper

theorem sum_eraseIdx {α} (w : α → Nat) : ∀ (l : List α) (i : Nat) (x : α), l[i]? = some x →
    ((l.eraseIdx i).map w).sum + w x = (l.map w).sum := by
  intro l
  induction l with
  | nil => intro i x h; simp at h
  | cons a rest ih =>
    intro i x h
    cases i with
    | zero => simp at h; subst h; simp [Nat.add_comm]
    | succ j =>
      simp at h
      have := ih j x h
      simp only [List.eraseIdx_cons_succ, List.map_cons, List.sum_cons]
      omega

/-- Every atomic step of the repaired protocol strictly decreases the measure: under every
    schedule all requests are answered after at most `mu` steps (≤ 6 per request). -/
theorem C07_measure {s s' : State} (h : Inv s) (l : Label) (hs : step s l = some s') : mu s' < mu s := by
  obtain ⟨hrep, hcap, hph, haw, hex, hfin, hdel⟩ := h
  cases l with
  | enq i =>
    simp only [step] at hs
    split at hs
    · simp at hs
    · rename_i w hw
      have hsum := sum_eraseIdx wWant s.clients i w hw
      cases w <;> simp only at hs <;> (repeat' split at hs) <;>
        first
          | (simp at hs; done)
          | (simp only [Option.some.injEq] at hs; subst hs
             simp only [mu, List.map_append, List.sum_append, List.map_cons, List.map_nil, List.sum_cons, List.sum_nil, wWant, wT, wS] at hsum ⊢
             omega)
  | tTake =>
    simp only [step] at hs
    (repeat' split at hs) <;>
      first
        | (simp at hs; done)
        | (simp only [Option.some.injEq] at hs; subst hs
           simp_all [mu, wT, wHelper] <;> first | omega | (split <;> omega))
  | tPostDone =>
    simp only [step] at hs
    (repeat' split at hs) <;>
      first
        | (simp at hs; done)
        | (simp only [Option.some.injEq] at hs; subst hs
           simp_all [mu, wS]
           try omega)
  | sTake =>
    simp only [step] at hs
    (repeat' split at hs) <;>
      first
        | (simp at hs; done)
        | (simp only [Option.some.injEq] at hs; subst hs
           simp_all [mu, wS, wHelper]
           try omega)
  | sSendRemove =>
    simp only [step] at hs
    split at hs
    · rename_i hc
      rcases hph with h | h <;> simp [h] at hc
    · simp at hs
  | hSendRemove =>
    simp only [step] at hs
    split at hs
    · rename_i hc
      simp only [Option.some.injEq] at hs; subst hs
      simp [mu, wT, wHelper, hc.1]
      omega
    · simp at hs
  | hSendFinish =>
    simp only [step] at hs
    split at hs
    · rename_i hc
      simp only [Option.some.injEq] at hs; subst hs
      simp [mu, wS, wHelper, hc.1]
      omega
    · simp at hs

/-! ### Non-vacuity: the repaired protocol runs the deadlock scenario to completion -/
def done1 : State :=
  { cap := 1, repaired := true, clients := [], mbT := [], mbS := [], publishing := false,
    attached := false, deleted := true, sPhase := .exited, helper := .none }

example :
    run (init 1 true [.delete, .otherS, .publish])
      [.enq 0, .sTake, .enq 0, .enq 0, .tTake, .sTake, .tPostDone, .sTake, .hSendRemove, .tTake, .hSendFinish, .sTake] = some done1 ∧
      ¬ Pending done1 := by
  refine ⟨by decide, ?_⟩
  unfold Pending
  decide

/-! ### C07 at system level: which requests may take virtual time, and how much -/

/-- Every request other than Pull is answered at the virtual instant it was issued: none of the
    handlers waits for a timer (in the sequential model every step of a handler is enabled at once). -/
theorem C07_zero_time (sys : Sys) (r : Req) (hr : ∀ raw mx ri, r ≠ .pull raw mx ri) : (sys.rpc r).1.clock = sys.clock := by
  cases r with
  | pull raw mx ri => exact absurd rfl (hr raw mx ri)
  | createTopic raw => simp only [Sys.rpc]; (repeat' split) <;> rfl
  | getTopic raw => simp only [Sys.rpc]; (repeat' split) <;> rfl
  | deleteTopic raw => simp only [Sys.rpc]; (repeat' split) <;> rfl
  | listTopics p sz t => simp only [Sys.rpc]; (repeat' split) <;> rfl
  | listTopicSubs raw sz t => simp only [Sys.rpc]; (repeat' split) <;> rfl
  | createSub n t a p => simp only [Sys.rpc]; (repeat' split) <;> rfl
  | getSub raw => simp only [Sys.rpc]; (repeat' split) <;> simp
  | listSubs p sz t => simp only [Sys.rpc]; (repeat' split) <;> simp
  | deleteSub raw => simp only [Sys.rpc]; (repeat' split) <;> rfl
  | publish raw m => simp only [Sys.rpc]; (repeat' split) <;> simp
  | ack raw ids => simp only [Sys.rpc]; (repeat' split) <;> simp
  | modAck raw secs ids => simp only [Sys.rpc]; (repeat' split) <;> simp
  | unimplemented => rfl

/-- A Pull — blocking or not, whatever else is leased, expires or is queued meanwhile — is answered
    no later than its server-side wait limit: 300 s after it was issued, on the timer's millisecond
    grid (`ceilMs`, plus the sub-millisecond phase the paused clock keeps). -/
theorem C07_pull_limit (sys : Sys) (raw : Bytes) (mx : Int) (ri : Bool) :
    (sys.rpc (.pull raw mx ri)).1.clock ≤ ceilMs (sys.clock + pullLimitUs) + sys.clock % 1000 := by
  have hc : sys.clock ≤ ceilMs (sys.clock + pullLimitUs) + sys.clock % 1000 := by
    have : sys.clock + pullLimitUs ≤ ceilMs (sys.clock + pullLimitUs) := by unfold ceilMs; omega
    omega
  simp only [Sys.rpc]
  split
  · exact hc
  · split
    · exact hc
    · split
      · simp only [clock_drainSub, clock_subTurn]; exact hc
      · split
        · simp only [clock_subTurn]; exact hc
        · split
          · split
            · rename_i t _ hlt
              simp only [clock_subTurn]
              refine Nat.le_trans (advanceTo_clock_le _ _ _ _) ?_
              simp only [clock_subTurn]
              omega
            · refine Nat.le_trans (advanceTo_clock_le _ _ _ _) ?_
              simp only [clock_subTurn]
              omega
          · refine Nat.le_trans (advanceTo_clock_le _ _ _ _) ?_
            simp only [clock_subTurn]
            omega

/-! non-vacuity: a blocking Pull on an empty subscription waits exactly until the limit -/
example : ((exSys.rpc (.pull exS1 1 false)).1.clock, (exSys.rpc (.pull exS1 1 false)).2) = (300000000, .msgs []) := by decide

end Deltio
