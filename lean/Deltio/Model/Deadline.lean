import Deltio.Model.Base
/-
  `AckDeadline::new` (pulled_message.rs), `parse_deadline_extension_duration` (api/parser.rs),
  ack-deadline clamp at creation (api/subscriber.rs), pull capacity (subscription_actor.rs),
  accepted push statuses (push_loop.rs), `AckId::parse` (ack_id.rs).
  Time is `Nat` microseconds since the process-wide `EPOCH`.
-/
namespace Deltio

/-- `AckDeadline::new`: `t + t % 100_000` microseconds (sic). -/
def roundDeadline (t : Nat) : Nat := t + t % 100000

inductive Ext where
  | error
  | nack
  | secs (n : Nat)
deriving Repr, DecidableEq

/-- `parse_deadline_extension_duration` -/
def parseExtension (n : Int) : Ext :=
  if n < 0 then .error
  else if n ≥ 600 then .secs 600
  else if n = 0 then .nack
  else .secs n.toNat

/-- `ack_deadline_seconds` clamp in `create_subscription` (seconds). -/
def effAckDeadlineSecs (v : Int) : Nat := if v ≤ 10 then 10 else v.toNat

/-- `max_count.clamp(0, outgoing_len.max(MAX_PULL_COUNT))` with `outgoing_len = backlog.len() as u16`. -/
def pullCapacity (max16 backlogLen : Nat) : Nat := min max16 (max (usizeAsU16 backlogLen) 1000)

/-- Number of messages one `pull_messages` turn hands out: the loop pushes first and tests
    `result.len() >= capacity` afterwards, so capacity 0 still hands out one message. -/
def pullCount (max16 backlogLen : Nat) : Nat := min backlogLen (max (pullCapacity max16 backlogLen) 1)

/-- `matches!(status, 102 | 200 | 201 | 202 | 204)` -/
def pushAccepts (st : Nat) : Bool := st == 102 || st == 200 || st == 201 || st == 202 || st == 204

/-- tokio's timer wheel has 1 ms resolution and rounds deadlines up. -/
def ceilMs (t : Nat) : Nat := (t + 999) / 1000 * 1000

/-- `str::parse::<u64>()`: optional '+', then one or more ASCII digits, value < 2^64. -/
def parseDigits : Bytes → Nat → Option Nat
  | [], acc => some acc
  | c :: rest, acc =>
    if 48 ≤ c.toNat ∧ c.toNat ≤ 57 then parseDigits rest (acc * 10 + (c.toNat - 48)) else none

def parseU64 (s : Bytes) : Option Nat :=
  let ds := match s with
    | 43 :: rest => rest
    | _ => s
  if ds.isEmpty then none
  else match parseDigits ds 0 with
    | some v => if v < 18446744073709551616 then some v else none
    | none => none

/-- `AckId::parse` -/
def parseAckId : Bytes → Option Nat := parseU64

end Deltio
