import Deltio.Model.Base64
/-
  `src/paging/mod.rs`, `parser::parse_paging`, and the skip/take of the three list operations.
-/
namespace Deltio

structure Paging where
  size : Nat
  offset : Option Nat
deriving Repr, DecidableEq

/-- `Paging::new` -/
def Paging.new (sz : Nat) (off : Option Nat) : Paging :=
  { size := if sz = 0 then 20 else if sz > 1000 then 1000 else sz, offset := off }

/-- `Paging::size` -/
def Paging.effSize (p : Paging) : Nat := min p.size 10000

/-- `Paging::to_skip` -/
def Paging.toSkip (p : Paging) : Nat := p.offset.getD 0

/-- `.skip(paging.to_skip()).take(paging.size())` -/
def Paging.page {α} (p : Paging) (xs : List α) : List α := (xs.drop p.toSkip).take p.effSize

/-- `next_page_from_slice_result(..).offset()` -/
def Paging.nextOffset (p : Paging) (resultLen : Nat) : Option Nat :=
  if resultLen ≠ 0 then some (p.toSkip + resultLen) else none

/-- `parser::parse_paging`: `none` = INVALID_ARGUMENT. The token is checked first, then the size. -/
def parsePaging (size : Int) (token : List Nat) : Option Paging :=
  let tok : Option (Option Nat) :=
    if token.isEmpty then some none
    else match decodeToken token with
      | some n => some (some n)
      | none => none
  match tok with
  | none => none
  | some off =>
    match i32TryUsize size with
    | none => none
    | some sz => some (Paging.new sz off)

/-- `next_page_token` of a list response. -/
def nextToken (p : Paging) (resultLen : Nat) : List Nat :=
  match p.nextOffset resultLen with
  | some n => encodeToken n
  | none => []

/-- Follow `next_page_token` from the first page until it is empty. Returns the pages. -/
def walk {α} (xs : List α) (size : Nat) : Nat → Option Nat → List (List α)
  | 0, _ => []
  | fuel + 1, off =>
    let p := Paging.new size off
    let pg := p.page xs
    match p.nextOffset pg.length with
    | none => [pg]
    | some o => pg :: walk xs size fuel (some o)

end Deltio
