import Deltio.Model.Tracker
/-
  `SubscriptionActor` (src/subscriptions/subscription_actor.rs): one `turn` per mailbox message or
  expiry. A turn is atomic (the handlers are synchronous; `Delete` is split at its only await).
-/
namespace Deltio

structure SubState where
  ackDl : Nat                  -- ack deadline in µs
  backlog : List Msg
  out : Tracker
  nextAck : Nat
  deleted : Bool
deriving Repr, DecidableEq

def SubState.init (ackDlUs : Nat) : SubState :=
  { ackDl := ackDlUs, backlog := [], out := Tracker.empty, nextAck := 1, deleted := false }

inductive SubTurn where
  | post (ms : List Msg)
  | pull (max16 : Nat) (now : Nat)
  | ack (ids : List Nat)
  | modify (mods : List (Nat × Option Nat))
  | expire (now : Nat)
  | deleteBegin
  | deleteEnd
  | getStats
  | getInfo
deriving Repr

structure SubOut where
  delivered : List Deliv := []   -- pull result
  requeued : List Deliv := []    -- nacked / expired deliveries put back
  notified : Bool := false       -- `notify_new_messages_available` called
  ub : Bool := false             -- the Rust would have hit `unwrap_unchecked(None)`
deriving Repr

/-- The `while let Some(m) = backlog.pop_front()` loop of `pull_messages`. -/
def pullLoop (cap dl : Nat) : List Msg → Nat → Tracker → List Deliv → List Msg × Nat × Tracker × List Deliv
  | [], na, out, res => ([], na, out, res)
  | m :: rest, na, out, res =>
    let d : Deliv := { ack := na, msg := m, deadline := dl }
    let res' := res ++ [d]
    let out' := out.add d
    if res'.length ≥ cap then (rest, na + 1, out', res')
    else pullLoop cap dl rest (na + 1) out' res'

def SubState.turn (s : SubState) : SubTurn → SubState × SubOut
  | .post ms =>
    if s.deleted then (s, {})
    else ({ s with backlog := s.backlog ++ ms }, { notified := true })
  | .pull max16 now =>
    if s.deleted then (s, {})
    else
      let cap := pullCapacity max16 s.backlog.length
      let dl := roundDeadline (now + s.ackDl)
      let (bl, na, out, res) := pullLoop cap dl s.backlog s.nextAck s.out []
      ({ s with backlog := bl, nextAck := na, out := out },
       { delivered := res, notified := !bl.isEmpty })
  | .ack ids =>
    if s.deleted then (s, {})
    else ({ s with out := (s.out.remove ids).1 }, {})
  | .modify mods =>
    if s.deleted then (s, {})
    else
      let (out, nacks) := s.out.modify mods
      let bl := s.backlog ++ nacks.map (·.msg)
      ({ s with out := out, backlog := bl }, { requeued := nacks, notified := !bl.isEmpty })
  | .expire now =>
    match s.out.takeExpired now with
    | none => (s, { ub := true })
    | some (out, expired) =>
      if expired.isEmpty then (s, {})
      else
        let bl := s.backlog ++ expired.map (·.msg)
        ({ s with out := out, backlog := bl }, { requeued := expired, notified := !bl.isEmpty })
  | .deleteBegin => ({ s with deleted := true }, {})
  | .deleteEnd => ({ s with out := s.out.clear, backlog := [] }, {})
  | .getStats => (s, {})
  | .getInfo => (s, {})

/-- Run a list of turns, collecting outputs. -/
def SubState.run (s : SubState) : List SubTurn → SubState × List SubOut
  | [] => (s, [])
  | t :: ts =>
    let (s', o) := s.turn t
    let (s'', os) := s'.run ts
    (s'', o :: os)

/-! ### the push dispatcher (`push_loop.rs: dispatch_message`) -/

/-- What the endpoint did with one POST. -/
inductive Outcome where
  | status (code : Nat)     -- an HTTP status arrived
  | connError               -- connection refused / reset / closed without an answer
  | pending                 -- no answer (yet)
deriving DecidableEq, Repr

/-- The turn the dispatcher issues for a delivery with ack id `a`: ack on an accepted status, nack on
    any other status or a connection error, nothing while the request is unanswered. -/
def dispatchTurn (a : Nat) : Outcome → Option SubTurn
  | .status c => if pushAccepts c then some (.ack [a]) else some (.modify [(a, none)])
  | .connError => some (.modify [(a, none)])
  | .pending => none

end Deltio
