import Deltio.Model.Base
/-
  base64 STANDARD alphabet, canonical padding, as used by `PageToken` (api/page_token.rs) and by
  the push payload (push/push_loop.rs). Bytes and characters are `Nat` codes here (< 256) so
  that `omega` applies; the driver converts from/to `UInt8`.
-/
namespace Deltio

def b64Char (n : Nat) : Nat :=
  if n < 26 then 65 + n
  else if n < 52 then 97 + (n - 26)
  else if n < 62 then 48 + (n - 52)
  else if n = 62 then 43
  else 47

def b64Val (c : Nat) : Option Nat :=
  if 65 ≤ c ∧ c ≤ 90 then some (c - 65)
  else if 97 ≤ c ∧ c ≤ 122 then some (c - 97 + 26)
  else if 48 ≤ c ∧ c ≤ 57 then some (c - 48 + 52)
  else if c = 43 then some 62
  else if c = 47 then some 63
  else none

/-- '=' -/
def b64Pad : Nat := 61

def b64Encode : List Nat → List Nat
  | [] => []
  | [a] => [b64Char (a / 4), b64Char ((a % 4) * 16), b64Pad, b64Pad]
  | [a, b] => [b64Char (a / 4), b64Char ((a % 4) * 16 + b / 16), b64Char ((b % 16) * 4), b64Pad]
  | a :: b :: c :: rest =>
      b64Char (a / 4) :: b64Char ((a % 4) * 16 + b / 16) :: b64Char ((b % 16) * 4 + c / 64)
        :: b64Char (c % 64) :: b64Encode rest

/-- Strict decoder: length a multiple of 4, padding only in the last quad and canonical, no
    non-zero trailing bits (the `base64` crate's `STANDARD` engine). -/
def b64Decode : List Nat → Option (List Nat)
  | [] => some []
  | [a, b, c, d] =>
      match b64Val a, b64Val b with
      | some va, some vb =>
        if c = b64Pad ∧ d = b64Pad then
          if vb % 16 = 0 then some [va * 4 + vb / 16] else none
        else match b64Val c with
          | none => none
          | some vc =>
            if d = b64Pad then
              if vc % 4 = 0 then some [va * 4 + vb / 16, (vb % 16) * 16 + vc / 4] else none
            else match b64Val d with
              | none => none
              | some vd => some [va * 4 + vb / 16, (vb % 16) * 16 + vc / 4, (vc % 4) * 64 + vd]
      | _, _ => none
  | a :: b :: c :: d :: rest =>
      match b64Val a, b64Val b, b64Val c, b64Val d, b64Decode rest with
      | some va, some vb, some vc, some vd, some tl =>
          some ((va * 4 + vb / 16) :: ((vb % 16) * 16 + vc / 4) :: ((vc % 4) * 64 + vd) :: tl)
      | _, _, _, _, _ => none
  | _ => none

/-- `usize::to_ne_bytes` on a little-endian 64-bit target. -/
def leBytes8 (n : Nat) : List Nat :=
  [n % 256, n / 256 % 256, n / 65536 % 256, n / 16777216 % 256, n / 4294967296 % 256,
   n / 1099511627776 % 256, n / 281474976710656 % 256, n / 72057594037927936 % 256]

def ofLeBytes8 : List Nat → Option Nat
  | [b0, b1, b2, b3, b4, b5, b6, b7] =>
      some (b0 + 256 * b1 + 65536 * b2 + 16777216 * b3 + 4294967296 * b4 + 1099511627776 * b5
        + 281474976710656 * b6 + 72057594037927936 * b7)
  | _ => none

/-- `PageToken::encode` -/
def encodeToken (n : Nat) : List Nat := b64Encode (leBytes8 n)

/-- `PageToken::try_decode` -/
def decodeToken (s : List Nat) : Option Nat :=
  match b64Decode s with
  | some bs => ofLeBytes8 bs
  | none => none

end Deltio
