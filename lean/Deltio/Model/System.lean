import Deltio.Model.SubActor
import Deltio.Model.Names
import Deltio.Model.Paging
/-
  L1 composition: managers, topic actors, subscription actors, the gRPC handlers of
  `api/publisher.rs` and `api/subscriber.rs` (field validation order, status mapping, resource
  mapping) as a function of *sequential* histories: each request runs to completion before the
  next one is issued; virtual time advances only through `advance` (and inside a blocking Pull).
  Every effect on a subscription's state goes through `SubState.turn`.
-/
namespace Deltio

inductive Status where
  | ok | cancelled | invalidArgument | notFound | alreadyExists | failedPrecondition
  | internal | unimplemented
deriving DecidableEq, Repr

structure PushCfg where
  endpoint : Bytes
  attrs : List (Bytes × Bytes)
  oidc : Option (Bytes × Bytes)      -- (audience, service account email)
deriving DecidableEq, Repr

/-- `TopicActor` state that is observable: attached subscriptions and the message counter. -/
structure TopicEnt where
  tid : Nat
  name : Name
  subs : List (Name × Nat)           -- attached: (subscription name, subscription internal id)
  nextMsg : Nat
deriving Repr, DecidableEq

structure SubEnt where
  sid : Nat
  name : Name
  topicId : Nat
  ackSecs : Nat
  push : Option PushCfg
  st : SubState
deriving Repr, DecidableEq

inductive StreamItem where
  | msgs (ds : List Deliv)
  | done (s : Status)
deriving Repr, DecidableEq

/-- An open StreamingPull (sequential mode: its pull loop is parked whenever the backlog is empty). -/
structure Stream where
  k : Nat
  sid : Nat
  max16 : Nat
  outbox : List StreamItem
  ended : Bool
  reqOpen : Bool := true       -- the client has not closed the request half
deriving Repr, DecidableEq

structure Sys where
  topics : List TopicEnt := []
  nextTopic : Nat := 1
  subs : List SubEnt := []
  nextSub : Nat := 1
  registry : List (Name × PushCfg) := []
  streams : List Stream := []
  clock : Nat := 0
  pubSeq : Nat := 0
deriving Repr, DecidableEq

def Sys.init : Sys := {}

/-- `MessageId::new(topic_internal_id, n)` = `(tid << 32) | n` for `n < 2^32`. -/
def mkId (tid ctr : Nat) : Nat := tid * 4294967296 + ctr

def Sys.findTopic (sys : Sys) (n : Name) : Option TopicEnt := sys.topics.find? (·.name == n)
def Sys.findTopicById (sys : Sys) (tid : Nat) : Option TopicEnt := sys.topics.find? (·.tid == tid)
def Sys.findSub (sys : Sys) (n : Name) : Option SubEnt := sys.subs.find? (·.name == n)
def Sys.findSubById (sys : Sys) (sid : Nat) : Option SubEnt := sys.subs.find? (·.sid == sid)

def Sys.setSubState (sys : Sys) (sid : Nat) (st : SubState) : Sys :=
  { sys with subs := sys.subs.map (fun e => if e.sid == sid then { e with st := st } else e) }

/-- One mailbox turn of subscription actor `sid` at the current clock. After every handled
    message the actor loop re-creates `poll_next_expired`, which first takes whatever has
    expired by now — hence the trailing `expire` turn. -/
def Sys.subTurn (sys : Sys) (sid : Nat) (t : SubTurn) : Sys × SubOut :=
  match sys.findSubById sid with
  | none => (sys, {})
  | some e =>
    let (st1, o) := e.st.turn t
    let (st2, _) := st1.turn (.expire sys.clock)
    (sys.setSubState sid st2, o)

/-- The timer-driven expiry turn of subscription actor `sid` at the current clock. -/
def Sys.subExpire (sys : Sys) (sid : Nat) : Sys :=
  match sys.findSubById sid with
  | none => sys
  | some e => sys.setSubState sid (e.st.turn (.expire sys.clock)).1

/-- The pull loop of open stream `k` on subscription `sid`: pull until the backlog is empty, one
    response per non-empty pull. `fuel` bounds the number of pulls (each takes at least one message). -/
def drainStream (k sid : Nat) : Nat → Sys → Sys
  | 0, sys => sys
  | fuel + 1, sys =>
    match sys.streams.find? (·.k == k) with
    | none => sys
    | some s =>
      if s.ended || s.sid != sid then sys
      else match sys.findSubById sid with
        | none => sys
        | some e =>
          if e.st.backlog.isEmpty then sys
          else
            let (sys1, o) := sys.subTurn sid (.pull s.max16 sys.clock)
            let sys2 := { sys1 with streams := sys1.streams.map (fun x =>
              if x.k == k then { x with outbox := x.outbox ++ [.msgs o.delivered] } else x) }
            drainStream k sid fuel sys2

def Sys.backlogNonEmpty (sys : Sys) (sid : Nat) : Bool :=
  match sys.findSubById sid with
  | none => false
  | some e => !e.st.backlog.isEmpty

def Sys.subLoad (sys : Sys) (sid : Nat) : Nat :=
  match sys.findSubById sid with
  | none => 0
  | some e => e.st.backlog.length + e.st.out.msgs.length + 1

/-- Let every open stream on subscription `sid` drain it. -/
def Sys.drainSub (sys : Sys) (sid : Nat) : Sys :=
  (sys.streams.filter (fun s => s.sid == sid && !s.ended)).foldl
    (fun acc s => drainStream s.k sid (acc.subLoad sid) acc) sys

/-- One mailbox request to subscription actor `sid`, as its consumers see it: the turn, the
    loop's expiry re-check, and — when that leaves messages queued — the parked StreamingPull
    loops drain them. -/
def Sys.subReq (sys : Sys) (sid : Nat) (t : SubTurn) : Sys × SubOut :=
  let (s1, o) := sys.subTurn sid t
  (s1.drainSub sid, o)

/-- A read-only request (`GetInfo`, `GetStats`) is still a mailbox turn: afterwards the loop takes
    whatever has expired by now (the deadline may have passed without the millisecond-granular
    timer having fired yet). -/
def Sys.touch (sys : Sys) (sid : Nat) : Sys := (sys.subExpire sid).drainSub sid

def Sys.touchAll (sys : Sys) : List Nat → Sys
  | [] => sys
  | sid :: rest => (sys.touch sid).touchAll rest

/-- The earliest armed expiry timer: minimal `(tick, sid)`. -/
def Sys.nextTimer (sys : Sys) : Option (Nat × Nat) :=
  sys.subs.foldl (fun best e =>
    match e.st.out.nextExpiration with
    | none => best
    | some d =>
      let t := ceilMs d
      match best with
      | none => some (t, e.sid)
      | some (bt, _) => if t < bt then some (t, e.sid) else best) none

/-- Process expiry timers in time order up to `target`. A timer for deadline `d` has tick
    `ceilMs d`; when the paused clock auto-advances to it the clock's sub-millisecond fraction
    `frac` is preserved, so it fires at `ceilMs d + frac`. Stream consumers react at that instant.
    Finally the clock is set to `target`. -/
def Sys.advanceTo (frac : Nat) : Nat → Nat → Sys → Sys
  | 0, target, sys => { sys with clock := max sys.clock target }
  | fuel + 1, target, sys =>
    match sys.nextTimer with
    | some (t, sid) =>
      if t + frac ≤ target then
        let sys1 := { sys with clock := max sys.clock (t + frac) }
        let sys2 := (sys1.subExpire sid).drainSub sid
        Sys.advanceTo frac fuel target sys2
      else { sys with clock := max sys.clock target }
    | none => { sys with clock := max sys.clock target }

/-! ### resources -/

structure SubRes where
  name : Bytes
  topic : Bytes
  ackSecs : Nat
  push : Option PushCfg
deriving Repr, DecidableEq

def Sys.subRes (sys : Sys) (e : SubEnt) : SubRes :=
  { name := displaySub e.name
    topic := match sys.findTopicById e.topicId with
      | some t => displayTopic t.name
      | none => deletedTopicStr
    ackSecs := e.ackSecs
    push := e.push }

inductive Resp where
  | err (s : Status)
  | empty
  | topic (name : Bytes)
  | names (ns : List Bytes) (next : List Nat)
  | sub (r : SubRes)
  | subs (rs : List SubRes) (next : List Nat)
  | ids (ids : List Nat)
  | msgs (ds : List Deliv)
deriving Repr, DecidableEq

/-! ### field parsing (api/parser.rs) -/

def asciiWs (b : UInt8) : Bool := b == 32 || (9 ≤ b.toNat && b.toNat ≤ 13)

/-- `str::trim` restricted to ASCII white space (see DESIGN §6). -/
def trimWs (s : Bytes) : Bytes := ((s.dropWhile asciiWs).reverse.dropWhile asciiWs).reverse

/-- `parse_push_config` -/
def parsePushCfg (p : PushCfg) : Option PushCfg :=
  let ep := trimWs p.endpoint
  if httpPrefix.isPrefixOf ep then some { p with endpoint := ep } else none

/-- `ids.iter().map(parse_ack_id).collect::<Result<Vec<_>,_>>()` -/
def parseAckIds : List Bytes → Option (List Nat)
  | [] => some []
  | b :: rest =>
    match parseAckId b, parseAckIds rest with
    | some a, some as => some (a :: as)
    | _, _ => none

/-- `parse_deadline_modifications`: zip, per element first the ack id, then the seconds. -/
def parseMods (now : Nat) : List Bytes → List Int → Option (List (Nat × Option Nat))
  | b :: bs, n :: ns =>
    match parseAckId b with
    | none => none
    | some a =>
      match parseExtension n with
      | .error => none
      | .nack => (parseMods now bs ns).map ((a, none) :: ·)
      | .secs k => (parseMods now bs ns).map ((a, some (roundDeadline (now + k * 1000000))) :: ·)
  | _, _ => some []

def bytesToNats (b : Bytes) : List Nat := b.map (·.toNat)

/-! ### requests -/

inductive Req where
  | createTopic (name : Bytes)
  | getTopic (name : Bytes)
  | deleteTopic (name : Bytes)
  | listTopics (project : Bytes) (size : Int) (token : Bytes)
  | listTopicSubs (topic : Bytes) (size : Int) (token : Bytes)
  | createSub (name topic : Bytes) (ackSecs : Int) (push : Option PushCfg)
  | getSub (name : Bytes)
  | listSubs (project : Bytes) (size : Int) (token : Bytes)
  | deleteSub (name : Bytes)
  | publish (topic : Bytes) (msgs : List (Bytes × List (Bytes × Bytes)))
  | pull (sub : Bytes) (max : Int) (returnImmediately : Bool)
  | ack (sub : Bytes) (ids : List Bytes)
  | modAck (sub : Bytes) (secs : Int) (ids : List Bytes)
  | unimplemented
deriving Repr

def pullLimitUs : Nat := 300000000

/-- Fan-out of one publish turn: a `Post` turn on every attached subscription. -/
def Sys.postAll (sys : Sys) (ms : List Msg) : List (Name × Nat) → Sys
  | [] => sys
  | (_, sid) :: rest => (((sys.subTurn sid (.post ms)).1).drainSub sid).postAll ms rest

def mkMsgs (tid base pubTime : Nat) : List (Bytes × List (Bytes × Bytes)) → Nat → List Msg
  | [], _ => []
  | (d, a) :: rest, i =>
    { id := mkId tid (base + i + 1), data := d, attrs := a, pubTime := pubTime } :: mkMsgs tid base pubTime rest (i + 1)

def Sys.listPage {α} (xs : List α) (p : Paging) : List α × List Nat :=
  let pg := p.page xs
  (pg, nextToken p pg.length)

/-- The handlers, in source order of their checks. -/
def Sys.rpc (sys : Sys) : Req → Sys × Resp
  | .createTopic raw =>
    match parseTopicName raw with
    | none => (sys, .err .invalidArgument)
    | some n =>
      match sys.findTopic n with
      | some _ => (sys, .err .alreadyExists)
      | none =>
        let tid := sys.nextTopic + 1
        ({ sys with nextTopic := tid, topics := sys.topics ++ [{ tid := tid, name := n, subs := [], nextMsg := 0 }] },
         .topic (displayTopic n))
  | .getTopic raw =>
    match parseTopicName raw with
    | none => (sys, .err .invalidArgument)
    | some n =>
      match sys.findTopic n with
      | none => (sys, .err .notFound)
      | some t => (sys, .topic (displayTopic t.name))
  | .deleteTopic raw =>
    match parseTopicName raw with
    | none => (sys, .err .invalidArgument)
    | some n =>
      match sys.findTopic n with
      | none => (sys, .err .notFound)
      | some t => ({ sys with topics := sys.topics.filter (·.tid != t.tid) }, .empty)
  | .listTopics project size token =>
    match parsePaging size (bytesToNats token) with
    | none => (sys, .err .invalidArgument)
    | some p =>
      match parseProject project with
      | none => (sys, .err .invalidArgument)
      | some proj =>
        let all := (sys.topics.filter (fun t => t.name.1 == proj)).map (fun t => displayTopic t.name)
        let (pg, next) := Sys.listPage all p
        (sys, .names pg next)
  | .listTopicSubs raw size token =>
    match parseTopicName raw with
    | none => (sys, .err .invalidArgument)
    | some n =>
      match parsePaging size (bytesToNats token) with
      | none => (sys, .err .invalidArgument)
      | some p =>
        match sys.findTopic n with
        | none => (sys, .err .notFound)
        | some t =>
          let (pg, next) := Sys.listPage (t.subs.map (fun s => displaySub s.1)) p
          (sys, .names pg next)
  | .createSub rawName rawTopic ackSecs push =>
    match parseTopicName rawTopic with
    | none => (sys, .err .invalidArgument)
    | some tn =>
      match parseSubName rawName with
      | none => (sys, .err .invalidArgument)
      | some sn =>
        let secs := effAckDeadlineSecs ackSecs
        let pushParsed : Option (Option PushCfg) := match push with
          | none => some none
          | some p => (parsePushCfg p).map some
        match pushParsed with
        | none => (sys, .err .invalidArgument)
        | some pc =>
          match sys.findTopic tn with
          | none => (sys, .err .notFound)
          | some t =>
            if t.name.1 != sn.1 then (sys, .err .invalidArgument)
            else match sys.findSub sn with
              | some _ => (sys, .err .alreadyExists)
              | none =>
                let sid := sys.nextSub + 1
                let e : SubEnt := { sid := sid, name := sn, topicId := t.tid, ackSecs := secs, push := pc,
                                    st := SubState.init (secs * 1000000) }
                let reg := match pc with
                  | some c => if (alookup sn sys.registry).isSome then sys.registry else sys.registry ++ [(sn, c)]
                  | none => sys.registry
                let topics := sys.topics.map (fun x =>
                  if x.tid == t.tid then
                    (if (alookup sn x.subs).isSome then x else { x with subs := x.subs ++ [(sn, sid)] })
                  else x)
                let sys' := { sys with nextSub := sid, subs := sys.subs ++ [e], registry := reg, topics := topics }
                (sys', .sub (sys'.subRes e))
  | .getSub raw =>
    match parseSubName raw with
    | none => (sys, .err .invalidArgument)
    | some n =>
      match sys.findSub n with
      | none => (sys, .err .notFound)
      | some e => (sys.touch e.sid, .sub (sys.subRes e))
  | .listSubs project size token =>
    match parsePaging size (bytesToNats token) with
    | none => (sys, .err .invalidArgument)
    | some p =>
      match parseProject project with
      | none => (sys, .err .invalidArgument)
      | some proj =>
        let all := sys.subs.filter (fun e => e.name.1 == proj)
        let (pg, next) := Sys.listPage all p
        -- `get_info` on every subscription of the page
        (sys.touchAll (pg.map (·.sid)), .subs (pg.map sys.subRes) next)
  | .deleteSub raw =>
    match parseSubName raw with
    | none => (sys, .err .invalidArgument)
    | some n =>
      match sys.findSub n with
      | none => (sys, .err .notFound)
      | some e =>
        -- Delete turn: deleted := true; topic.remove_subscription (if the topic is alive);
        -- manager entry removed; consumers released; state cleared; registry entry removed.
        let topics := sys.topics.map (fun x =>
          if x.tid == e.topicId then { x with subs := aerase n x.subs } else x)
        let streams := sys.streams.map (fun s =>
          if s.sid == e.sid && !s.ended then { s with outbox := s.outbox ++ [.done .notFound], ended := true } else s)
        ({ sys with topics := topics, subs := sys.subs.filter (·.sid != e.sid),
                    registry := aerase n sys.registry, streams := streams }, .empty)
  | .publish raw msgs =>
    match parseTopicName raw with
    | none => (sys, .err .invalidArgument)
    | some n =>
      match sys.findTopic n with
      | none => (sys, .err .notFound)
      | some t =>
        let ms := mkMsgs t.tid t.nextMsg sys.pubSeq msgs 0
        let topics := sys.topics.map (fun x =>
          if x.tid == t.tid then { x with nextMsg := x.nextMsg + msgs.length } else x)
        let sys1 := { sys with topics := topics, pubSeq := sys.pubSeq + 1 }
        (sys1.postAll ms t.subs, .ids (ms.map (·.id)))
  | .pull raw max ri =>
    match parseSubName raw with
    | none => (sys, .err .invalidArgument)
    | some n =>
      match sys.findSub n with
      | none => (sys, .err .notFound)
      | some e =>
        let max16 := i32AsU16 max
        let (sys1, o) := sys.subTurn e.sid (.pull max16 sys.clock)
        if !o.delivered.isEmpty || ri then (sys1.drainSub e.sid, .msgs o.delivered)
        else if sys1.backlogNonEmpty e.sid then
          -- the loop's expiry re-check after the empty pull queued messages and signalled: the
          -- waiting pull is woken at once and pulls again
          let (sys3, o3) := sys1.subTurn e.sid (.pull max16 sys1.clock)
          (sys3, .msgs o3.delivered)
        else
          -- blocked: wait for this subscription's next expiry or for the 5 minute limit
          let frac := sys.clock % 1000
          let limit := ceilMs (sys.clock + pullLimitUs) + frac
          let wake : Option Nat := match sys1.findSubById e.sid with
            | none => none
            | some e1 => (e1.st.out.nextExpiration).map (fun d => ceilMs d + frac)
          match wake with
          | some t =>
            if t < limit then
              let sys2 := Sys.advanceTo frac 1000000 t sys1
              let (sys3, o3) := sys2.subTurn e.sid (.pull max16 sys2.clock)
              (sys3, .msgs o3.delivered)
            else (Sys.advanceTo frac 1000000 limit sys1, .msgs [])
          | none => (Sys.advanceTo frac 1000000 limit sys1, .msgs [])
  | .ack raw ids =>
    match parseAckIds ids with
    | none => (sys, .err .invalidArgument)
    | some as =>
      match parseSubName raw with
      | none => (sys, .err .invalidArgument)
      | some n =>
        match sys.findSub n with
        | none => (sys, .err .notFound)
        | some e => ((sys.subReq e.sid (.ack as)).1, .empty)
  | .modAck raw secs ids =>
    match parseMods sys.clock ids (ids.map (fun _ => secs)) with
    | none => (sys, .err .invalidArgument)
    | some mods =>
      match parseSubName raw with
      | none => (sys, .err .invalidArgument)
      | some n =>
        match sys.findSub n with
        | none => (sys, .err .notFound)
        | some e => (((sys.subTurn e.sid (.modify mods)).1).drainSub e.sid, .empty)
  | .unimplemented => (sys, .err .unimplemented)

/-! ### StreamingPull (sequential mode) -/

/-- Initial request. `maxMsgs` is the proto's `int64 max_outstanding_messages`. -/
def Sys.streamOpen (sys : Sys) (k : Nat) (rawSub : Bytes) (maxMsgs : Int) : Sys × Status :=
  match parseSubName rawSub with
  | none => (sys, .invalidArgument)
  | some n =>
    match sys.findSub n with
    | none => (sys, .notFound)
    | some e =>
      match i32TryU16 maxMsgs with
      | none => (sys, .invalidArgument)
      | some m16 =>
        let s : Stream := { k := k, sid := e.sid, max16 := m16, outbox := [], ended := false }
        let sys1 : Sys := { sys with streams := sys.streams.filter (fun x => x.k != k) ++ [s] }
        -- the pull loop starts with a pull, whatever the backlog: a mailbox turn (`Sys.subReq`)
        let (sys2, o) := sys1.subTurn e.sid (.pull m16 sys1.clock)
        let sys3 : Sys := if o.delivered.isEmpty then sys2 else
          { sys2 with streams := sys2.streams.map (fun x =>
              if x.k == k then { x with outbox := x.outbox ++ [.msgs o.delivered] } else x) }
        (sys3.drainSub e.sid, .ok)

structure StreamCtl where
  subscription : Bytes
  ackIds : List Bytes
  modIds : List Bytes
  modSecs : List Int
  maxMsgs : Int
  maxBytes : Int
deriving Repr

/-- `handle_streaming_pull_request`: `none` = accepted, `some st` = the stream ends with `st`. -/
def validateCtl (now : Nat) (c : StreamCtl) : Except Status (List Nat × List (Nat × Option Nat)) :=
  if !c.subscription.isEmpty then .error .invalidArgument
  else if c.maxBytes > 0 then .error .invalidArgument
  else if c.maxMsgs > 0 then .error .invalidArgument
  else if c.modSecs.length != c.modIds.length then .error .invalidArgument
  else match parseAckIds c.ackIds with
    | none => .error .invalidArgument
    | some as =>
      match parseMods now c.modIds c.modSecs with
      | none => .error .invalidArgument
      | some mods => .ok (as, mods)

def Sys.endStream (sys : Sys) (k : Nat) (st : Status) : Sys :=
  { sys with streams := sys.streams.map (fun s =>
      if s.k == k then { s with outbox := s.outbox ++ [.done st], ended := true } else s) }

def Sys.streamSend (sys : Sys) (k : Nat) (c : StreamCtl) : Sys :=
  match sys.streams.find? (·.k == k) with
  | none => sys
  | some s =>
    if s.ended then sys
    else match validateCtl sys.clock c with
      | .error st => sys.endStream k st
      | .ok (as, mods) =>
        -- two mailbox requests. (When the first one's expiry re-check queues messages, the
        -- stream's own pull loop races with the second request inside tokio's `merge`; the
        -- sequential generator flushes expiries first, so both orders coincide — DESIGN D.5.)
        let sys1 := if as.isEmpty then sys else (sys.subReq s.sid (.ack as)).1
        if mods.isEmpty then sys1 else (sys1.subReq s.sid (.modify mods)).1

/-- Read (and clear) what the stream has produced. -/
def Sys.streamRead (sys : Sys) (k : Nat) : Sys × Option (List StreamItem × Bool) :=
  match sys.streams.find? (·.k == k) with
  | none => (sys, none)
  | some s =>
    ({ sys with streams := sys.streams.map (fun x => if x.k == k then { x with outbox := [] } else x) },
     some (s.outbox, s.ended))

def Sys.streamCloseReq (sys : Sys) (k : Nat) : Sys :=
  { sys with streams := sys.streams.map (fun s => if s.k == k then { s with reqOpen := false } else s) }

def Sys.streamDrop (sys : Sys) (k : Nat) : Sys :=
  { sys with streams := sys.streams.filter (·.k != k) }

/-- `adv d`: move the clock forward by `d` µs. The harness first steps to the next whole
    millisecond (if `d` reaches it), so every timer is crossed with a zero fraction. -/
def Sys.advance (sys : Sys) (d : Nat) : Sys :=
  let target := sys.clock + d
  if target < ceilMs sys.clock then { sys with clock := target }
  else Sys.advanceTo 0 1000000 target { sys with clock := ceilMs sys.clock }

/-- The harness's `stats`: `get_stats` twice, the second answer — (outstanding, backlog, topic
    display) after the first one's mailbox turn has taken what had expired (see `Sys.touch`). -/
def Sys.stats (sys : Sys) (raw : Bytes) : Sys × Option (Nat × Nat × Bytes) :=
  match parseSubName raw with
  | none => (sys, none)
  | some n =>
    match sys.findSub n with
    | none => (sys, none)
    | some e =>
      let sys1 := sys.touch e.sid
      match sys1.findSubById e.sid with
      | none => (sys1, none)
      | some e1 =>
        (sys1, some (e1.st.out.len, e1.st.backlog.length,
          match sys.findTopicById e.topicId with
          | some t => displayTopic t.name
          | none => displayTopic deletedTopicName))

end Deltio
