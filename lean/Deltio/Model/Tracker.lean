import Deltio.Model.Deadline
/-
  `OutstandingMessageTracker` (src/subscriptions/outstanding.rs): a `HashMap<AckId, PulledMessage>`
  and a `BTreeSet<(AckDeadline, AckId)>`, modelled as two lists. The relation between the two
  (what makes the `unwrap_unchecked`s sound) is *not* built in: it is the theorem `C02_tracker_consistent`.
-/
namespace Deltio

structure Msg where
  id : Nat
  data : Bytes
  attrs : List (Bytes × Bytes)
  pubTime : Nat
deriving DecidableEq, Repr

structure Deliv where
  ack : Nat
  msg : Msg
  deadline : Nat
deriving DecidableEq, Repr

def Deliv.key (d : Deliv) : Nat × Nat := (d.deadline, d.ack)

/-- Lexicographic `<` on `(AckDeadline, AckId)`. -/
def keyLt (a b : Nat × Nat) : Bool := a.1 < b.1 || (a.1 == b.1 && a.2 < b.2)

/-- `BTreeSet::insert` on a strictly sorted list. -/
def insertKey (k : Nat × Nat) : List (Nat × Nat) → List (Nat × Nat)
  | [] => [k]
  | x :: xs =>
    if keyLt k x then k :: x :: xs
    else if k == x then x :: xs
    else x :: insertKey k xs

/-- `BTreeSet::remove`. -/
def eraseKey (k : Nat × Nat) (l : List (Nat × Nat)) : List (Nat × Nat) := l.filter (· != k)

structure Tracker where
  msgs : List Deliv
  exps : List (Nat × Nat)
deriving Repr, DecidableEq

def Tracker.empty : Tracker := { msgs := [], exps := [] }

def Tracker.lookup (t : Tracker) (a : Nat) : Option Deliv := t.msgs.find? (·.ack == a)

def Tracker.eraseMsg (msgs : List Deliv) (a : Nat) : List Deliv := msgs.filter (·.ack != a)

/-- `add`: `messages.insert(ack, m)` (replacing) and `expirations.insert(key)`. -/
def Tracker.add (t : Tracker) (d : Deliv) : Tracker :=
  { msgs := Tracker.eraseMsg t.msgs d.ack ++ [d], exps := insertKey d.key t.exps }

def Tracker.len (t : Tracker) : Nat := t.msgs.length

/-- `next_expiration` -/
def Tracker.nextExpiration (t : Tracker) : Option Nat := t.exps.head?.map (·.1)

/-- `remove`: returns the removed deliveries in request order. -/
def Tracker.remove (t : Tracker) : List Nat → Tracker × List Deliv
  | [] => (t, [])
  | a :: rest =>
    match t.lookup a with
    | some d =>
      let t' : Tracker := { msgs := Tracker.eraseMsg t.msgs a, exps := eraseKey d.key t.exps }
      let (t'', ds) := t'.remove rest
      (t'', d :: ds)
    | none => t.remove rest

/-- `modify`: returns the nacked deliveries in request order. -/
def Tracker.modify (t : Tracker) : List (Nat × Option Nat) → Tracker × List Deliv
  | [] => (t, [])
  | (a, nd) :: rest =>
    match t.lookup a with
    | some d =>
      let exps1 := eraseKey d.key t.exps
      match nd with
      | some dl =>
        let d' : Deliv := { d with deadline := dl }
        let t' : Tracker :=
          { msgs := t.msgs.map (fun x => if x.ack == a then d' else x), exps := insertKey d'.key exps1 }
        t'.modify rest
      | none =>
        let t' : Tracker := { msgs := Tracker.eraseMsg t.msgs a, exps := exps1 }
        let (t'', ds) := t'.modify rest
        (t'', d :: ds)
    | none => t.modify rest

/-- The loop of `take_expired`. `none` = the Rust would have executed `unwrap_unchecked` on
    `None` (undefined behaviour); proved unreachable under the tracker invariant. -/
def takeExpiredGo (now : Nat) : List (Nat × Nat) → List Deliv → List Deliv →
    Option (List (Nat × Nat) × List Deliv × List Deliv)
  | [], msgs, acc => some ([], msgs, acc)
  | (dl, a) :: rest, msgs, acc =>
    if now < dl then some ((dl, a) :: rest, msgs, acc)
    else match msgs.find? (·.ack == a) with
      | some d => takeExpiredGo now rest (Tracker.eraseMsg msgs a) (acc ++ [d])
      | none => none

def Tracker.takeExpired (t : Tracker) (now : Nat) : Option (Tracker × List Deliv) :=
  match takeExpiredGo now t.exps t.msgs [] with
  | some (exps, msgs, acc) => some ({ msgs := msgs, exps := exps }, acc)
  | none => none

def Tracker.clear (_ : Tracker) : Tracker := Tracker.empty

end Deltio
