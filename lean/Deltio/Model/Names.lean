import Deltio.Model.Base
/-
  Resource-name parsing: `src/topics/topic_name.rs`, `src/subscriptions/subscription_name.rs`,
  `parser::parse_project_id`.
-/
namespace Deltio

/-- A parsed name: (project id, resource id). -/
abbrev Name := Bytes × Bytes

/-- `TopicName::try_parse` / `SubscriptionName::try_parse` (after the `fix:` commit):
```
let rest = unparsed.strip_prefix("projects/")?;
let (project_id, rest) = rest.split_at(rest.find('/')?);
let id = rest.strip_prefix(MIDDLE)?.trim_matches('/');
``` -/
def parseName (middle : Bytes) (s : Bytes) : Option Name :=
  match stripPrefix projectsPrefix s with
  | none => none
  | some rest =>
    let proj := rest.takeWhile (· != slash)
    let after := rest.dropWhile (· != slash)
    if after.isEmpty then none
    else match stripPrefix middle after with
      | none => none
      | some r => some (proj, trimSlashes r)

def parseTopicName : Bytes → Option Name := parseName topicsMiddle
def parseSubName : Bytes → Option Name := parseName subsMiddle

/-- `Display` of a name. -/
def displayName (middle : Bytes) (n : Name) : Bytes :=
  projectsPrefix ++ n.1 ++ middle ++ n.2

def displayTopic : Name → Bytes := displayName topicsMiddle
def displaySub : Name → Bytes := displayName subsMiddle

/-- The parser as it was on the pinned tree (before the `fix:` commit); kept only for the
    witness theorems `C18_pinned_*` and for the failing-input search. -/
def parseNamePinned (middleLen : Nat) (s : Bytes) : Option Name :=
  if s.length ≤ 9 + middleLen + 2 then none
  else if !projectsPrefix.isPrefixOf s then none
  else
    let rest := s.drop 9
    let proj := rest.takeWhile (· != slash)
    if (rest.dropWhile (· != slash)).isEmpty then none
    else
      let start := 9 + proj.length + middleLen
      if start > s.length || !isBoundary s start then none
      else some (proj, trimSlashes (s.drop start))

/-- `parser::parse_project_id`: `"projects/"` followed by anything. -/
def parseProject (s : Bytes) : Option Bytes := stripPrefix projectsPrefix s

/-- `TopicName::deleted()` -/
def deletedTopicName : Name := ([], deletedTopicStr)

end Deltio
