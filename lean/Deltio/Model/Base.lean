/-
  Base definitions shared by all model files. Core Lean only (no Mathlib, no Batteries):
  the driver executable links against these files.
-/
namespace Deltio

/-- Rust `&str` / `String` contents as UTF-8 bytes. -/
abbrev Bytes := List UInt8

/-- ASCII '/' -/
def slash : UInt8 := 47

/-- `"projects/"` -/
def projectsPrefix : Bytes := [112, 114, 111, 106, 101, 99, 116, 115, 47]
/-- `"/topics/"` -/
def topicsMiddle : Bytes := [47, 116, 111, 112, 105, 99, 115, 47]
/-- `"/subscriptions/"` -/
def subsMiddle : Bytes := [47, 115, 117, 98, 115, 99, 114, 105, 112, 116, 105, 111, 110, 115, 47]
/-- `"_deleted_topic_"` -/
def deletedTopicStr : Bytes := [95, 100, 101, 108, 101, 116, 101, 100, 95, 116, 111, 112, 105, 99, 95]
/-- `"http"` -/
def httpPrefix : Bytes := [104, 116, 116, 112]

/-- UTF-8 continuation byte `10xxxxxx`. -/
def isContByte (b : UInt8) : Bool := (b &&& 0xC0) == 0x80

/-- `str::is_char_boundary` evaluated on the raw bytes. -/
def isBoundary (s : Bytes) (i : Nat) : Bool :=
  if i == 0 then true
  else if i == s.length then true
  else match s[i]? with
    | some b => !isContByte b
    | none => false

/-- `str::strip_prefix` for an ASCII prefix. -/
def stripPrefix (p s : Bytes) : Option Bytes :=
  if p.isPrefixOf s then some (s.drop p.length) else none

/-- `str::trim_matches('/')`. -/
def trimSlashes (s : Bytes) : Bytes :=
  ((s.dropWhile (· == slash)).reverse.dropWhile (· == slash)).reverse

/-! ### fixed-width integer conversions used by the API layer -/

/-- `x as u16` for an `i32` value (two's complement wrap). -/
def i32AsU16 (x : Int) : Nat := (x % 65536).toNat

/-- `usize as u16`. -/
def usizeAsU16 (x : Nat) : Nat := x % 65536

/-- `i32 -> u16` via `try_into`. -/
def i32TryU16 (x : Int) : Option Nat :=
  if 0 ≤ x ∧ x ≤ 65535 then some x.toNat else none

/-- `i32 -> usize` via `try_into`. -/
def i32TryUsize (x : Int) : Option Nat :=
  if 0 ≤ x then some x.toNat else none

def inI32 (x : Int) : Prop := -2147483648 ≤ x ∧ x ≤ 2147483647

/-! ### association lists (own container; invariants are separate theorems) -/

def alookup {α β} [BEq α] (k : α) : List (α × β) → Option β
  | [] => none
  | (k', v) :: rest => if k' == k then some v else alookup k rest

def aerase {α β} [BEq α] (k : α) : List (α × β) → List (α × β)
  | [] => []
  | (k', v) :: rest => if k' == k then aerase k rest else (k', v) :: aerase k rest

end Deltio
