import Driver.Proto
/-
  `seq` mode of the driver: fold `Sys.rpc` and friends over the ops file.
-/
namespace Driver
open Deltio

def itemOut : StreamItem → String
  | .msgs ds => "msgs:" ++ delivsOut ds
  | .done s => "end:" ++ statusName s

def allValid (l : List Bytes) : Bool := l.all validUtf8

/-- Follow `next_page_token` from the first page to the end. -/
def walkPages (sys : Sys) (mk : Bytes → Req) : Nat → Bytes → List String → Sys × String
  | 0, _, acc => (sys, " | ".intercalate acc.reverse)
  | fuel + 1, tok, acc =>
    match sys.rpc (mk tok) with
    | (sys', .names ns next) =>
      let acc' := ("ok " ++ joinList (ns.map hexOfBytes) ",") :: acc
      if next.isEmpty then (sys', " | ".intercalate acc'.reverse)
      else walkPages sys' mk fuel (next.map UInt8.ofNat) acc'
    | (sys', .subs rs next) =>
      let acc' := ("ok " ++ joinList (rs.map subResOut) ",") :: acc
      if next.isEmpty then (sys', " | ".intercalate acc'.reverse)
      else walkPages sys' mk fuel (next.map UInt8.ofNat) acc'
    | (sys', r) => (sys', " | ".intercalate ((respOut r) :: acc).reverse)

/-- One op. `none` state = no `new` yet. -/
def seqStep (sys : Sys) (line : String) : Sys × String :=
  match line.trimAscii.toString.splitOn " " with
  | ["adv", d] => (sys.advance (parseNat d), "ok")
  | ["clock"] => (sys, toString sys.clock)
  | ["ctopic", n] =>
    let b := bytesOfHex n
    if !validUtf8 b then (sys, "skip") else
    let (s, r) := sys.rpc (.createTopic b); (s, respOut r)
  | ["gtopic", n] =>
    let b := bytesOfHex n
    if !validUtf8 b then (sys, "skip") else
    let (s, r) := sys.rpc (.getTopic b); (s, respOut r)
  | ["dtopic", n] =>
    let b := bytesOfHex n
    if !validUtf8 b then (sys, "skip") else
    let (s, r) := sys.rpc (.deleteTopic b); (s, respOut r)
  | ["ltopics", p, sz, tok] =>
    let pb := bytesOfHex p; let tb := bytesOfHex tok
    if !allValid [pb, tb] then (sys, "skip") else
    let (s, r) := sys.rpc (.listTopics pb (parseInt sz) tb); (s, respOut r)
  | ["ltsubs", t, sz, tok] =>
    let pb := bytesOfHex t; let tb := bytesOfHex tok
    if !allValid [pb, tb] then (sys, "skip") else
    let (s, r) := sys.rpc (.listTopicSubs pb (parseInt sz) tb); (s, respOut r)
  | ["wtopics", a, sz] =>
    let b := bytesOfHex a
    if !validUtf8 b then (sys, "skip") else
    (walkPages sys (fun tok => .listTopics b (parseInt sz) tok) 100000 [] [])
  | ["wsubs", a, sz] =>
    let b := bytesOfHex a
    if !validUtf8 b then (sys, "skip") else
    (walkPages sys (fun tok => .listSubs b (parseInt sz) tok) 100000 [] [])
  | ["wtsubs", a, sz] =>
    let b := bytesOfHex a
    if !validUtf8 b then (sys, "skip") else
    (walkPages sys (fun tok => .listTopicSubs b (parseInt sz) tok) 100000 [] [])
  | ["csub", n, t, dl, push] =>
    let nb := bytesOfHex n; let tb := bytesOfHex t
    if !allValid [nb, tb] then (sys, "skip") else
    let (s, r) := sys.rpc (.createSub nb tb (parseInt dl) (pushIn push)); (s, respOut r)
  | ["gsub", n] =>
    let b := bytesOfHex n
    if !validUtf8 b then (sys, "skip") else
    let (s, r) := sys.rpc (.getSub b); (s, respOut r)
  | ["lsubs", p, sz, tok] =>
    let pb := bytesOfHex p; let tb := bytesOfHex tok
    if !allValid [pb, tb] then (sys, "skip") else
    let (s, r) := sys.rpc (.listSubs pb (parseInt sz) tb); (s, respOut r)
  | ["dsub", n] =>
    let b := bytesOfHex n
    if !validUtf8 b then (sys, "skip") else
    let (s, r) := sys.rpc (.deleteSub b); (s, respOut r)
  | ["pub", t, ms] =>
    let b := bytesOfHex t
    if !validUtf8 b then (sys, "skip") else
    let (s, r) := sys.rpc (.publish b (msgsIn ms)); (s, respOut r)
  | ["pull", n, mx, ri] =>
    let b := bytesOfHex n
    if !validUtf8 b then (sys, "skip") else
    let (s, r) := sys.rpc (.pull b (parseInt mx) (ri == "1")); (s, respOut r)
  | ["ack", n, ids] =>
    let b := bytesOfHex n
    let idbs := (splitList ids ',').map bytesOfHex
    if !allValid (b :: idbs) then (sys, "skip") else
    let (s, r) := sys.rpc (.ack b idbs); (s, respOut r)
  | ["mod", n, secs, ids] =>
    let b := bytesOfHex n
    let idbs := (splitList ids ',').map bytesOfHex
    if !allValid (b :: idbs) then (sys, "skip") else
    let (s, r) := sys.rpc (.modAck b (parseInt secs) idbs); (s, respOut r)
  | ["sopen", k, n, mm, _mb] =>
    let b := bytesOfHex n
    if !validUtf8 b then (sys, "skip") else
    let (s, st) := sys.streamOpen (parseNat k) b (parseInt mm)
    (s, statusName st)
  | ["ssend", k, n, acks, mids, msecs, mm, mb] =>
    let b := bytesOfHex n
    let ackb := (splitList acks ',').map bytesOfHex
    let midb := (splitList mids ',').map bytesOfHex
    if !allValid (b :: ackb ++ midb) then (sys, "skip") else
    match sys.streams.find? (·.k == parseNat k) with
    | none => (sys, "nostream")
    | some st =>
      if st.ended || !st.reqOpen then (sys, "closed") else
      let secs := (splitList msecs ',').map parseInt
      let c : StreamCtl := { subscription := b, ackIds := ackb, modIds := midb,
                             modSecs := secs, maxMsgs := parseInt mm, maxBytes := parseInt mb }
      (sys.streamSend (parseNat k) c, "ok")
  | ["sread", k] =>
    match sys.streamRead (parseNat k) with
    | (s, none) => (s, "nostream")
    | (s, some (items, ended)) =>
      let outs := items.map itemOut
      (s, " ".intercalate (if ended then outs else outs ++ ["open"]))
  | ["sclose", k] =>
    match sys.streams.find? (·.k == parseNat k) with
    | none => (sys, "nostream")
    | some _ => (sys.streamCloseReq (parseNat k), "ok")
  | ["sdrop", k] =>
    match sys.streams.find? (·.k == parseNat k) with
    | none => (sys, "nostream")
    | some _ => (sys.streamDrop (parseNat k), "ok")
  | ["stats", n] =>
    let b := bytesOfHex n
    if !validUtf8 b then (sys, "skip") else
    match sys.stats b with
    | (_, none) => (sys, "none")
    | (sys', some (o, bl, t)) => (sys', toString o ++ " " ++ toString bl ++ " " ++ hexOfBytes t)
  | ["registry"] =>
    -- sorted by (display name) hex, as the harness does
    let items := sys.registry.map (fun e => hexOfBytes (displaySub e.1) ++ ">" ++ hexOfBytes e.2.endpoint)
    let sorted := items.toArray.qsort (· < ·) |>.toList
    (sys, joinList sorted ",")
  | ["unimpl", _] => (sys, "unimplemented")
  | _ => (sys, "bad-op")

end Driver
