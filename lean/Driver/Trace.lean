import Driver.Proto
/-
  `trace` mode: replays the implementation's log of actor turns (cfg(deltio_verif) hooks) through
  the model's turn functions. Every logged turn must produce, in the model, the same output
  (deliveries with ack ids and deadlines, re-queued deliveries, queue lengths, notify flag).
-/
namespace Driver
open Deltio

structure TopicSt where
  tid : Nat
  nextMsg : Nat
  subs : List Nat
  deleted : Bool

structure TraceSt where
  subs : List (Nat × SubState) := []
  topics : List TopicSt := []
  pending : List (Nat × List Nat) := []     -- (sid, ids) fan-out posts announced but not yet seen
  lastPost : List (Nat × Nat) := []         -- (sid, last posted id)

def probeMsg (id : Nat) : Msg := { id := id, data := [], attrs := [], pubTime := 0 }

def natList (s : String) : List Nat := (splitList s ',').map parseNat

def delivTriple (d : Deliv) : String := toString d.ack ++ "/" ++ toString d.msg.id ++ "/" ++ toString d.deadline

def triples (ds : List Deliv) : String := joinList (ds.map delivTriple) ","

def b2s (b : Bool) : String := if b then "1" else "0"

def getSub (st : TraceSt) (sid : Nat) : Option SubState := (st.subs.find? (·.1 == sid)).map (·.2)

def setSub (st : TraceSt) (sid : Nat) (s : SubState) : TraceSt :=
  { st with subs := (st.subs.filter (·.1 != sid)) ++ [(sid, s)] }

def digP : Nat := 2305843009213693951

/-- Digest of the whole actor state, as computed by the `state` hook. -/
def stateDigest (s : SubState) : String :=
  let h := s.backlog.foldl (fun h m => (h * 1000003 + m.id) % digP) 0
  let x := s.out.msgs.foldl (fun x d => (x + ((d.ack * 1000003 + d.msg.id) % digP * 1000003 + d.deadline) % digP) % digP) 0
  toString s.backlog.length ++ " " ++ toString h ++ " " ++ toString s.out.msgs.length ++ " " ++ toString x ++ " " ++
    (match s.out.nextExpiration with | some n => toString n | none => "-")

def subEvent (st : TraceSt) (sid : Nat) (rest : List String) : TraceSt × String :=
  match rest with
  | "new" :: dl :: _ => (setSub st sid (SubState.init (parseNat dl)), "ok")
  | "post.enq" :: _ => (st, "ok")          -- handle-side event of the fan-out protocol: validated by `driver p6`
  | _ =>
    match getSub st sid with
    | none => (st, "MISMATCH unknown-sub " ++ toString sid)
    | some s =>
      match rest with
      | ["post", ids, "|", del] =>
        let idl := natList ids
        let (s', _) := s.turn (.post (idl.map probeMsg))
        let st1 := setSub st sid s'
        -- fan-out bookkeeping: this post was announced by a publish turn
        let st2 := { st1 with pending := st1.pending.erase (sid, idl) }
        let inOrder := match st.lastPost.find? (·.1 == sid), idl.head? with
          | some (_, last), some h => last < h
          | _, _ => true
        let st3 := match idl.getLast? with
          | some l => { st2 with lastPost := (st2.lastPost.filter (·.1 != sid)) ++ [(sid, l)] }
          | none => st2
        if b2s s.deleted != del then (st3, "MISMATCH post deleted-flag model=" ++ b2s s.deleted ++ " impl=" ++ del)
        else if !inOrder then (st3, "MISMATCH posts-out-of-order sub " ++ toString sid)
        else (st3, "ok")
      | ["pull", mx, _, "->", _, "|", "deleted"] =>
        let (s', o) := s.turn (.pull (parseNat mx) 0)
        if s.deleted && o.delivered.isEmpty then (setSub st sid s', "ok")
        else (st, "MISMATCH pull-on-deleted model-deleted=" ++ b2s s.deleted)
      | ["pull", mx, now, "->", ds, "|", bl, ol, nf] =>
        let (s', o) := s.turn (.pull (parseNat mx) (parseNat now))
        let got := triples o.delivered ++ " | " ++ toString s'.backlog.length ++ " " ++ toString s'.out.len ++ " " ++ b2s o.notified
        let want := ds ++ " | " ++ bl ++ " " ++ ol ++ " " ++ nf
        if got == want then (setSub st sid s', "ok") else (setSub st sid s', "MISMATCH pull model=[" ++ got ++ "] impl=[" ++ want ++ "]")
      | ["ack", ids, "->", "|", bl, ol] =>
        let (s', _) := s.turn (.ack (natList ids))
        let got := toString s'.backlog.length ++ " " ++ toString s'.out.len
        if got == bl ++ " " ++ ol then (setSub st sid s', "ok") else (setSub st sid s', "MISMATCH ack model=[" ++ got ++ "] impl=[" ++ bl ++ " " ++ ol ++ "]")
      | ["modify", mods, "->", nacks, "|", bl, ol, nf] =>
        let ms := (splitList mods ',').map (fun m =>
          match m.splitOn "=" with
          | [a, "n"] => (parseNat a, none)
          | [a, d] => (parseNat a, some (parseNat d))
          | _ => (0, none))
        let (s', o) := s.turn (.modify ms)
        let got := triples o.requeued ++ " | " ++ toString s'.backlog.length ++ " " ++ toString s'.out.len ++ " " ++ b2s o.notified
        let want := nacks ++ " | " ++ bl ++ " " ++ ol ++ " " ++ nf
        if got == want then (setSub st sid s', "ok") else (setSub st sid s', "MISMATCH modify model=[" ++ got ++ "] impl=[" ++ want ++ "]")
      | ["expire", now, "->", ex, "|", bl, ol, nf] =>
        let (s', o) := s.turn (.expire (parseNat now))
        let got := triples o.requeued ++ " | " ++ toString s'.backlog.length ++ " " ++ toString s'.out.len ++ " " ++ b2s o.notified
        let want := ex ++ " | " ++ bl ++ " " ++ ol ++ " " ++ nf
        if o.ub then (st, "MISMATCH expire model hits the unchecked unwrap")
        else if got == want then (setSub st sid s', "ok") else (setSub st sid s', "MISMATCH expire model=[" ++ got ++ "] impl=[" ++ want ++ "]")
      | "state" :: dig =>
        let want := " ".intercalate dig
        let got := stateDigest s
        -- after delete.end the actor has cleared everything; its digest is then all zero
        if got == want then (st, "ok") else (st, "MISMATCH state model=[" ++ got ++ "] impl=[" ++ want ++ "]")
      | ["delete.begin"] =>
        if s.deleted then (st, "MISMATCH delete.begin on a deleted actor")
        else (setSub st sid (s.turn .deleteBegin).1, "ok")
      | ["delete.end"] =>
        if !s.deleted then (st, "MISMATCH delete.end without delete.begin")
        else (setSub st sid (s.turn .deleteEnd).1, "ok")
      | _ => (st, "MISMATCH unparsed sub event")

def topicEvent (st : TraceSt) (tid : Nat) (rest : List String) : TraceSt × String :=
  match rest with
  | "new" :: _ => ({ st with topics := st.topics ++ [{ tid := tid, nextMsg := 0, subs := [], deleted := false }] }, "ok")
  | "publish.reply" :: _ => (st, "ok")     -- end of a publish turn: validated by `driver p6`
  | _ =>
    match st.topics.find? (·.tid == tid) with
    | none => (st, "MISMATCH unknown-topic " ++ toString tid)
    | some t =>
      let upd (t' : TopicSt) : TraceSt := { st with topics := st.topics.map (fun x => if x.tid == tid then t' else x) }
      match rest with
      | ["publish", n, "->", ids, "|", subs] =>
        let k := parseNat n
        let want := (List.range k).map (fun i => mkId tid (t.nextMsg + i + 1))
        let gotSubs := natList subs
        let wantSubs := t.subs.toArray.qsort (· < ·) |>.toList
        let st1 := upd { t with nextMsg := t.nextMsg + k }
        let st2 := { st1 with pending := st1.pending ++ gotSubs.map (fun s => (s, natList ids)) }
        if natList ids != want then (st2, "MISMATCH publish ids model=" ++ toString want ++ " impl=" ++ ids)
        else if gotSubs != wantSubs then (st2, "MISMATCH publish fan-out set model=" ++ toString wantSubs ++ " impl=" ++ subs)
        else (st2, "ok")
      | ["attach", sid] =>
        let s := parseNat sid
        (upd { t with subs := if t.subs.contains s then t.subs else t.subs ++ [s] }, "ok")
      | ["remove", sid] =>
        if sid == "-" then (st, "ok") else (upd { t with subs := t.subs.filter (· != parseNat sid) }, "ok")
      | ["delete"] => (upd { t with subs := [], deleted := true }, "ok")
      | _ => (st, "MISMATCH unparsed topic event")

/-- At the end of a case every announced fan-out post must have reached its subscription actor,
    unless that actor was deleted meanwhile. -/
def caseEnd (st : TraceSt) : String :=
  let lost := st.pending.filter (fun p =>
    match getSub st p.1 with
    | some s => !s.deleted
    | none => false)
  if lost.isEmpty then "ok" else "MISMATCH fan-out posts never handled: " ++ toString lost

def traceStep (st : TraceSt) (line : String) : TraceSt × String :=
  match line.trimAscii.toString.splitOn " " with
  | _ :: "case" :: _ => ({}, caseEnd st)
  | _ :: "sub" :: sid :: rest => subEvent st (parseNat sid) rest
  | _ :: "topic" :: tid :: rest => topicEvent st (parseNat tid) rest
  | ["end"] => ({}, caseEnd st)
  | _ => (st, "ok")

end Driver
