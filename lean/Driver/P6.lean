import Deltio.Proto.Fanout
import Driver.Proto
/-
  Trace refinement for slice P6 (fan-out of Publish): per topic, the publish / attach / remove /
  delete turns of the topic actor, the `post.enq` events of the post tasks, the `publish.reply`
  events and the post turns of the subscription actors must be the visible projection of a run of
  `Deltio.P6`. Hidden steps (the client's enqueue into the topic mailbox, the moment a deleted
  subscription's receiver is dropped) are inserted right before the visible step that needs them.
  Requests other than posts are not tracked (they only occupy mailbox slots), so the capacity of
  the validated run is unbounded; the theorems hold for every capacity.
-/
namespace Driver.P6V
open Deltio.P6 Driver

def bigCap : Nat := 1000000000

structure TopicV where
  tid : Nat
  st : State
  failed : List Nat := []        -- subscriptions whose post task reported `closed` in the running turn

structure VSt where
  case : String := ""
  topics : List TopicV := []
  names : List (Nat × String) := []    -- sid ↦ subscription name (the topic's map is keyed by name)
  ended : List Nat := []               -- sids whose `delete.end` was seen

def runL (s : State) : List Label → Except String State
  | [] => .ok s
  | l :: ls => match step s l with
    | some s' => runL s' ls
    | none => .error (reprStr l)

def setTopic (v : VSt) (t : TopicV) : VSt :=
  { v with topics := if v.topics.any (·.tid == t.tid) then v.topics.map (fun x => if x.tid == t.tid then t else x)
                     else v.topics ++ [t] }

def natList (s : String) : List Nat := (splitList s ',').map parseNat

def two32 : Nat := 4294967296

/-- `(lo, n)` of a logged id list of topic `tid`; `none` when the ids are not a contiguous range of that topic. -/
def batchOf (tid : Nat) (ids : List Nat) : Option Batch :=
  match ids with
  | [] => some ⟨0, 0⟩
  | i :: _ =>
    let lo := i % two32 - 1
    if i / two32 == tid && i % two32 ≥ 1 && ids == (List.range ids.length).map (fun k => tid * two32 + lo + 1 + k)
    then some ⟨lo, ids.length⟩ else none

def sameBatch (ids : List Nat) (a b : Batch) : Bool := if ids.isEmpty then a.n == 0 && b.n == 0 else a == b

/-- The topic a logged id list belongs to (upper half of the first id); for an empty list, the topic
    whose running or finished turn still owes `sid` an empty batch. -/
def topicOf (v : VSt) (sid : Nat) (ids : List Nat) : Option TopicV :=
  match ids with
  | i :: _ => v.topics.find? (·.tid == i / two32)
  | [] => v.topics.find? (fun t =>
      (match t.st.cur with | some c => c.b.n == 0 && c.pending.contains sid | none => false) ||
      (posts (t.st.smb sid)).any (·.n == 0))

def sortNat (l : List Nat) : List Nat := (l.toArray.qsort (· < ·)).toList

def vStep (v : VSt) (line : String) : VSt × String :=
  match line.trimAscii.toString.splitOn " " with
  | c :: rest =>
    let v := if c != v.case then ({ case := c } : VSt) else v
    match rest with
    | "sub" :: sid :: "new" :: _ :: name :: _ => ({ v with names := v.names ++ [(parseNat sid, name)] }, "ok")
    | "topic" :: tid :: "new" :: _ => (setTopic v { tid := parseNat tid, st := init bigCap }, "ok")
    | ["sub", sid, "delete.end"] => ({ v with ended := parseNat sid :: v.ended }, "ok")
    | "topic" :: tid :: ev =>
      match v.topics.find? (·.tid == parseNat tid) with
      | none => (v, "p6:unknown-topic")
      | some t =>
        match ev with
        | ["attach", sid] =>
          let x := parseNat sid
          -- `if let Entry::Vacant(..) = subscriptions.entry(name)`: ignored while the name is taken
          let nm := (v.names.find? (·.1 == x)).map (·.2)
          let taken := t.st.subs.any (fun y => y != x && (v.names.find? (·.1 == y)).map (·.2) == nm)
          if taken then (v, "ok") else
          match runL t.st [.cliAttach x, .topicTake] with
          | .ok s' => (setTopic v { t with st := s' }, "ok")
          | .error e => (v, "p6:attach-during-publish-turn " ++ e)
        | ["remove", who] =>
          if who == "-" then
            (if t.st.cur.isSome then (v, "p6:remove-during-publish-turn") else (v, "ok"))
          else
          match runL t.st [.cliRemove (parseNat who), .topicTake] with
          | .ok s' => (setTopic v { t with st := s' }, "ok")
          | .error e => (v, "p6:remove-during-publish-turn " ++ e)
        | ["delete"] =>
          let ls := t.st.subs.foldr (fun x acc => Label.cliRemove x :: Label.topicTake :: acc) []
          match runL t.st ls with
          | .ok s' => (setTopic v { t with st := s' }, "ok")
          | .error e => (v, "p6:delete-during-publish-turn " ++ e)
        | ["publish", n, "->", ids, "|", subs] =>
          let k := parseNat n
          match runL t.st [.cliPublish 0 k, .topicTake] with
          | .error _ => (v, "p6:publish-turn-began-before-the-previous-one-ended")
          | .ok s' =>
            match s'.cur with
            | none => (v, "p6:internal")
            | some c =>
              let idl := natList ids
              if idl.length != k || (k > 0 && batchOf t.tid idl != some c.b) then
                (setTopic v { t with st := s', failed := [] }, "p6:publish-ids-differ model=" ++ toString (c.b.lo + 1) ++ ".." ++ toString (c.b.lo + c.b.n) ++ " impl=" ++ ids)
              else if sortNat c.fan != sortNat (natList subs) then
                (setTopic v { t with st := s', failed := [] }, "p6:fan-out-set-differs model=" ++ toString (sortNat c.fan) ++ " impl=" ++ subs)
              else (setTopic v { t with st := s', failed := [] }, "ok")
        | ["publish.reply", res] =>
          if res == "ok" then
            match runL t.st [.reply] with
            | .ok s' => (setTopic v { t with st := s', failed := [] }, "ok")
            | .error _ => (v, "p6:publish-answered-before-every-post-was-enqueued")
          else
            -- the turn failed: some post task must have found its subscription's mailbox closed
            match t.st.cur with
            | none => (v, "p6:reply-without-publish-turn")
            | some c =>
              match t.failed.find? (fun x => c.pending.contains x) with
              | none => (v, "p6:publish-failed-without-a-closed-subscription")
              | some x =>
                let pre := if t.st.closed x then [] else [Label.subClose x]
                match runL t.st (pre ++ [.postFail x]) with
                | .ok s' => (setTopic v { t with st := s', failed := [] }, "ok")
                | .error e => (v, "p6:publish.reply " ++ e)
        | _ => (v, "ok")
    | ["sub", sid, "post.enq", ids, res] =>
      let x := parseNat sid
      let idl := natList ids
      match topicOf v x idl with
      | none => (v, "p6:post-of-unknown-topic")
      | some t =>
        match t.st.cur with
        | none => (v, "p6:post-enqueued-outside-its-publish-turn")
        | some c =>
          if !(sameBatch idl c.b ((batchOf t.tid idl).getD ⟨0, 0⟩)) then (v, "p6:post-enqueued-outside-its-publish-turn")
          else if res == "closed" then
            if v.ended.contains x then (setTopic v { t with failed := x :: t.failed }, "ok")
            else (v, "p6:mailbox-closed-without-delete")
          else
            match runL t.st [.postDone x] with
            | .ok s' => (setTopic v { t with st := s' }, "ok")
            | .error _ => (v, "p6:post-enqueued-twice-or-to-a-subscription-outside-the-fan-out")
    | ["sub", sid, "post", ids, "|", _] =>
      let x := parseNat sid
      let idl := natList ids
      match topicOf v x idl with
      | none => (v, "p6:post-of-unknown-topic")
      | some t =>
        match (posts (t.st.smb x)).head? with
        | none => (v, "p6:post-handled-but-never-enqueued")
        | some b =>
          if !(sameBatch idl b ((batchOf t.tid idl).getD ⟨0, 0⟩)) then (v, "p6:post-handled-out-of-mailbox-order")
          else
            -- the slice's mailbox holds only posts here (other requests are not tracked)
            match runL t.st [.subTake x] with
            | .ok s' => (setTopic v { t with st := s' }, "ok")
            | .error e => (v, "p6:post " ++ e)
    | _ => (v, "ok")
  | [] => (v, "ok")

end Driver.P6V
