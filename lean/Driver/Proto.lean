import Deltio.Model.System
/-
  Line protocol: parsing of ops and printing of answers. Must agree with harness/src/util.rs.
-/
namespace Driver
open Deltio

def hexDigit (n : Nat) : Char := if n < 10 then Char.ofNat (48 + n) else Char.ofNat (87 + n)

def hexOfBytes (b : Bytes) : String :=
  if b.isEmpty then "-"
  else String.ofList (b.flatMap (fun x => [hexDigit (x.toNat / 16), hexDigit (x.toNat % 16)]))

def hexVal (c : Char) : Nat :=
  let n := c.toNat
  if 48 ≤ n ∧ n ≤ 57 then n - 48 else if 97 ≤ n ∧ n ≤ 102 then n - 87 else if 65 ≤ n ∧ n ≤ 70 then n - 55 else 0

def bytesOfHexGo : List Char → Bytes
  | a :: b :: rest => UInt8.ofNat (hexVal a * 16 + hexVal b) :: bytesOfHexGo rest
  | _ => []

def bytesOfHex (s : String) : Bytes := if s == "-" then [] else bytesOfHexGo s.toList

def natsOfHex (s : String) : List Nat := (bytesOfHex s).map (·.toNat)
def hexOfNats (l : List Nat) : String := hexOfBytes (l.map UInt8.ofNat)

def validUtf8 (b : Bytes) : Bool := (String.fromUTF8? (ByteArray.mk b.toArray)).isSome

def splitList (s : String) (sep : Char) : List String :=
  if s == "-" || s.isEmpty then [] else s.splitOn (String.singleton sep)

def joinList (l : List String) (sep : String) : String :=
  if l.isEmpty then "-" else sep.intercalate l

def parseInt (s : String) : Int := s.toInt?.getD 0
def parseNat (s : String) : Nat := s.toNat?.getD 0

def decOfNat (n : Nat) : Bytes := (toString n).toUTF8.toList

def optNat (o : Option Nat) : String := match o with | some n => toString n | none => "none"

def statusName : Status → String
  | .ok => "ok" | .cancelled => "cancelled" | .invalidArgument => "invalid_argument"
  | .notFound => "not_found" | .alreadyExists => "already_exists"
  | .failedPrecondition => "failed_precondition" | .internal => "internal"
  | .unimplemented => "unimplemented"

def attrsOut (a : List (Bytes × Bytes)) : String :=
  joinList (a.map (fun kv => hexOfBytes kv.1 ++ "=" ++ hexOfBytes kv.2)) ";"

def attrsIn (s : String) : List (Bytes × Bytes) :=
  (splitList s ';').map (fun kv =>
    match kv.splitOn "=" with
    | [k, v] => (bytesOfHex k, bytesOfHex v)
    | [k] => (bytesOfHex k, [])
    | _ => ([], []))

def pushOut : Option PushCfg → String
  | none => "-"
  | some p =>
    let oidc := match p.oidc with
      | none => "-"
      | some (a, e) => hexOfBytes a ++ "~" ++ hexOfBytes e
    hexOfBytes p.endpoint ++ "|" ++ attrsOut p.attrs ++ "|" ++ oidc

def pushIn (s : String) : Option PushCfg :=
  if s == "-" then none
  else
    let parts := s.splitOn "|"
    let ep := bytesOfHex (parts.getD 0 "-")
    let attrs := attrsIn (parts.getD 1 "-")
    let oidc := match parts[2]? with
      | none => none
      | some "-" => none
      | some o => match o.splitOn "~" with
        | [a, e] => some (bytesOfHex a, bytesOfHex e)
        | [a] => some (bytesOfHex a, [])
        | _ => none
    some { endpoint := ep, attrs := attrs, oidc := oidc }

def subResOut (r : SubRes) : String :=
  hexOfBytes r.name ++ "/" ++ hexOfBytes r.topic ++ "/" ++ toString r.ackSecs ++ "/" ++ pushOut r.push

def delivOut (d : Deliv) : String :=
  hexOfBytes (decOfNat d.ack) ++ ":" ++ hexOfBytes (decOfNat d.msg.id) ++ ":" ++ hexOfBytes d.msg.data ++ ":" ++ attrsOut d.msg.attrs

def delivsOut (ds : List Deliv) : String := joinList (ds.map delivOut) ","

def msgsIn (s : String) : List (Bytes × List (Bytes × Bytes)) :=
  (splitList s ',').map (fun m =>
    match m.splitOn ";" with
    | [] => ([], [])
    | d :: rest => (bytesOfHex d, attrsIn (if rest.isEmpty then "-" else ";".intercalate rest)))

def respOut : Resp → String
  | .err s => statusName s
  | .empty => "ok"
  | .topic n => "ok " ++ hexOfBytes n
  | .names ns next => "ok " ++ joinList (ns.map hexOfBytes) "," ++ " " ++ hexOfNats next
  | .sub r => "ok " ++ subResOut r
  | .subs rs next => "ok " ++ joinList (rs.map subResOut) "," ++ " " ++ hexOfNats next
  | .ids ids => "ok " ++ joinList (ids.map (fun i => hexOfBytes (decOfNat i))) ","
  | .msgs ds => "ok " ++ delivsOut ds

end Driver
