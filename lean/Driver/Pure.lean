import Driver.Proto
/-
  `pure` mode of the driver: the model's answer for one input line.
-/
namespace Driver
open Deltio

def nameOut (mid : Bytes) (r : Option Name) : String :=
  match r with
  | none => "none"
  | some n => "some " ++ hexOfBytes n.1 ++ " " ++ hexOfBytes n.2 ++ " " ++ hexOfBytes (displayName mid n)
      ++ (if parseName mid (displayName mid n) == some n then " 1" else " 0")

def pairsOut (ds : List Deliv) : String :=
  joinList (ds.map (fun d => toString d.ack ++ "/" ++ toString d.msg.id)) ","

def insertByAck (d : Deliv) : List Deliv → List Deliv
  | [] => [d]
  | x :: xs => if d.ack < x.ack then d :: x :: xs else x :: insertByAck d xs

def sortByAck (l : List Deliv) : List Deliv := l.foldl (fun acc d => insertByAck d acc) []

def trackerSnap (t : Tracker) (ret : String) : String :=
  let ms := joinList ((sortByAck t.msgs).map (fun d => toString d.ack ++ "/" ++ toString d.msg.id ++ "/" ++ toString d.deadline)) ","
  let es := joinList (t.exps.map (fun k => toString k.1 ++ "/" ++ toString k.2)) ","
  ret ++ " " ++ toString t.len ++ " " ++ optNat t.nextExpiration ++ " " ++ ms ++ " " ++ es

def mkProbeMsg (id : Nat) : Msg := { id := id, data := [], attrs := [], pubTime := 0 }

def trackerOp (t : Tracker) (op : String) : Option (Tracker × String) :=
  match op.splitOn ":" with
  | ["add", a, m, dl] =>
    let t' := t.add { ack := parseNat a, msg := mkProbeMsg (parseNat m), deadline := roundDeadline (parseNat dl) }
    some (t', "-")
  | ["rm", ids] =>
    let (t', ds) := t.remove ((splitList ids ',').map parseNat)
    some (t', pairsOut ds)
  | ["mod", mods] =>
    let ms := (splitList mods ',').map (fun s =>
      match s.splitOn "=" with
      | [a, "n"] => (parseNat a, none)
      | [a, d] => (parseNat a, some (roundDeadline (parseNat d)))
      | _ => (0, none))
    let (t', ds) := t.modify ms
    some (t', pairsOut ds)
  | ["exp", now] =>
    match t.takeExpired (parseNat now) with
    | some (t', ds) => some (t', pairsOut ds)
    | none => none
  | ["clear"] => some (t.clear, "-")
  | _ => some (t, "bad-op")

def trackerRun : Tracker → List String → List String → String
  | _, [], acc => " | ".intercalate acc.reverse
  | t, op :: rest, acc =>
    match trackerOp t op with
    | none => " | ".intercalate (("UB" :: acc).reverse)
    | some (t', ret) => trackerRun t' rest (trackerSnap t' ret :: acc)

def u64 : Nat := 18446744073709551616

def flowRun (maxB maxM : Nat) : Nat → Nat → List String → List String → String
  | _, _, [], acc => joinList acc.reverse ","
  | b, m, op :: rest, acc =>
    let (b', m') := match op.splitOn ":" with
      | ["inc", db, dm] => ((b + parseNat db) % u64, (m + parseNat dm) % u64)
      | ["dec", db, dm] => ((b + u64 - parseNat db % u64) % u64, (m + u64 - parseNat dm % u64) % u64)
      | _ => (b, m)
    let has := if m' ≥ maxM then false else if b' ≥ maxB then false else true
    flowRun maxB maxM b' m' rest ((if has then "1" else "0") :: acc)

/-- Call-granularity model of `wait_for_available_space` futures polled by hand:
    `none` = finished/dropped, `some none` = not yet polled, `some (some e)` = waiting since epoch e. -/
def flowqRun (maxB maxM : Nat) : Nat → Nat → Nat → List (Option (Option Nat)) → List String → List String → String
  | _, _, _, _, [], acc => joinList acc.reverse ","
  | b, m, ep, ws, op :: rest, acc =>
    let has (b m : Nat) : Bool := if m ≥ maxM then false else if b ≥ maxB then false else true
    match op.splitOn ":" with
    | ["inc", db, dm] => flowqRun maxB maxM ((b + parseNat db) % u64) ((m + parseNat dm) % u64) (ep + 1) ws rest ("-" :: acc)
    | ["dec", db, dm] => flowqRun maxB maxM ((b + u64 - parseNat db % u64) % u64) ((m + u64 - parseNat dm % u64) % u64) (ep + 1) ws rest ("-" :: acc)
    | ["new"] => flowqRun maxB maxM b m ep (ws ++ [some none]) rest ("-" :: acc)
    | ["drop", i] => flowqRun maxB maxM b m ep (ws.set (parseNat i) none) rest ("-" :: acc)
    | ["poll", i] =>
      match ws[parseNat i]? with
      | some (some none) =>
        if has b m then flowqRun maxB maxM b m ep (ws.set (parseNat i) none) rest ("r" :: acc)
        else flowqRun maxB maxM b m ep (ws.set (parseNat i) (some (some ep))) rest ("p" :: acc)
      | some (some (some e)) =>
        if e == ep then flowqRun maxB maxM b m ep ws rest ("p" :: acc)
        else if has b m then flowqRun maxB maxM b m ep (ws.set (parseNat i) none) rest ("r" :: acc)
        else flowqRun maxB maxM b m ep (ws.set (parseNat i) (some (some ep))) rest ("p" :: acc)
      | _ => flowqRun maxB maxM b m ep ws rest ("x" :: acc)
    | _ => flowqRun maxB maxM b m ep ws rest ("bad-op" :: acc)

def pureEval (line : String) : String :=
  match line.trimAscii.toString.splitOn " " with
  | ["topic.parse", h] =>
    let b := bytesOfHex h
    if !validUtf8 b then "skip" else nameOut topicsMiddle (parseTopicName b)
  | ["sub.parse", h] =>
    let b := bytesOfHex h
    if !validUtf8 b then "skip" else nameOut subsMiddle (parseSubName b)
  | ["topic.parse.api", h] =>
    let b := bytesOfHex h
    if !validUtf8 b then "skip" else
    match parseTopicName b with
    | some n => "ok " ++ hexOfBytes (displayTopic n)
    | none => "invalid_argument"
  | ["sub.parse.api", h] =>
    let b := bytesOfHex h
    if !validUtf8 b then "skip" else
    match parseSubName b with
    | some n => "ok " ++ hexOfBytes (displaySub n)
    | none => "invalid_argument"
  | ["project.parse", h] =>
    let b := bytesOfHex h
    if !validUtf8 b then "skip" else
    match parseProject b with
    | some p => "ok " ++ hexOfBytes p
    | none => "invalid_argument"
  | ["ackid.parse", h] =>
    let b := bytesOfHex h
    if !validUtf8 b then "skip" else
    match parseAckId b with
    | some a => "ok " ++ toString a
    | none => "invalid_argument"
  | ["token.decode", h] =>
    let b := bytesOfHex h
    if !validUtf8 b then "skip" else
    match decodeToken (b.map (·.toNat)) with
    | some n => "some " ++ toString n
    | none => "none"
  | ["token.encode", n] => hexOfNats (encodeToken (parseNat n))
  | ["paging", sz, tok] =>
    let b := bytesOfHex tok
    if !validUtf8 b then "skip" else
    match parsePaging (parseInt sz) (b.map (·.toNat)) with
    | none => "invalid_argument"
    | some p => "ok " ++ toString p.effSize ++ " " ++ optNat p.offset
  | ["page", n, sz, off] =>
    let p := Paging.new (parseNat sz) (if off == "none" then none else some (parseNat off))
    let pg := p.page (List.range (parseNat n))
    optNat pg.head? ++ " " ++ toString pg.length ++ " " ++ optNat (p.nextOffset pg.length)
  | ["ext.parse", n] =>
    match parseExtension (parseInt n) with
    | .error => "invalid_argument"
    | .nack => "nack"
    | .secs k => "secs " ++ toString k
  | ["round", t] => toString (roundDeadline (parseNat t))
  | ["capacity", mx, backlog] => toString (pullCount (parseNat mx) (parseNat backlog))     -- messages one Pull turn hands out
  | ["ackdl.eff", n] => toString (effAckDeadlineSecs (parseInt n))
  | ["mods", now, ids, secs] =>
    let idbs := (splitList ids ',').map bytesOfHex
    if idbs.any (fun b => !validUtf8 b) then "skip" else
    match parseMods (parseNat now) idbs ((splitList secs ',').map parseInt) with
    | none => "invalid_argument"
    | some ms => "ok " ++ joinList (ms.map (fun m => toString m.1 ++ "=" ++ optNat m.2)) ","
  | "tracker" :: ops => trackerRun Tracker.empty ops []
  | "flow" :: mb :: mm :: ops => flowRun (parseNat mb) (parseNat mm) 0 0 ops []
  | "flowq" :: mb :: mm :: ops => flowqRun (parseNat mb) (parseNat mm) 0 0 0 [] ops []
  | ["push.accepts", st] => if pushAccepts (parseNat st) then "1" else "0"
  | ["push.dispatch", o] =>
    -- the dispatcher's reaction to one endpoint behaviour: "close" | "hang" | <status>
    let oc : Outcome := if o == "close" then .connError else if o == "hang" then .pending else .status (parseNat o)
    match dispatchTurn 7 oc with
    | some (.ack _) => "ack"
    | some (.modify _) => "nack"
    | some _ => "other"
    | none => "none"
  | ["name.eq", kind, ha, hb] =>
    let a := bytesOfHex ha
    let b := bytesOfHex hb
    if !validUtf8 a || !validUtf8 b then "skip" else
    let pa := if kind == "t" then parseTopicName a else parseSubName a
    let pb := if kind == "t" then parseTopicName b else parseSubName b
    match pa, pb with
    | some x, some y => (if x == y then "eq" else "ne") ++ " -"     -- a name is its (project, id) pair (C18_distinct)
    | _, _ => "rejected"
  | ["flow.race", _] => "ok"      -- slice P5: a capacity-freeing `dec` around the start of a wait is never missed
  | _ => "bad-op"

end Driver
