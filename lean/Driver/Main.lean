import Driver.Pure
import Driver.Seq
import Driver.Trace
import Driver.P1
import Driver.P6
/-
  Line-protocol driver: `driver pure|seq < ops > answers`.
-/
open Driver Deltio

partial def loopPure (h : IO.FS.Stream) (out : IO.FS.Stream) : IO Unit := do
  let line ← h.getLine
  if line.isEmpty then return ()
  out.putStrLn (pureEval line)
  loopPure h out

partial def loopSeq (h : IO.FS.Stream) (out : IO.FS.Stream) (sys : Option Sys) : IO Unit := do
  let line ← h.getLine
  if line.isEmpty then return ()
  let l := line.trimAscii.toString
  if l.isEmpty || l.startsWith "#" then
    out.putStrLn ""
    loopSeq h out sys
  else if l == "new" then
    out.putStrLn "ok"
    loopSeq h out (some Sys.init)
  else
    match sys with
    | none =>
      out.putStrLn "no-env"
      loopSeq h out none
    | some s =>
      let (s', o) := seqStep s l
      out.putStrLn o
      loopSeq h out (some s')

partial def loopTrace (h : IO.FS.Stream) (out : IO.FS.Stream) (st : TraceSt) : IO Unit := do
  let line ← h.getLine
  if line.isEmpty then
    out.putStrLn (caseEnd st)
    return ()
  let (st', o) := traceStep st line
  out.putStrLn o
  loopTrace h out st'

partial def loopP1 (h : IO.FS.Stream) (out : IO.FS.Stream) (st : Driver.P1V.VSt) : IO Unit := do
  let line ← h.getLine
  if line.isEmpty then return ()
  let (st', o) := Driver.P1V.vStep st line
  out.putStrLn o
  loopP1 h out st'

partial def loopP6 (h : IO.FS.Stream) (out : IO.FS.Stream) (st : Driver.P6V.VSt) : IO Unit := do
  let line ← h.getLine
  if line.isEmpty then return ()
  let (st', o) := Driver.P6V.vStep st line
  out.putStrLn o
  loopP6 h out st'

def main (args : List String) : IO UInt32 := do
  let stdin ← IO.getStdin
  let stdout ← IO.getStdout
  match args with
  | ["pure"] => loopPure stdin stdout; return 0
  | ["seq"] => loopSeq stdin stdout none; return 0
  | ["trace"] => loopTrace stdin stdout {}; return 0
  | ["p1"] => loopP1 stdin stdout {}; return 0
  | ["p6"] => loopP6 stdin stdout {}; return 0
  | _ =>
    IO.eprintln "usage: driver pure|seq|trace|p1|p6"
    return 2
