import Deltio.Proto.Attach
/-
  Trace refinement for slice P1: the topic / subscription life-cycle events of a harness run, per
  subscription NAME, must be the visible projection of a run of `Deltio.P1` (repaired protocol).
  Hidden steps (mailbox sends, `mark_attach_finished`, the handle lookup of a Delete, the choice
  between the two ways a Delete finishes) are inserted lazily, right before the visible step that
  needs them.
-/
namespace Driver.P1V
open Deltio.P1

structure NameSt where
  name : String
  st : State
  sids : List Nat              -- internal ids of this name's generations, in creation order (index = generation)
  tid : Option Nat := none     -- topic (internal id) that served the latest attach of this name
  pending : Option Nat := none -- generation whose `delete.begin` was seen; how it finishes is not known yet

structure VSt where
  case : String := ""
  names : List NameSt := []
  deadTopics : List Nat := []   -- internal ids of deleted topics

def genOf (n : NameSt) (sid : Nat) : Option Nat := n.sids.idxOf? sid

def findBySid (v : VSt) (sid : Nat) : Option NameSt := v.names.find? (fun n => n.sids.contains sid)

def setName (v : VSt) (n : NameSt) : VSt :=
  { v with names := if v.names.any (·.name == n.name) then v.names.map (fun x => if x.name == n.name then n else x) else v.names ++ [n] }

/-- Run labels; the first one that is not enabled is the verdict. -/
def runL (s : State) : List Label → Except String State
  | [] => .ok s
  | l :: ls => match step s l with
    | some s' => runL s' ls
    | none => .error (reprStr l)

def parseNat (s : String) : Nat := s.toNat?.getD 0

def helperBusy (n : NameSt) : Bool :=
  n.pending.isSome || (List.range n.st.next).any (fun g => (n.st.gen g).helper = .toSend || (n.st.gen g).helper = .sent)

def vStep (v : VSt) (line : String) : VSt × String :=
  match line.trimAscii.toString.splitOn " " with
  | c :: rest =>
    let v := if c != v.case then ({ case := c } : VSt) else v
    match rest with
    | ["topic", tid, "delete"] =>
      let t := parseNat tid
      -- names whose latest attach this topic served see their topic die
      let names := v.names.map (fun n =>
        if n.tid == some t && !n.st.tdead then
          match step n.st .topicDie with
          | some s' => { n with st := s' }
          | none => n
        else n)
      ({ v with deadTopics := t :: v.deadTopics, names := names }, "ok")
    | "sub" :: sid :: "new" :: _ :: name :: _ =>
      let sid := parseNat sid
      let n : NameSt := match v.names.find? (·.name == name) with
        | some n => n
        | none => { name := name, st := init true, sids := [] }
      if n.st.next != n.sids.length then (v, "p1:internal") else
      match runL n.st [.create] with
      | .ok s' => (setName v { n with st := s', sids := n.sids ++ [sid] }, "ok")
      | .error e => (v, "p1:create-while-registered " ++ name ++ " " ++ e)
    | ["topic", tid, "attach", sid] =>
      let sid := parseNat sid
      let t := parseNat tid
      match findBySid v sid with
      | none => (v, "p1:attach-of-unknown-subscription")
      | some n =>
        match genOf n sid with
        | none => (v, "p1:internal")
        | some g =>
          -- which topic does this generation live on?
          let pre0 : List Label :=
            if v.deadTopics.contains t then (if n.st.tdead then [] else [.topicDie])
            else (if n.st.tdead then [.retarget g] else [])
          let pre := pre0 ++ (if (n.st.gen g).att = .toSend then [Label.attachSend g] else [])
          match runL n.st pre with
          | .error e => (v, "p1:attach " ++ e)
          | .ok s1 =>
            if s1.mbT.head? != some (.attach g) then (v, "p1:attach-not-at-mailbox-head " ++ n.name)
            else match runL s1 [.topicTake] with
              | .ok s2 => (setName v { n with st := s2, tid := some t }, "ok")
              | .error e => (v, "p1:attach " ++ e)
    | ["topic", tid, "remove", who] =>
      -- removal is by name; the event shows which internal id was in the topic's map ("-" = none)
      let t := parseNat tid
      let busy := fun (n : NameSt) => n.tid == some t && helperBusy n
      let cand := if who == "-" then
          (match v.names.find? (fun n => busy n && n.st.topic.isNone) with
           | some n => some n
           | none => v.names.find? busy)
        else (findBySid v (parseNat who)).filter busy
      match cand with
      | none => (v, "p1:remove-without-delete")
      | some n =>
        -- a Delete whose `delete.begin` was seen turns out to go through the topic
        let pre1 : List Label := match n.pending with
          | some _ => [.actorDelete (n.st.dels.length - 1)]
          | none => []
        match runL n.st pre1 with
        | .error _ => (v, "p1:delete-overtook-attach " ++ n.name)
        | .ok s0 =>
          let g := ((List.range s0.next).find? (fun g => (s0.gen g).helper = .toSend || (s0.gen g).helper = .sent)).getD 0
          let pre := if (s0.gen g).helper = .toSend then [Label.helperSend g] else []
          match runL s0 pre with
          | .error e => (v, "p1:remove " ++ e)
          | .ok s1 =>
            if s1.mbT.head? != some (.remove g) then (v, "p1:remove-not-at-mailbox-head " ++ n.name)
            else
              let seen : Option Nat := if who == "-" then none else some (parseNat who)
              let model : Option Nat := s1.topic.bind (fun g' => n.sids[g']?)
              if seen != model then (v, "p1:topic-entry-differs " ++ n.name)
              else match runL s1 [.topicTake] with
                | .ok s2 => (setName v { n with st := s2, pending := none }, "ok")
                | .error e => (v, "p1:remove " ++ e)
    | ["sub", sid, "delete.begin"] =>
      let sid := parseNat sid
      match findBySid v sid with
      | none => (v, "p1:delete-of-unknown-subscription")
      | some n =>
        match genOf n sid with
        | none => (v, "p1:internal")
        | some g =>
          if n.st.mgr != some g then (v, "p1:delete-of-unregistered-generation " ++ n.name) else
          let pre := (if (n.st.gen g).att = .replied then [Label.attachFinish g] else []) ++ [Label.deleteStart]
          match runL n.st pre with
          | .error e => (v, "p1:delete.begin " ++ e)
          | .ok s1 =>
            -- the repaired Delete reaches the actor only after the attach has finished
            if (s1.gen g).att != .finished then (v, "p1:delete-overtook-attach " ++ n.name)
            else (setName v { n with st := s1, pending := some g }, "ok")
    | ["sub", sid, "delete.end"] =>
      let sid := parseNat sid
      match findBySid v sid with
      | none => (v, "p1:delete-of-unknown-subscription")
      | some n =>
        match genOf n sid with
        | none => (v, "p1:internal")
        | some g =>
          match n.pending with
          | some _ =>
            -- no detach went through the topic: only possible when the topic is gone
            match runL n.st [.actorDeleteDirect (n.st.dels.length - 1)] with
            | .ok s1 => if s1.mgr.isSome then (v, "p1:finish-did-not-unregister " ++ n.name) else (setName v { n with st := s1, pending := none }, "ok")
            | .error _ => (v, "p1:finish-before-detach " ++ n.name)
          | none =>
            match runL n.st [.helperFinish g] with
            | .ok s1 => (setName v { n with st := s1 }, "ok")
            | .error _ => (v, "p1:finish-before-detach " ++ n.name)
    | _ => (v, "ok")
  | [] => (v, "ok")

end Driver.P1V
