import Deltio.Proto.Attach
/-
  Trace refinement for slice P1: the topic / subscription life-cycle events of a harness run, per
  subscription NAME, must be the visible projection of a run of `Deltio.P1` (repaired protocol).
  Hidden steps (mailbox sends, `mark_attach_finished`, the handle lookup of a Delete) are inserted
  lazily, right before the visible step that needs them.
-/
namespace Driver.P1V
open Deltio.P1

structure NameSt where
  name : String
  st : State
  sids : List Nat            -- internal ids of this name's generations, in creation order (index = generation)
  tid : Option Nat := none   -- topic (internal id) of the latest attach of this name
  off : Bool := false        -- that topic was deleted while holding the entry: the slice assumes a live topic

structure VSt where
  case : String := ""
  names : List NameSt := []
  deadTopics : List Nat := []   -- internal ids of deleted topics

def genOf (n : NameSt) (sid : Nat) : Option Nat := n.sids.idxOf? sid

def findBySid (v : VSt) (sid : Nat) : Option NameSt := v.names.find? (fun n => n.sids.contains sid)

def setName (v : VSt) (n : NameSt) : VSt :=
  { v with names := if v.names.any (·.name == n.name) then v.names.map (fun x => if x.name == n.name then n else x) else v.names ++ [n] }

/-- Run labels; the first one that is not enabled is the verdict. -/
def runL (s : State) : List Label → Except String State
  | [] => .ok s
  | l :: ls => match step s l with
    | some s' => runL s' ls
    | none => .error (reprStr l)

def parseNat (s : String) : Nat := s.toNat?.getD 0

def vStep (v : VSt) (line : String) : VSt × String :=
  match line.trimAscii.toString.splitOn " " with
  | c :: rest =>
    let v := if c != v.case then ({ case := c } : VSt) else v
    match rest with
    | ["topic", tid, "delete"] =>
      -- the deleted topic's map is cleared: names whose entry it held leave the slice
      ({ v with deadTopics := parseNat tid :: v.deadTopics,
                names := v.names.map (fun n => if n.tid == some (parseNat tid) && n.st.topic.isSome then { n with off := true } else n) }, "ok")
    | "sub" :: sid :: "new" :: _ :: name :: _ =>
      let sid := parseNat sid
      let n : NameSt := match v.names.find? (·.name == name) with
        | some n => n
        | none => { name := name, st := init true, sids := [] }
      -- the generation number the model will give it
      if n.off then (setName v { n with sids := n.sids ++ [sid] }, "ok") else   -- remembered, not validated
      if n.st.next != n.sids.length then (v, "p1:internal") else
      match runL n.st [.create] with
      | .ok s' => (setName v { n with st := s', sids := n.sids ++ [sid] }, "ok")
      | .error e => (v, "p1:create-while-registered " ++ name ++ " " ++ e)
    | ["topic", tid, "attach", sid] =>
      let sid := parseNat sid
      match findBySid v sid with
      | none => (v, "p1:attach-of-unknown-subscription")
      | some n =>
        if n.off then (v, "ok") else
        -- an attach served by an already deleted topic's actor: the name leaves the slice
        if v.deadTopics.contains (parseNat tid) then (setName v { n with off := true, tid := some (parseNat tid) }, "ok") else
        let n := { n with tid := some (parseNat tid) }
        match genOf n sid with
        | none => (v, "p1:internal")
        | some g =>
          let pre := if (n.st.gen g).att = .toSend then [Label.attachSend g] else []
          match runL n.st pre with
          | .error e => (v, "p1:attach " ++ e)
          | .ok s1 =>
            if s1.mbT.head? != some (.attach g) then (v, "p1:attach-not-at-mailbox-head " ++ n.name)
            else match runL s1 [.topicTake] with
              | .ok s2 => (setName v { n with st := s2 }, "ok")
              | .error e => (v, "p1:attach " ++ e)
    | ["topic", tid, "remove", who] =>
      -- removal is by name; the event shows which internal id was in the topic's map ("-" = none).
      -- Which name? the one whose helper is about to send / has sent the remove.
      let busy := fun (n : NameSt) => !n.off && n.tid == some (parseNat tid) && (List.range n.st.next).any (fun g => (n.st.gen g).helper = .toSend || (n.st.gen g).helper = .sent)
      let cand := if who == "-" then
          (match v.names.find? (fun n => busy n && n.st.topic.isNone) with
           | some n => some n
           | none => v.names.find? busy)
        else (findBySid v (parseNat who)).filter busy
      let offOwner := if who == "-" then v.names.any (·.off) else ((findBySid v (parseNat who)).map (·.off)).getD false
      match cand with
      | none => if offOwner then (v, "ok") else (v, "p1:remove-without-delete")
      | some n =>
        let g := ((List.range n.st.next).find? (fun g => (n.st.gen g).helper = .toSend || (n.st.gen g).helper = .sent)).getD 0
        let pre := if (n.st.gen g).helper = .toSend then [Label.helperSend g] else []
        match runL n.st pre with
        | .error e => (v, "p1:remove " ++ e)
        | .ok s1 =>
          if s1.mbT.head? != some (.remove g) then (v, "p1:remove-not-at-mailbox-head " ++ n.name)
          else
            let seen : Option Nat := if who == "-" then none else some (parseNat who)
            let model : Option Nat := s1.topic.bind (fun g' => n.sids[g']?)
            if seen != model then (v, "p1:topic-entry-differs " ++ n.name)
            else match runL s1 [.topicTake] with
              | .ok s2 => (setName v { n with st := s2 }, "ok")
              | .error e => (v, "p1:remove " ++ e)
    | ["sub", sid, "delete.begin"] =>
      let sid := parseNat sid
      match findBySid v sid with
      | none => (v, "p1:delete-of-unknown-subscription")
      | some n =>
        if n.off then (v, "ok") else
        match genOf n sid with
        | none => (v, "p1:internal")
        | some g =>
          if n.st.mgr != some g then (v, "p1:delete-of-unregistered-generation " ++ n.name) else
          let pre := (if (n.st.gen g).att = .replied then [Label.attachFinish g] else []) ++ [Label.deleteStart]
          match runL n.st pre with
          | .error e => (v, "p1:delete.begin " ++ e)
          | .ok s1 =>
            match runL s1 [.actorDelete (s1.dels.length - 1)] with
            | .ok s2 => (setName v { n with st := s2 }, "ok")
            | .error _ => (v, "p1:delete-overtook-attach " ++ n.name)
    | ["sub", sid, "delete.end"] =>
      let sid := parseNat sid
      match findBySid v sid with
      | none => (v, "p1:delete-of-unknown-subscription")
      | some n =>
        if n.off then (v, "ok") else
        match genOf n sid with
        | none => (v, "p1:internal")
        | some g =>
          match runL n.st [.helperFinish g] with
          | .ok s1 => (setName v { n with st := s1 }, "ok")
          | .error _ => (v, "p1:finish-before-detach " ++ n.name)
    | _ => (v, "ok")
  | [] => (v, "ok")

end Driver.P1V
