//! `seq` mode: sequential histories through the real gRPC surface, on one current-thread
//! runtime with a paused clock. One op per input line, one answer per output line.
use crate::util::*;
use deltio::pubsub_proto::publisher_client::PublisherClient;
use deltio::pubsub_proto::push_config::{AuthenticationMethod, OidcToken};
use deltio::pubsub_proto::subscriber_client::SubscriberClient;
use deltio::pubsub_proto::*;
use deltio::subscriptions::SubscriptionName;
use deltio::Deltio;
use hyper_util::rt::TokioIo;
use std::collections::HashMap;
use std::sync::atomic::{AtomicBool, Ordering};
use std::sync::Arc;
use std::time::Duration;
use tokio::sync::mpsc;
use tokio::time::Instant;
use tonic::transport::{Channel, Endpoint, Uri};
use tonic::{Code, Status};

pub static PANICKED: AtomicBool = AtomicBool::new(false);

const SETTLE_YIELDS: usize = 48;
const HANG_LIMIT: Duration = Duration::from_secs(3600);

pub struct StreamState {
    tx: Option<mpsc::UnboundedSender<StreamingPullRequest>>,
    rx: Option<tonic::Streaming<StreamingPullResponse>>,
    ended: bool,
}

pub struct Env {
    pub deltio: Arc<Deltio>,
    pub publisher: PublisherClient<Channel>,
    pub subscriber: SubscriberClient<Channel>,
    pub server: Option<tokio::task::JoinHandle<()>>,
    pub streams: HashMap<u32, StreamState>,
    pub base: Instant,
    pub base_us: u64,
    /// ack ids returned by this client's most recent successful Pull (for `acklast`)
    pub last_acks: Vec<String>,
}

pub fn now_us() -> u64 {
    Instant::now().duration_since(deltio::verif::epoch()).as_micros() as u64
}

/// Moves the paused clock to `target` (µs since the epoch). Timers are only ever crossed while
/// the clock is on a whole millisecond, so each one fires exactly at its own 1 ms tick.
pub async fn goto(target: u64) {
    let cur = now_us();
    if target <= cur {
        settle().await;
        return;
    }
    let ceil = (cur + 999) / 1000 * 1000;
    if target < ceil {
        tokio::time::advance(Duration::from_micros(target - cur)).await;
        settle().await;
        return;
    }
    if ceil > cur {
        tokio::time::advance(Duration::from_micros(ceil - cur)).await;
        settle().await;
    }
    let floor_ms = target / 1000 * 1000;
    if floor_ms > ceil {
        tokio::time::sleep_until(deltio::verif::epoch() + Duration::from_micros(floor_ms)).await;
        settle().await;
    }
    let cur2 = now_us();
    if target > cur2 {
        tokio::time::advance(Duration::from_micros(target - cur2)).await;
    }
    settle().await;
}

/// Runs every other task until none of them is runnable (the run queue of the current-thread
/// scheduler is empty twice in a row after a yield): the server is quiescent at this virtual instant.
thread_local! {
    /// Inside concurrent tasks an op must not wait for global quiescence (the tasks would wait
    /// for each other); only the explicit `probe` op does.
    pub static NO_SETTLE: std::cell::Cell<bool> = const { std::cell::Cell::new(false) };
}

pub async fn settle() {
    if NO_SETTLE.with(|c| c.get()) {
        tokio::task::yield_now().await;
        return;
    }
    settle_force().await
}

pub async fn settle_force() {
    let metrics = tokio::runtime::Handle::current().metrics();
    let mut calm = 0;
    for _ in 0..2_000_000 {
        tokio::task::yield_now().await;
        if metrics.worker_local_queue_depth(0) == 0 && metrics.injection_queue_depth() == 0 {
            calm += 1;
            if calm >= 3 {
                return;
            }
        } else {
            calm = 0;
        }
    }
}

pub async fn connect(deltio: &Deltio) -> (PublisherClient<Channel>, SubscriberClient<Channel>, tokio::task::JoinHandle<()>) {
    let (client_io, server_io) = tokio::io::duplex(1 << 22);
    let router = deltio.server_builder();
    let incoming = tokio_stream::StreamExt::chain(
        tokio_stream::iter(vec![Ok::<_, std::io::Error>(server_io)]),
        tokio_stream::pending(),
    );
    let server = tokio::spawn(async move {
        let _ = router.serve_with_incoming(incoming).await;
    });
    let mut client_io = Some(client_io);
    let channel = Endpoint::try_from("http://[::]:50051")
        .unwrap()
        .connect_with_connector(tower::service_fn(move |_: Uri| {
            let io = client_io.take();
            async move {
                match io {
                    Some(io) => Ok(TokioIo::new(io)),
                    None => Err(std::io::Error::new(
                        std::io::ErrorKind::Other,
                        "in-memory connection already taken",
                    )),
                }
            }
        }))
        .await
        .unwrap();
    let publisher = PublisherClient::new(channel.clone()).max_decoding_message_size(1 << 28);
    let subscriber = SubscriberClient::new(channel)
        .max_decoding_message_size(1 << 28)
        .max_encoding_message_size(1 << 28);
    (publisher, subscriber, server)
}

impl Env {
    pub async fn new() -> Env {
        let deltio = Arc::new(Deltio::new());
        let (publisher, subscriber, server) = connect(&deltio).await;
        Env {
            deltio,
            publisher,
            subscriber,
            server: Some(server),
            streams: HashMap::new(),
            base: Instant::now(),
            base_us: now_us(),
            last_acks: Vec::new(),
        }
    }

    /// A second client of the same server (own streams), for a concurrent task.
    pub fn fork(&self) -> Env {
        Env {
            deltio: Arc::clone(&self.deltio),
            publisher: self.publisher.clone(),
            subscriber: self.subscriber.clone(),
            server: None,
            streams: HashMap::new(),
            base: self.base,
            base_us: self.base_us,
            last_acks: Vec::new(),
        }
    }

    /// Deletes every subscription (so that their actors exit) and stops the server.
    pub async fn teardown(mut self) {
        self.streams.clear();
        let (_, sm, _) = self.deltio.verif_parts();
        let page = sm.list_subscriptions_in_project_all();
        for s in page {
            let _ = tokio::time::timeout(Duration::from_secs(1), s.delete()).await;
        }
        if let Some(s) = self.server.take() {
            s.abort();
        }
        settle().await;
    }
}

trait ListAll {
    fn list_subscriptions_in_project_all(&self) -> Vec<Arc<deltio::subscriptions::Subscription>>;
}
impl ListAll for deltio::subscriptions::subscription_manager::SubscriptionManager {
    fn list_subscriptions_in_project_all(&self) -> Vec<Arc<deltio::subscriptions::Subscription>> {
        // There is no "all projects" listing; the harness remembers the projects it used.
        let mut out = Vec::new();
        for p in PROJECTS.with(|p| p.borrow().clone()) {
            let mut off = None;
            loop {
                let page = self
                    .list_subscriptions_in_project(p.clone().into_boxed_str(), deltio::paging::Paging::new(1000, off))
                    .unwrap();
                if page.subscriptions.is_empty() {
                    break;
                }
                out.extend(page.subscriptions.iter().cloned());
                off = page.offset;
                if off.is_none() {
                    break;
                }
            }
        }
        out
    }
}

thread_local! {
    static PROJECTS: std::cell::RefCell<Vec<String>> = const { std::cell::RefCell::new(Vec::new()) };
}

fn remember_project(sub_name: &str) {
    if let Some(n) = SubscriptionName::try_parse(sub_name) {
        let p = n.project_id().to_string();
        PROJECTS.with(|ps| {
            let mut ps = ps.borrow_mut();
            if !ps.contains(&p) {
                ps.push(p);
            }
        });
    }
}

fn st(s: &Status) -> String {
    code_name(s.code()).to_string()
}

fn push_out(p: &Option<PushConfig>) -> String {
    match p {
        None => "-".into(),
        Some(p) => {
            let oidc = match &p.authentication_method {
                None => "-".to_string(),
                Some(AuthenticationMethod::OidcToken(t)) => format!(
                    "{}~{}",
                    hex(t.audience.as_bytes()),
                    hex(t.service_account_email.as_bytes())
                ),
            };
            format!(
                "{}|{}|{}",
                hex(p.push_endpoint.as_bytes()),
                attrs_out(&p.attributes),
                oidc
            )
        }
    }
}

/// push spec in an op: `-` or `endpointhex|attrs|oidc`
fn push_in(s: &str) -> Option<PushConfig> {
    if s == "-" {
        return None;
    }
    let parts = s.split('|').collect::<Vec<_>>();
    let endpoint = unhex_str(parts[0]).unwrap();
    let attributes = if parts.len() > 1 { attrs_in(parts[1]) } else { HashMap::new() };
    let authentication_method = if parts.len() > 2 && parts[2] != "-" {
        let mut it = parts[2].split('~');
        let audience = unhex_str(it.next().unwrap()).unwrap();
        let service_account_email = unhex_str(it.next().unwrap_or("-")).unwrap();
        Some(AuthenticationMethod::OidcToken(OidcToken {
            audience,
            service_account_email,
        }))
    } else {
        None
    };
    Some(PushConfig {
        push_endpoint: endpoint,
        attributes,
        authentication_method,
    })
}

fn sub_out(s: &Subscription) -> String {
    format!(
        "{}/{}/{}/{}",
        hex(s.name.as_bytes()),
        hex(s.topic.as_bytes()),
        s.ack_deadline_seconds,
        push_out(&s.push_config)
    )
}

pub fn received_out(ms: &[ReceivedMessage]) -> String {
    let items = ms
        .iter()
        .map(|m| {
            let pm = m.message.clone().unwrap_or_default();
            format!(
                "{}:{}:{}:{}",
                hex(m.ack_id.as_bytes()),
                hex(pm.message_id.as_bytes()),
                hex(&pm.data),
                attrs_out(&pm.attributes)
            )
        })
        .collect::<Vec<_>>();
    join(&items, ",")
}

/// Side channel for the oracles: publish time per delivered message (not compared with the
/// model, which has no wall clock).
pub fn received_times(ms: &[ReceivedMessage]) -> String {
    let items = ms
        .iter()
        .map(|m| {
            let pm = m.message.clone().unwrap_or_default();
            let t = pm.publish_time.unwrap_or_default();
            format!("{}@{}.{}", pm.message_id, t.seconds, t.nanos)
        })
        .collect::<Vec<_>>();
    join(&items, ",")
}

fn msgs_in(s: &str) -> Vec<PubsubMessage> {
    list(s, ',')
        .iter()
        .map(|m| {
            let mut it = m.splitn(2, ';');
            let data = unhex(it.next().unwrap());
            let attributes = attrs_in(it.next().unwrap_or("-"));
            // `message_id` and `publish_time` are output-only fields: a client may send anything in them (e.g. a
            // relay republishing a received message verbatim) and the server must assign its own. A third of
            // the messages (chosen by their payload) carry the id of the first message a topic issues.
            let relay = data.iter().map(|b| *b as u32).sum::<u32>() % 3 == 0;
            PubsubMessage {
                data,
                attributes,
                message_id: if relay { "8589934593".to_string() } else { String::new() },
                publish_time: if relay { Some(prost_types::Timestamp { seconds: 1_000_000_000, nanos: 7 }) } else { None },
                ordering_key: String::new(),
            }
        })
        .collect()
}

fn strs_in(s: &str) -> Option<Vec<String>> {
    let mut out = Vec::new();
    for h in list(s, ',') {
        out.push(unhex_str(h)?);
    }
    Some(out)
}

async fn guarded<T>(fut: impl std::future::Future<Output = Result<T, Status>>) -> Result<T, String> {
    match tokio::time::timeout(HANG_LIMIT, fut).await {
        Err(_) => Err("HANG".to_string()),
        Ok(Err(s)) => Err(st(&s)),
        Ok(Ok(v)) => Ok(v),
    }
}

/// Second output column: information for the implementation-side oracles only.
pub struct Answer {
    pub main: String,
    pub side: String,
}

fn ans(main: String) -> Answer {
    Answer {
        main,
        side: String::new(),
    }
}

pub async fn step(env: &mut Env, line: &str) -> Answer {
    let toks = line.split_whitespace().collect::<Vec<_>>();
    if toks.is_empty() {
        return ans("bad-op".into());
    }
    macro_rules! s {
        ($i:expr) => {
            match unhex_str(toks[$i]) {
                Some(s) => s,
                None => return ans("skip".into()),
            }
        };
    }
    match toks[0] {
        "adv" => {
            let d: u64 = toks[1].parse().unwrap();
            goto(now_us() + d).await;
            ans("ok".into())
        }
        "clock" => {
            let cur = Instant::now().duration_since(env.base).as_micros();
            ans(format!("{}", cur))
        }
        "ctopic" => {
            let name = s!(1);
            let r = guarded(env.publisher.create_topic(Topic {
                name,
                ..Default::default()
            }))
            .await;
            ans(match r {
                Ok(t) => format!("ok {}", hex(t.get_ref().name.as_bytes())),
                Err(e) => e,
            })
        }
        "gtopic" => {
            let topic = s!(1);
            let r = guarded(env.publisher.get_topic(GetTopicRequest { topic })).await;
            ans(match r {
                Ok(t) => format!("ok {}", hex(t.get_ref().name.as_bytes())),
                Err(e) => e,
            })
        }
        "dtopic" => {
            let topic = s!(1);
            let r = guarded(env.publisher.delete_topic(DeleteTopicRequest { topic })).await;
            settle().await;
            ans(match r {
                Ok(_) => "ok".into(),
                Err(e) => e,
            })
        }
        "ltopics" => {
            let project = s!(1);
            let page_size: i32 = toks[2].parse().unwrap();
            let page_token = s!(3);
            let r = guarded(env.publisher.list_topics(ListTopicsRequest {
                project,
                page_size,
                page_token,
            }))
            .await;
            ans(match r {
                Ok(t) => {
                    let t = t.into_inner();
                    let names = t.topics.iter().map(|t| hex(t.name.as_bytes())).collect::<Vec<_>>();
                    format!("ok {} {}", join(&names, ","), hex(t.next_page_token.as_bytes()))
                }
                Err(e) => e,
            })
        }
        "ltsubs" => {
            let topic = s!(1);
            let page_size: i32 = toks[2].parse().unwrap();
            let page_token = s!(3);
            let r = guarded(env.publisher.list_topic_subscriptions(ListTopicSubscriptionsRequest {
                topic,
                page_size,
                page_token,
            }))
            .await;
            ans(match r {
                Ok(t) => {
                    let t = t.into_inner();
                    let names = t.subscriptions.iter().map(|t| hex(t.as_bytes())).collect::<Vec<_>>();
                    format!("ok {} {}", join(&names, ","), hex(t.next_page_token.as_bytes()))
                }
                Err(e) => e,
            })
        }
        // wtopics|wsubs|wtsubs <arg> <size>: the whole walk, pages separated by " | "
        "wtopics" | "wsubs" | "wtsubs" => {
            let arg = s!(1);
            let page_size: i32 = toks[2].parse().unwrap();
            let mut token = String::new();
            let mut pages = Vec::new();
            for _ in 0..100_000 {
                let (items, next): (Vec<String>, String) = match toks[0] {
                    "wtopics" => match guarded(env.publisher.list_topics(ListTopicsRequest {
                        project: arg.clone(), page_size, page_token: token.clone() })).await {
                        Ok(r) => { let r = r.into_inner(); (r.topics.iter().map(|t| hex(t.name.as_bytes())).collect(), r.next_page_token) }
                        Err(e) => { pages.push(e); break; }
                    },
                    "wsubs" => match guarded(env.subscriber.list_subscriptions(ListSubscriptionsRequest {
                        project: arg.clone(), page_size, page_token: token.clone() })).await {
                        Ok(r) => { let r = r.into_inner(); (r.subscriptions.iter().map(sub_out).collect(), r.next_page_token) }
                        Err(e) => { pages.push(e); break; }
                    },
                    _ => match guarded(env.publisher.list_topic_subscriptions(ListTopicSubscriptionsRequest {
                        topic: arg.clone(), page_size, page_token: token.clone() })).await {
                        Ok(r) => { let r = r.into_inner(); (r.subscriptions.iter().map(|t| hex(t.as_bytes())).collect(), r.next_page_token) }
                        Err(e) => { pages.push(e); break; }
                    },
                };
                pages.push(format!("ok {}", join(&items, ",")));
                if next.is_empty() {
                    break;
                }
                token = next;
            }
            ans(pages.join(" | "))
        }
        "csub" => {
            let name = s!(1);
            let topic = s!(2);
            let ack_deadline_seconds: i32 = toks[3].parse().unwrap();
            let push_config = push_in(toks[4]);
            remember_project(&name);
            let r = guarded(env.subscriber.create_subscription(Subscription {
                name,
                topic,
                ack_deadline_seconds,
                push_config,
                ..Default::default()
            }))
            .await;
            ans(match r {
                Ok(s) => format!("ok {}", sub_out(s.get_ref())),
                Err(e) => e,
            })
        }
        "gsub" => {
            let subscription = s!(1);
            let r = guarded(env.subscriber.get_subscription(GetSubscriptionRequest { subscription })).await;
            ans(match r {
                Ok(s) => format!("ok {}", sub_out(s.get_ref())),
                Err(e) => e,
            })
        }
        "lsubs" => {
            let project = s!(1);
            let page_size: i32 = toks[2].parse().unwrap();
            let page_token = s!(3);
            let r = guarded(env.subscriber.list_subscriptions(ListSubscriptionsRequest {
                project,
                page_size,
                page_token,
            }))
            .await;
            ans(match r {
                Ok(t) => {
                    let t = t.into_inner();
                    let subs = t.subscriptions.iter().map(sub_out).collect::<Vec<_>>();
                    format!("ok {} {}", join(&subs, ","), hex(t.next_page_token.as_bytes()))
                }
                Err(e) => e,
            })
        }
        "dsub" => {
            let subscription = s!(1);
            let r = guarded(env.subscriber.delete_subscription(DeleteSubscriptionRequest { subscription })).await;
            settle().await;
            ans(match r {
                Ok(_) => "ok".into(),
                Err(e) => e,
            })
        }
        "pub" => {
            let topic = s!(1);
            let messages = msgs_in(toks[2]);
            let r = guarded(env.publisher.publish(PublishRequest { topic, messages })).await;
            settle().await;
            ans(match r {
                Ok(p) => {
                    let ids = p.get_ref().message_ids.iter().map(|i| hex(i.as_bytes())).collect::<Vec<_>>();
                    format!("ok {}", join(&ids, ","))
                }
                Err(e) => e,
            })
        }
        "pull" => {
            let subscription = s!(1);
            let max_messages: i32 = toks[2].parse().unwrap();
            let return_immediately = toks[3] == "1";
            #[allow(deprecated)]
            let r = guarded(env.subscriber.pull(PullRequest {
                subscription,
                max_messages,
                return_immediately,
            }))
            .await;
            settle().await;
            match r {
                Ok(p) => {
                    env.last_acks = p.get_ref().received_messages.iter().map(|m| m.ack_id.clone()).collect();
                    Answer {
                        main: format!("ok {}", received_out(&p.get_ref().received_messages)),
                        side: received_times(&p.get_ref().received_messages),
                    }
                }
                Err(e) => ans(e),
            }
        }
        // acklast <sub>: acknowledge exactly the ack ids this client's last Pull returned (what a client does);
        // the answer names them: `ok <hex ack id>,…`
        "acklast" => {
            let subscription = s!(1);
            let ack_ids = env.last_acks.clone();
            let named = join(&ack_ids.iter().map(|a| hex(a.as_bytes())).collect::<Vec<_>>(), ",");
            let r = guarded(env.subscriber.acknowledge(AcknowledgeRequest { subscription, ack_ids })).await;
            settle().await;
            ans(match r {
                Ok(_) => format!("ok {}", named),
                Err(e) => e,
            })
        }
        "ack" => {
            let subscription = s!(1);
            let ack_ids = match strs_in(toks[2]) {
                Some(v) => v,
                None => return ans("skip".into()),
            };
            let r = guarded(env.subscriber.acknowledge(AcknowledgeRequest { subscription, ack_ids })).await;
            settle().await;
            ans(match r {
                Ok(_) => "ok".into(),
                Err(e) => e,
            })
        }
        "mod" => {
            let subscription = s!(1);
            let ack_deadline_seconds: i32 = toks[2].parse().unwrap();
            let ack_ids = match strs_in(toks[3]) {
                Some(v) => v,
                None => return ans("skip".into()),
            };
            let r = guarded(env.subscriber.modify_ack_deadline(ModifyAckDeadlineRequest {
                subscription,
                ack_ids,
                ack_deadline_seconds,
            }))
            .await;
            settle().await;
            ans(match r {
                Ok(_) => "ok".into(),
                Err(e) => e,
            })
        }
        // sopen <k> <sub> <max_msgs i32> <max_bytes i64>
        "sopen" => {
            let k: u32 = toks[1].parse().unwrap();
            let subscription = s!(2);
            let max_outstanding_messages: i64 = toks[3].parse().unwrap();
            let max_outstanding_bytes: i64 = toks[4].parse().unwrap();
            let (tx, rx) = mpsc::unbounded_channel::<StreamingPullRequest>();
            let _ = tx.send(StreamingPullRequest {
                subscription,
                max_outstanding_messages,
                max_outstanding_bytes,
                stream_ack_deadline_seconds: 10,
                ..Default::default()
            });
            let req_stream = tokio_stream::wrappers::UnboundedReceiverStream::new(rx);
            let r = guarded(env.subscriber.streaming_pull(req_stream)).await;
            settle().await;
            match r {
                Ok(resp) => {
                    env.streams.insert(
                        k,
                        StreamState {
                            tx: Some(tx),
                            rx: Some(resp.into_inner()),
                            ended: false,
                        },
                    );
                    ans("ok".into())
                }
                Err(e) => ans(e),
            }
        }
        // ssend <k> <sub|-> <ackids> <modids> <modsecs> <max_msgs> <max_bytes>
        "ssend" => {
            let k: u32 = toks[1].parse().unwrap();
            let subscription = s!(2);
            let ack_ids = match strs_in(toks[3]) {
                Some(v) => v,
                None => return ans("skip".into()),
            };
            let modify_deadline_ack_ids = match strs_in(toks[4]) {
                Some(v) => v,
                None => return ans("skip".into()),
            };
            let modify_deadline_seconds = list(toks[5], ',').iter().map(|s| s.parse::<i32>().unwrap()).collect::<Vec<_>>();
            let max_outstanding_messages: i64 = toks[6].parse().unwrap();
            let max_outstanding_bytes: i64 = toks[7].parse().unwrap();
            let res = match env.streams.get(&k) {
                Some(StreamState { tx: Some(tx), .. }) => {
                    let r = tx.send(StreamingPullRequest {
                        subscription,
                        ack_ids,
                        modify_deadline_ack_ids,
                        modify_deadline_seconds,
                        max_outstanding_messages,
                        max_outstanding_bytes,
                        ..Default::default()
                    });
                    if r.is_ok() { "ok" } else { "closed" }
                }
                Some(_) => "closed",
                None => "nostream",
            };
            settle().await;
            ans(res.into())
        }
        // sread <k>: everything the stream has produced so far
        "sread" => {
            let k: u32 = toks[1].parse().unwrap();
            let mut items = Vec::new();
            let mut side = Vec::new();
            match env.streams.get_mut(&k) {
                None => return ans("nostream".into()),
                Some(state) => {
                    if let Some(rx) = state.rx.as_mut() {
                        let mut idle = 0;
                        settle().await;
                        while idle < SETTLE_YIELDS && !state.ended {
                            let polled = futures::poll!(std::pin::pin!(tokio_stream::StreamExt::next(rx)));
                            match polled {
                                std::task::Poll::Pending => {
                                    idle += 1;
                                    tokio::task::yield_now().await;
                                }
                                std::task::Poll::Ready(None) => {
                                    items.push("end:ok".to_string());
                                    state.ended = true;
                                }
                                std::task::Poll::Ready(Some(Err(s))) => {
                                    items.push(format!("end:{}", st(&s)));
                                    state.ended = true;
                                }
                                std::task::Poll::Ready(Some(Ok(resp))) => {
                                    idle = 0;
                                    items.push(format!("msgs:{}", received_out(&resp.received_messages)));
                                    side.push(received_times(&resp.received_messages));
                                }
                            }
                        }
                    }
                    if !state.ended {
                        items.push("open".to_string());
                    }
                }
            }
            Answer {
                main: items.join(" "),
                side: side.join(" "),
            }
        }
        // sclose <k>: close the request half
        "sclose" => {
            let k: u32 = toks[1].parse().unwrap();
            let r = match env.streams.get_mut(&k) {
                None => "nostream",
                Some(state) => {
                    state.tx = None;
                    "ok"
                }
            };
            settle().await;
            ans(r.into())
        }
        // sdrop <k>: drop the whole call (client cancels)
        "sdrop" => {
            let k: u32 = toks[1].parse().unwrap();
            let r = if env.streams.remove(&k).is_some() { "ok" } else { "nostream" };
            settle().await;
            ans(r.into())
        }
        "stats" | "stats1" => {
            let single = toks[0] == "stats1";
            let name = s!(1);
            let (_, sm, _) = env.deltio.verif_parts();
            let r = match SubscriptionName::try_parse(&name) {
                None => "none".to_string(),
                Some(n) => match sm.get_subscription(&n) {
                    Err(_) => "none".to_string(),
                    Ok(sub) => {
                        // GetStats is a mailbox turn: after it the actor takes whatever has expired by
                        // now. Ask twice and report the second answer, i.e. the state after that.
                        // (`stats1`, used by the concurrent `probe`, asks once: the probe must see the
                        // state before its own request makes the actor pass a wake-up on.)
                        if !single {
                            let _ = tokio::time::timeout(HANG_LIMIT, sub.get_stats()).await;
                            settle().await;
                        }
                        match tokio::time::timeout(HANG_LIMIT, sub.get_stats()).await {
                        Err(_) => "HANG".to_string(),
                        Ok(Err(_)) => "closed".to_string(),
                        Ok(Ok(s)) => format!(
                            "{} {} {}",
                            s.outstanding_messages_count,
                            s.backlog_messages_count,
                            hex(s.topic_name.to_string().as_bytes())
                        ),
                    }},
                },
            };
            ans(r)
        }
        // registry: names in the push registry (sorted)
        "registry" => {
            let (_, _, reg) = env.deltio.verif_parts();
            let mut names = reg
                .entries()
                .iter()
                .map(|(n, c)| format!("{}>{}", hex(n.to_string().as_bytes()), hex(c.endpoint.as_bytes())))
                .collect::<Vec<_>>();
            names.sort();
            ans(join(&names, ","))
        }
        // unimplemented RPCs: status only
        "unimpl" => {
            let which = toks[1];
            let code: Code = match which {
                "update_topic" => env.publisher.update_topic(UpdateTopicRequest::default()).await.err().map(|e| e.code()).unwrap_or(Code::Ok),
                "list_topic_snapshots" => env.publisher.list_topic_snapshots(ListTopicSnapshotsRequest::default()).await.err().map(|e| e.code()).unwrap_or(Code::Ok),
                "detach_subscription" => env.publisher.detach_subscription(DetachSubscriptionRequest::default()).await.err().map(|e| e.code()).unwrap_or(Code::Ok),
                "update_subscription" => env.subscriber.update_subscription(UpdateSubscriptionRequest::default()).await.err().map(|e| e.code()).unwrap_or(Code::Ok),
                "modify_push_config" => env.subscriber.modify_push_config(ModifyPushConfigRequest::default()).await.err().map(|e| e.code()).unwrap_or(Code::Ok),
                "get_snapshot" => env.subscriber.get_snapshot(GetSnapshotRequest::default()).await.err().map(|e| e.code()).unwrap_or(Code::Ok),
                "list_snapshots" => env.subscriber.list_snapshots(ListSnapshotsRequest::default()).await.err().map(|e| e.code()).unwrap_or(Code::Ok),
                "create_snapshot" => env.subscriber.create_snapshot(CreateSnapshotRequest::default()).await.err().map(|e| e.code()).unwrap_or(Code::Ok),
                "update_snapshot" => env.subscriber.update_snapshot(UpdateSnapshotRequest::default()).await.err().map(|e| e.code()).unwrap_or(Code::Ok),
                "delete_snapshot" => env.subscriber.delete_snapshot(DeleteSnapshotRequest::default()).await.err().map(|e| e.code()).unwrap_or(Code::Ok),
                "seek" => env.subscriber.seek(SeekRequest::default()).await.err().map(|e| e.code()).unwrap_or(Code::Ok),
                _ => return ans("bad-op".into()),
            };
            ans(code_name(code).to_string())
        }
        _ => ans("bad-op".into()),
    }
}

/// Runs a whole ops file. `new` lines start a fresh server; every other line is a step.
pub async fn run(input: &str) -> (Vec<(String, String)>, Vec<String>) {
    let _ = deltio::verif::epoch();
    let mut out = Vec::new();
    let mut env: Option<Env> = None;
    let mut trace: Vec<String> = Vec::new();
    let mut case_no = 0usize;
    for line in input.lines() {
        let line = line.trim();
        if line.is_empty() || line.starts_with('#') {
            out.push((String::new(), String::new()));
            continue;
        }
        if line == "new" {
            if let Some(e) = env.take() {
                e.teardown().await;
                for l in deltio::verif::take_log() {
                    trace.push(format!("{} {}", case_no, l));
                }
            }
            case_no += 1;
            // Align the clock to the next whole second so that every case starts at phase 0
            // of the 100 ms rounding grid and of the 1 ms timer grid.
            let next = (now_us() / 1_000_000 + 1) * 1_000_000;
            goto(next).await;
            if now_us() != next {
                out.push((format!("CLOCK-MISALIGNED {} {}", now_us(), next), String::new()));
                env = Some(Env::new().await);
                continue;
            }
            deltio::verif::set_logging(true);
            let _ = deltio::verif::take_log();
            trace.push(format!("{} case {}", case_no, now_us()));
            env = Some(Env::new().await);
            PANICKED.store(false, Ordering::SeqCst);
            out.push(("ok".into(), String::new()));
            continue;
        }
        match env.as_mut() {
            None => out.push(("no-env".into(), String::new())),
            Some(e) => {
                let a = step(e, line).await;
                let side = format!("{} {}", now_us() - e.base_us, a.side);
                if PANICKED.swap(false, Ordering::SeqCst) {
                    out.push((format!("PANIC {}", a.main), side));
                } else {
                    out.push((a.main, side));
                }
            }
        }
    }
    if let Some(e) = env.take() {
        e.teardown().await;
        for l in deltio::verif::take_log() {
            trace.push(format!("{} {}", case_no, l));
        }
    }
    deltio::verif::set_logging(false);
    (out, trace)
}
