//! dvh — deltio verification harness. Drives the real implementation (path dependency on
//! /repo, hooks enabled) with the same line protocol the Lean model driver reads.
mod conc;
mod pure;
mod push;
mod seq;
mod util;

use std::io::Read;

fn read_input(path: &str) -> String {
    let mut s = String::new();
    if path == "-" {
        std::io::stdin().read_to_string(&mut s).unwrap();
    } else {
        s = std::fs::read_to_string(path).unwrap();
    }
    s
}

fn runtime(seed: u64) -> tokio::runtime::Runtime {
    let mut b = tokio::runtime::Builder::new_current_thread();
    b.enable_all().start_paused(true);
    b.rng_seed(tokio::runtime::RngSeed::from_bytes(&seed.to_le_bytes()));
    b.build().unwrap()
}

fn main() {
    let args = std::env::args().collect::<Vec<_>>();
    if args.len() < 3 {
        eprintln!("usage: dvh <pure|seq|conc> <ops-file|-> [side-file] [trace-file]");
        std::process::exit(2);
    }
    let default_hook = std::panic::take_hook();
    let quiet = std::env::var("DVH_PANIC_TRACE").is_err();
    std::panic::set_hook(Box::new(move |info| {
        seq::PANICKED.store(true, std::sync::atomic::Ordering::SeqCst);
        if !quiet {
            default_hook(info);
        }
    }));
    let seed: u64 = std::env::var("VERIF_SEED").ok().and_then(|s| s.parse().ok()).unwrap_or(1);
    let input = read_input(&args[2]);
    let mut out = String::new();
    let mut side = String::new();
    match args[1].as_str() {
        "pure" => {
            for l in pure::run(&input) {
                out.push_str(&l);
                out.push('\n');
            }
        }
        "seq" => {
            let rt = runtime(seed);
            let (res, trace) = rt.block_on(seq::run(&input));
            for (m, s) in res {
                out.push_str(&m);
                out.push('\n');
                side.push_str(&s);
                side.push('\n');
            }
            if args.len() > 4 {
                std::fs::write(&args[4], trace.join("\n") + "\n").unwrap();
            }
        }
        "push" => {
            let rt = tokio::runtime::Builder::new_current_thread().enable_all().build().unwrap();
            for l in rt.block_on(push::run(&input)) {
                out.push_str(&l);
                out.push('\n');
            }
        }
        "conc" => {
            let rt = runtime(seed);
            let (res, trace) = rt.block_on(conc::run(&input));
            for (m, s) in res {
                out.push_str(&m);
                out.push('\n');
                side.push_str(&s);
                side.push('\n');
            }
            if args.len() > 4 {
                std::fs::write(&args[4], trace.join("\n") + "\n").unwrap();
            }
        }
        _ => {
            eprintln!("unknown mode");
            std::process::exit(2);
        }
    }
    print!("{}", out);
    if args.len() > 3 {
        std::fs::write(&args[3], side).unwrap();
    }
}
