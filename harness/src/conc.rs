//! `conc` mode: concurrent client tasks against one server, seeded schedule perturbation,
//! optional small mailboxes, poll-k-then-drop cancellation of in-process handler futures.
//! The implementation's event log (actor turns) of every case is written to the trace file.
use crate::seq::{self, Env};
use crate::util::*;
use deltio::pubsub_proto::publisher_server::Publisher;
use deltio::pubsub_proto::subscriber_server::Subscriber;
use deltio::pubsub_proto::*;
use deltio::verif;
use std::sync::atomic::{AtomicU64, Ordering};
use std::time::Duration;
use tonic::{Request, Status};

static SEQ: AtomicU64 = AtomicU64::new(0);

fn tick() -> u64 {
    SEQ.fetch_add(1, Ordering::SeqCst) + 1
}

fn st<T>(r: Result<tonic::Response<T>, Status>, f: impl FnOnce(&T) -> String) -> String {
    match r {
        Ok(v) => f(v.get_ref()),
        Err(e) => code_name(e.code()).to_string(),
    }
}

/// One request through the handler functions directly (no gRPC transport), so that the caller
/// can drop the handler future at a chosen poll.
async fn direct(deltio: std::sync::Arc<deltio::Deltio>, line: String) -> String {
    let toks = line.split_whitespace().collect::<Vec<_>>();
    let (tm, sm, _) = deltio.verif_parts();
    let publisher = verif::PublisherService::new(tm.clone());
    let subscriber = verif::SubscriberService::new(tm, sm);
    let s = |i: usize| unhex_str(toks[i]).unwrap_or_default();
    match toks[0] {
        "ctopic" => st(publisher.create_topic(Request::new(Topic { name: s(1), ..Default::default() })).await, |t| format!("ok {}", hex(t.name.as_bytes()))),
        "dtopic" => st(publisher.delete_topic(Request::new(DeleteTopicRequest { topic: s(1) })).await, |_| "ok".into()),
        "csub" => st(
            subscriber
                .create_subscription(Request::new(Subscription { name: s(1), topic: s(2), ack_deadline_seconds: toks[3].parse().unwrap(), ..Default::default() }))
                .await,
            |r| format!("ok {}", hex(r.name.as_bytes())),
        ),
        "dsub" => st(subscriber.delete_subscription(Request::new(DeleteSubscriptionRequest { subscription: s(1) })).await, |_| "ok".into()),
        "gsub" => st(subscriber.get_subscription(Request::new(GetSubscriptionRequest { subscription: s(1) })).await, |r| format!("ok {}", hex(r.name.as_bytes()))),
        "ltsubs" => st(
            publisher.list_topic_subscriptions(Request::new(ListTopicSubscriptionsRequest { topic: s(1), page_size: 1000, page_token: String::new() })).await,
            |r| format!("ok {}", join(&r.subscriptions.iter().map(|x| hex(x.as_bytes())).collect::<Vec<_>>(), ",")),
        ),
        "pub" => {
            let messages = list(toks[2], ',').iter().map(|m| PubsubMessage { data: unhex(m.split(';').next().unwrap()), ..Default::default() }).collect();
            st(publisher.publish(Request::new(PublishRequest { topic: s(1), messages })).await, |r| {
                format!("ok {}", join(&r.message_ids.iter().map(|i| hex(i.as_bytes())).collect::<Vec<_>>(), ","))
            })
        }
        "pull" => {
            #[allow(deprecated)]
            let r = subscriber
                .pull(Request::new(PullRequest { subscription: s(1), max_messages: toks[2].parse().unwrap(), return_immediately: toks[3] == "1" }))
                .await;
            st(r, |p| format!("ok {}", seq::received_out(&p.received_messages)))
        }
        "ack" => {
            let ack_ids = list(toks[2], ',').iter().map(|h| unhex_str(h).unwrap_or_default()).collect();
            st(subscriber.acknowledge(Request::new(AcknowledgeRequest { subscription: s(1), ack_ids })).await, |_| "ok".into())
        }
        "mod" => {
            let ack_ids = list(toks[3], ',').iter().map(|h| unhex_str(h).unwrap_or_default()).collect();
            st(
                subscriber.modify_ack_deadline(Request::new(ModifyAckDeadlineRequest { subscription: s(1), ack_ids, ack_deadline_seconds: toks[2].parse().unwrap() })).await,
                |_| "ok".into(),
            )
        }
        _ => "bad-op".into(),
    }
}

/// `drop<k> <op>`: poll the handler future at most k times, then drop it.
/// Wraps a handler future and records whether its last `Pending` came from one of the hook's
/// injected yields (`verif::point`). A future is only ever dropped between polls, at a place where it
/// is really suspended; an injected yield models other tasks running in parallel, not a suspension.
struct Watch<F: std::future::Future> {
    inner: std::pin::Pin<Box<F>>,
    at_injected: std::sync::Arc<std::sync::atomic::AtomicBool>,
}

impl<F: std::future::Future> std::future::Future for Watch<F> {
    type Output = F::Output;
    fn poll(mut self: std::pin::Pin<&mut Self>, cx: &mut std::task::Context<'_>) -> std::task::Poll<F::Output> {
        let _ = verif::take_injected_flag();
        let r = self.inner.as_mut().poll(cx);
        let inj = verif::take_injected_flag();
        self.at_injected.store(r.is_pending() && inj, std::sync::atomic::Ordering::SeqCst);
        r
    }
}

async fn poll_then_drop(deltio: std::sync::Arc<deltio::Deltio>, k: usize, line: String) -> String {
    let flag = std::sync::Arc::new(std::sync::atomic::AtomicBool::new(false));
    let mut fut = Box::pin(Watch { inner: Box::pin(direct(deltio, line)), at_injected: flag.clone() });
    let mut i = 0;
    loop {
        if i >= k && !flag.load(std::sync::atomic::Ordering::SeqCst) {
            break;
        }
        match futures::poll!(fut.as_mut()) {
            std::task::Poll::Ready(r) => return r,
            std::task::Poll::Pending => {
                i += 1;
                // no yield after the last poll: the future is dropped before anybody else runs
                // (unless it sits at an injected yield: then it is polled on)
                if i < k || flag.load(std::sync::atomic::Ordering::SeqCst) {
                    tokio::task::yield_now().await
                }
            }
        }
        if i > k + 64 {
            break;
        }
    }
    drop(fut);
    "dropped".into()
}

/// `dropat<k> <sleep_us> <op>`: run the handler as a task of its own (polled by the runtime like any
/// gRPC handler), sleep, yield k times, then abort it (the future is dropped wherever it is suspended,
/// never at an injected yield).
async fn poll_sleep_drop(deltio: std::sync::Arc<deltio::Deltio>, k: usize, sleep_us: u64, line: String) -> String {
    let flag = std::sync::Arc::new(std::sync::atomic::AtomicBool::new(false));
    let handle = tokio::spawn(Watch { inner: Box::pin(direct(deltio, line)), at_injected: flag.clone() });
    tokio::time::sleep(Duration::from_micros(sleep_us)).await;
    for _ in 0..k {
        tokio::task::yield_now().await;
    }
    let mut extra = 0;
    while flag.load(std::sync::atomic::Ordering::SeqCst) && !handle.is_finished() && extra < 64 {
        tokio::task::yield_now().await;
        extra += 1;
    }
    if handle.is_finished() {
        return handle.await.unwrap_or_else(|_| "PANIC".into());
    }
    handle.abort();
    let _ = handle.await;
    "dropped".into()
}

/// `dropw<k> <sleep_us> <op>`: poll the handler once (it parks), sleep, poll it k more times without
/// letting anybody else run in between, then drop it: the handler is abandoned right after what it did
/// when it was woken (e.g. with its pull request sitting in the actor's mailbox).
async fn poll_sleep_poll_drop(deltio: std::sync::Arc<deltio::Deltio>, k: usize, sleep_us: u64, line: String) -> String {
    let flag = std::sync::Arc::new(std::sync::atomic::AtomicBool::new(false));
    let mut fut = Box::pin(Watch { inner: Box::pin(direct(deltio, line)), at_injected: flag.clone() });
    // run it until it is parked (request sent, empty answer received, waiting for the signal)
    for _ in 0..4 {
        if let std::task::Poll::Ready(r) = futures::poll!(fut.as_mut()) {
            return r;
        }
        tokio::task::yield_now().await;
    }
    tokio::time::sleep(Duration::from_micros(sleep_us)).await;
    let mut polls = 0;
    while polls < k || flag.load(std::sync::atomic::Ordering::SeqCst) {
        if flag.load(std::sync::atomic::Ordering::SeqCst) {
            tokio::task::yield_now().await; // an injected yield is not a place to be abandoned at
        }
        if let std::task::Poll::Ready(r) = futures::poll!(fut.as_mut()) {
            return r;
        }
        polls += 1;
        if polls > k + 64 {
            break;
        }
    }
    drop(fut);
    "dropped".into()
}

async fn one(env: &mut Env, line: &str) -> (String, String) {
    let b = tick();
    let toks = line.split_whitespace().collect::<Vec<_>>();
    let (main, side) = if toks[0].starts_with("dropw") && toks[0].len() > 5 {
        let k: usize = toks[0][5..].parse().unwrap_or(1);
        let sleep_us: u64 = toks[1].parse().unwrap_or(0);
        let rest = toks[2..].join(" ");
        let r = match tokio::time::timeout(Duration::from_secs(3600), poll_sleep_poll_drop(env.deltio.clone(), k, sleep_us, rest)).await {
            Ok(r) => r,
            Err(_) => "HANG".to_string(),
        };
        (r, String::new())
    } else if toks[0].starts_with("dropat") && toks[0].len() > 6 {
        let k: usize = toks[0][6..].parse().unwrap_or(0);
        let sleep_us: u64 = toks[1].parse().unwrap_or(0);
        let rest = toks[2..].join(" ");
        let r = match tokio::time::timeout(Duration::from_secs(3600), poll_sleep_drop(env.deltio.clone(), k, sleep_us, rest)).await {
            Ok(r) => r,
            Err(_) => "HANG".to_string(),
        };
        (r, String::new())
    } else if toks[0].starts_with("drop") && toks[0].len() > 4 {
        let k: usize = toks[0][4..].parse().unwrap_or(0);
        let rest = toks[1..].join(" ");
        let r = match tokio::time::timeout(Duration::from_secs(3600), poll_then_drop(env.deltio.clone(), k, rest)).await {
            Ok(r) => r,
            Err(_) => "HANG".to_string(),
        };
        (r, String::new())
    } else if toks[0] == "direct" {
        let rest = toks[1..].join(" ");
        let r = match tokio::time::timeout(Duration::from_secs(3600), direct(env.deltio.clone(), rest)).await {
            Ok(r) => r,
            Err(_) => "HANG".to_string(),
        };
        (r, String::new())
    } else if toks[0] == "sleep" {
        let d: u64 = toks[1].parse().unwrap();
        tokio::time::sleep(Duration::from_micros(d)).await;
        ("ok".to_string(), String::new())
    } else if toks[0] == "probe" {
        // observe the subscription at a quiescent instant (no other task is runnable)
        seq::settle_force().await;
        let a = seq::step(env, &format!("stats1 {}", toks[1])).await;
        (a.main, a.side)
    } else if toks[0] == "yield" {
        let n: u64 = toks[1].parse().unwrap();
        for _ in 0..n {
            tokio::task::yield_now().await;
        }
        ("ok".to_string(), String::new())
    } else {
        let a = seq::step(env, line).await;
        (a.main, a.side)
    };
    let e = tick();
    (main, format!("{} {} {} {}", seq::now_us() - env.base_us, b, e, side))
}

pub async fn run(input: &str) -> (Vec<(String, String)>, Vec<String>) {
    let _ = verif::epoch();
    let lines = input.lines().map(|l| l.trim().to_string()).collect::<Vec<_>>();
    let mut out: Vec<(String, String)> = vec![(String::new(), String::new()); lines.len()];
    let mut trace = Vec::new();
    let mut env: Option<Env> = None;
    let mut case_no = 0usize;
    let mut i = 0;
    let mut tasks: Vec<Vec<usize>> = Vec::new();
    let mut in_task = false;
    let flush_log = |trace: &mut Vec<String>, case_no: usize| {
        for l in verif::take_log() {
            trace.push(format!("{} {}", case_no, l));
        }
    };
    while i < lines.len() {
        let line = lines[i].clone();
        if line.is_empty() || line.starts_with('#') {
            i += 1;
            continue;
        }
        let toks = line.split_whitespace().collect::<Vec<_>>();
        if toks[0] == "new" {
            if let Some(e) = env.take() {
                e.teardown().await;
                flush_log(&mut trace, case_no);
            }
            case_no += 1;
            let mut cap = 0usize;
            let mut yseed = 0u64;
            for t in &toks[1..] {
                if let Some(v) = t.strip_prefix("cap=") {
                    cap = v.parse().unwrap();
                }
                if let Some(v) = t.strip_prefix("yield=") {
                    yseed = v.parse().unwrap();
                }
            }
            let next = (seq::now_us() / 1_000_000 + 1) * 1_000_000;
            seq::goto(next).await;
            verif::set_mailbox_capacity(cap);
            verif::set_yield_seed(yseed);
            verif::set_logging(true);
            let _ = verif::take_log();
            trace.push(format!("{} case {}", case_no, seq::now_us()));
            env = Some(Env::new().await);
            seq::PANICKED.store(false, Ordering::SeqCst);
            out[i] = ("ok".into(), format!("0 {} {} ", tick(), tick()));
            tasks.clear();
            in_task = false;
        } else if toks[0] == "task" {
            tasks.push(Vec::new());
            in_task = true;
            out[i] = ("ok".into(), String::new());
        } else if toks[0] == "go" {
            in_task = false;
            let mut handles = Vec::new();
            if let Some(e) = env.as_ref() {
                for t in tasks.drain(..) {
                    let mut te = e.fork();
                    let tl = t.iter().map(|&j| (j, lines[j].clone())).collect::<Vec<_>>();
                    handles.push(tokio::spawn(async move {
                        let mut res = Vec::new();
                        for (j, l) in tl {
                            let r = one(&mut te, &l).await;
                            res.push((j, r));
                        }
                        res
                    }));
                }
                seq::NO_SETTLE.with(|c| c.set(true));
                for h in handles {
                    if let Ok(res) = h.await {
                        for (j, r) in res {
                            out[j] = r;
                        }
                    }
                }
            }
            seq::NO_SETTLE.with(|c| c.set(false));
            seq::settle().await;
            out[i] = (if seq::PANICKED.swap(false, Ordering::SeqCst) { "PANIC".into() } else { "ok".into() }, format!("{} {} {} ", seq::now_us() - env.as_ref().map(|e| e.base_us).unwrap_or(0), tick(), tick()));
        } else if in_task {
            tasks.last_mut().unwrap().push(i);
        } else {
            match env.as_mut() {
                None => out[i] = ("no-env".into(), String::new()),
                Some(e) => {
                    let r = one(e, &line).await;
                    if seq::PANICKED.swap(false, Ordering::SeqCst) {
                        out[i] = (format!("PANIC {}", r.0), r.1);
                    } else {
                        out[i] = r;
                    }
                }
            }
        }
        i += 1;
    }
    if let Some(e) = env.take() {
        e.teardown().await;
        flush_log(&mut trace, case_no);
    }
    verif::set_logging(false);
    verif::set_mailbox_capacity(0);
    verif::set_yield_seed(0);
    (out, trace)
}
