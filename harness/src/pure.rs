//! `pure` mode: one input per line, the implementation's answer per line.
use crate::util::*;
use deltio::paging::Paging;
use deltio::subscriptions::{flow_control, AckDeadline, AckId, SubscriptionName};
use deltio::topics::TopicName;
use deltio::verif;
use std::time::Duration;
use tokio::time::Instant;

/// `some <project> <id> <display> <1 if the display form parses back to the same name>`
fn name_out(parsed: Option<(String, String, String, bool)>) -> String {
    match parsed {
        None => "none".to_string(),
        Some((p, i, d, same)) => format!(
            "some {} {} {} {}",
            hex(p.as_bytes()),
            hex(i.as_bytes()),
            hex(d.as_bytes()),
            if same { 1 } else { 0 }
        ),
    }
}

fn opt_us(epoch: Instant, t: Option<Instant>) -> String {
    match t {
        None => "none".into(),
        Some(t) => format!("{}", t.duration_since(epoch).as_micros()),
    }
}

pub fn eval(line: &str) -> String {
    let epoch = verif::epoch();
    let toks = line.split_whitespace().collect::<Vec<_>>();
    if toks.is_empty() {
        return "bad-op".into();
    }
    let at = |us: u64| epoch + Duration::from_micros(us);
    match toks[0] {
        // name.eq <t|s> <hexA> <hexB>: do two accepted names compare (and hash) as the same map key?
        "name.eq" => {
            use std::collections::hash_map::DefaultHasher;
            use std::hash::{Hash, Hasher};
            fn h<T: Hash>(t: &T) -> u64 {
                let mut s = DefaultHasher::new();
                t.hash(&mut s);
                s.finish()
            }
            match (unhex_str(toks[2]), unhex_str(toks[3])) {
                (Some(a), Some(b)) => {
                    if toks[1] == "t" {
                        match (TopicName::try_parse(&a), TopicName::try_parse(&b)) {
                            (Some(x), Some(y)) => format!("{} {}", if x == y { "eq" } else { "ne" }, if x == y && h(&x) != h(&y) { "hash-differs" } else { "-" }),
                            _ => "rejected".into(),
                        }
                    } else {
                        match (SubscriptionName::try_parse(&a), SubscriptionName::try_parse(&b)) {
                            (Some(x), Some(y)) => format!("{} {}", if x == y { "eq" } else { "ne" }, if x == y && h(&x) != h(&y) { "hash-differs" } else { "-" }),
                            _ => "rejected".into(),
                        }
                    }
                }
                _ => "skip".into(),
            }
        }
        // flow.race <rounds>: a waiter that is about to park and a capacity-freeing `dec` on another
        // THREAD, the offset between the two swept over the rounds: once the `dec` has finished the
        // waiter must be ready or its waker must have fired (a support for the failing-input search:
        // the window has no await point, so no single-threaded schedule reaches it).
        "flow.race" => {
            use std::future::Future;
            use std::sync::atomic::{AtomicBool, AtomicUsize, Ordering};
            use std::sync::Arc;
            use std::task::{Context, Poll, Wake, Waker};
            struct Flag(AtomicBool);
            impl Wake for Flag {
                fn wake(self: Arc<Self>) {
                    self.0.store(true, Ordering::SeqCst);
                }
            }
            let rounds: usize = toks[1].parse().unwrap_or(1000);
            let fc = Arc::new(flow_control::create(16, 16));
            let go = Arc::new(AtomicUsize::new(0));
            let done = Arc::new(AtomicUsize::new(0));
            let (fc2, go2, done2) = (Arc::clone(&fc), Arc::clone(&go), Arc::clone(&done));
            // one persistent second thread, synchronised by spinning
            let t = std::thread::spawn(move || {
                let mut r = 0usize;
                loop {
                    let mut g = go2.load(Ordering::Acquire);
                    while g != r + 1 && g != usize::MAX {
                        std::hint::spin_loop();
                        g = go2.load(Ordering::Acquire);
                    }
                    if g == usize::MAX {
                        return;
                    }
                    for _ in 0..(r % 64) {
                        std::hint::spin_loop();
                    }
                    fc2.dec(16, 1);
                    done2.store(r + 1, Ordering::Release);
                    r += 1;
                }
            });
            let mut lost = None;
            for r in 0..rounds {
                fc.inc(16, 1);
                let flag = Arc::new(Flag(AtomicBool::new(false)));
                let waker = Waker::from(Arc::clone(&flag));
                let mut cx = Context::from_waker(&waker);
                let fc3 = Arc::clone(&fc);
                let mut fut = Box::pin(async move { fc3.wait_for_available_space().await });
                go.store(r + 1, Ordering::Release);
                for _ in 0..((r / 64) % 48) {
                    std::hint::spin_loop();
                }
                let first = fut.as_mut().poll(&mut cx);
                while done.load(Ordering::Acquire) != r + 1 {
                    std::hint::spin_loop();
                }
                // the dec has finished: ready at the first poll, or woken (a later poll that merely finds
                // space would hide a lost wake-up)
                let woken_or_ready = matches!(first, Poll::Ready(())) || flag.0.load(Ordering::SeqCst);
                if !woken_or_ready {
                    lost = Some(r);
                    break;
                }
            }
            go.store(usize::MAX, Ordering::Release);
            let _ = t.join();
            match lost {
                None => "ok".into(),
                Some(r) => format!("LOST-WAKEUP round={}", r),
            }
        }
        "topic.parse" => match unhex_str(toks[1]) {
            None => "skip".into(),
            Some(s) => name_out(TopicName::try_parse(&s).map(|n| {
                // project id is private; recover it from the display form via the parser itself
                let d = n.to_string();
                let id = n.topic_id().to_string();
                let proj = d["projects/".len()..d.len() - "/topics/".len() - id.len()].to_string();
                let same = TopicName::try_parse(&d).as_ref() == Some(&n);
                (proj, id, d, same)
            })),
        },
        "sub.parse" => match unhex_str(toks[1]) {
            None => "skip".into(),
            Some(s) => name_out(SubscriptionName::try_parse(&s).map(|n| {
                let same = SubscriptionName::try_parse(&n.to_string()).as_ref() == Some(&n);
                (
                    n.project_id().to_string(),
                    n.subscription_id().to_string(),
                    n.to_string(),
                    same,
                )
            })),
        },
        // the same through the api::parser wrappers: status instead of option
        "topic.parse.api" => match unhex_str(toks[1]) {
            None => "skip".into(),
            Some(s) => match verif::parse_topic_name(&s) {
                Ok(n) => format!("ok {}", hex(n.to_string().as_bytes())),
                Err(e) => code_name(e.code()).to_string(),
            },
        },
        "sub.parse.api" => match unhex_str(toks[1]) {
            None => "skip".into(),
            Some(s) => match verif::parse_subscription_name(&s) {
                Ok(n) => format!("ok {}", hex(n.to_string().as_bytes())),
                Err(e) => code_name(e.code()).to_string(),
            },
        },
        "project.parse" => match unhex_str(toks[1]) {
            None => "skip".into(),
            Some(s) => match verif::parse_project_id(&s) {
                Ok(p) => format!("ok {}", hex(p.as_bytes())),
                Err(e) => code_name(e.code()).to_string(),
            },
        },
        "ackid.parse" => match unhex_str(toks[1]) {
            None => "skip".into(),
            Some(s) => {
                let direct = AckId::parse(&s).ok().map(|a| a.to_string());
                let api = verif::parse_ack_id(&s);
                match (direct, api) {
                    (Some(d), Ok(a)) if d == a.to_string() => format!("ok {}", a),
                    (None, Err(e)) => code_name(e.code()).to_string(),
                    _ => "INCONSISTENT".into(),
                }
            }
        },
        "token.decode" => match unhex_str(toks[1]) {
            None => "skip".into(),
            Some(s) => match verif::page_token_decode(&s) {
                None => "none".into(),
                Some(n) => format!("some {}", n),
            },
        },
        "token.encode" => {
            let n: u64 = toks[1].parse().unwrap();
            hex(verif::page_token_encode(n as usize).as_bytes())
        }
        "paging" => {
            let size: i32 = toks[1].parse().unwrap();
            match unhex_str(toks[2]) {
                None => "skip".into(),
                Some(tok) => match verif::parse_paging(size, &tok) {
                    Err(e) => code_name(e.code()).to_string(),
                    Ok((sz, off)) => format!(
                        "ok {} {}",
                        sz,
                        off.map(|o| o.to_string()).unwrap_or("none".into())
                    ),
                },
            }
        }
        // page <n> <size usize> <off|none>: Paging::new(size, off) applied to the list 0..n
        "page" => {
            let n: usize = toks[1].parse().unwrap();
            let size: usize = toks[2].parse().unwrap();
            let off: Option<usize> = if toks[3] == "none" {
                None
            } else {
                Some(toks[3].parse().unwrap())
            };
            let p = Paging::new(size, off);
            let r = std::panic::catch_unwind(|| {
                let items = (0..n).skip(p.to_skip()).take(p.size()).collect::<Vec<_>>();
                let next = p.next_page_from_slice_result(&items);
                (items.first().cloned(), items.len(), next.offset())
            });
            match r {
                Err(_) => "PANIC".into(),
                Ok((first, len, next)) => format!(
                    "{} {} {}",
                    first.map(|f| f.to_string()).unwrap_or("none".into()),
                    len,
                    next.map(|o| o.to_string()).unwrap_or("none".into())
                ),
            }
        }
        "ext.parse" => {
            let n: i32 = toks[1].parse().unwrap();
            match verif::parse_deadline_extension(n) {
                Err(e) => code_name(e.code()).to_string(),
                Ok(None) => "nack".into(),
                Ok(Some(s)) => format!("secs {}", s),
            }
        }
        "round" => {
            let us: u64 = toks[1].parse().unwrap();
            let d = AckDeadline::new(&at(us));
            format!("{}", d.time().duration_since(epoch).as_micros())
        }
        // mods <now µs> <ackid-hex,..> <secs,..>
        "mods" => {
            let now: u64 = toks[1].parse().unwrap();
            let mut ids = Vec::new();
            for h in list(toks[2], ',') {
                match unhex_str(h) {
                    Some(s) => ids.push(s),
                    None => return "skip".into(),
                }
            }
            let secs = list(toks[3], ',')
                .iter()
                .map(|s| s.parse::<i32>().unwrap())
                .collect::<Vec<_>>();
            match verif::parse_deadline_modifications(at(now), &ids, &secs) {
                Err(e) => code_name(e.code()).to_string(),
                Ok(v) => {
                    let items = v
                        .iter()
                        .map(|(a, d)| format!("{}={}", a, opt_us(epoch, *d)))
                        .collect::<Vec<_>>();
                    format!("ok {}", join(&items, ","))
                }
            }
        }
        // tracker <op> <op> ...   (see Driver/Main.lean for the grammar)
        "tracker" => {
            let mut t = verif::TrackerProbe::new();
            let mut outs = Vec::new();
            for op in &toks[1..] {
                let parts = op.split(':').collect::<Vec<_>>();
                let fmt_pairs = |v: Vec<(u64, u64)>| {
                    join(
                        &v.iter()
                            .map(|(a, m)| format!("{}/{}", a, m))
                            .collect::<Vec<_>>(),
                        ",",
                    )
                };
                let ret = match parts[0] {
                    "add" => {
                        t.add(
                            parts[1].parse().unwrap(),
                            parts[2].parse().unwrap(),
                            at(parts[3].parse().unwrap()),
                        );
                        "-".to_string()
                    }
                    "rm" => {
                        let ids = list(parts[1], ',')
                            .iter()
                            .map(|s| s.parse::<u64>().unwrap())
                            .collect::<Vec<_>>();
                        fmt_pairs(t.remove(&ids))
                    }
                    "mod" => {
                        let mods = list(parts[1], ',')
                            .iter()
                            .map(|s| {
                                let mut it = s.split('=');
                                let a: u64 = it.next().unwrap().parse().unwrap();
                                let d = it.next().unwrap();
                                (
                                    a,
                                    if d == "n" {
                                        None
                                    } else {
                                        Some(at(d.parse().unwrap()))
                                    },
                                )
                            })
                            .collect::<Vec<_>>();
                        fmt_pairs(t.modify(&mods))
                    }
                    "exp" => fmt_pairs(t.take_expired(at(parts[1].parse().unwrap()))),
                    "clear" => {
                        t.clear();
                        "-".to_string()
                    }
                    _ => "bad-op".to_string(),
                };
                let (msgs, exps) = t.snapshot();
                let m = join(
                    &msgs
                        .iter()
                        .map(|(a, m, d)| {
                            format!("{}/{}/{}", a, m, d.duration_since(epoch).as_micros())
                        })
                        .collect::<Vec<_>>(),
                    ",",
                );
                let e = join(
                    &exps
                        .iter()
                        .map(|(d, a)| format!("{}/{}", d.duration_since(epoch).as_micros(), a))
                        .collect::<Vec<_>>(),
                    ",",
                );
                outs.push(format!(
                    "{} {} {} {} {}",
                    ret,
                    t.len(),
                    opt_us(epoch, t.next_expiration()),
                    m,
                    e
                ));
            }
            outs.join(" | ")
        }
        // flow <max_bytes> <max_msgs> <op>...   ops: inc:b:m dec:b:m has
        "flow" => {
            let fc = flow_control::create(toks[1].parse().unwrap(), toks[2].parse().unwrap());
            let mut outs = Vec::new();
            for op in &toks[3..] {
                let parts = op.split(':').collect::<Vec<_>>();
                match parts[0] {
                    "inc" => fc.inc(parts[1].parse().unwrap(), parts[2].parse().unwrap()),
                    "dec" => fc.dec(parts[1].parse().unwrap(), parts[2].parse().unwrap()),
                    _ => {}
                }
                outs.push(if fc.has_available_space() { "1" } else { "0" }.to_string());
            }
            join(&outs, ",")
        }
        // flowq <max_bytes> <max_msgs> <op>...  ops: inc:b:m dec:b:m new poll:i drop:i
        // waiter futures are polled by hand with a no-op waker: r = ready, p = pending
        "flowq" => {
            use std::future::Future;
            use std::pin::Pin;
            use std::sync::Arc;
            use std::task::{Context, Poll};
            let fc = Arc::new(flow_control::create(toks[1].parse().unwrap(), toks[2].parse().unwrap()));
            let waker = futures::task::noop_waker();
            let mut cx = Context::from_waker(&waker);
            let mut waiters: Vec<Option<Pin<Box<dyn Future<Output = ()>>>>> = Vec::new();
            let mut outs = Vec::new();
            for op in &toks[3..] {
                let parts = op.split(':').collect::<Vec<_>>();
                let o = match parts[0] {
                    "inc" => {
                        fc.inc(parts[1].parse().unwrap(), parts[2].parse().unwrap());
                        "-"
                    }
                    "dec" => {
                        fc.dec(parts[1].parse().unwrap(), parts[2].parse().unwrap());
                        "-"
                    }
                    "new" => {
                        let fc2 = Arc::clone(&fc);
                        waiters.push(Some(Box::pin(async move { fc2.wait_for_available_space().await })));
                        "-"
                    }
                    "poll" => {
                        let i: usize = parts[1].parse().unwrap();
                        match waiters.get_mut(i) {
                            Some(Some(f)) => match f.as_mut().poll(&mut cx) {
                                Poll::Ready(()) => {
                                    waiters[i] = None;
                                    "r"
                                }
                                Poll::Pending => "p",
                            },
                            _ => "x",
                        }
                    }
                    "drop" => {
                        let i: usize = parts[1].parse().unwrap();
                        if i < waiters.len() {
                            waiters[i] = None;
                        }
                        "-"
                    }
                    _ => "bad-op",
                };
                outs.push(o.to_string());
            }
            join(&outs, ",")
        }
        _ => "bad-op".into(),
    }
}

pub fn run(input: &str) -> Vec<String> {
    // Force the epoch before anything else.
    let _ = verif::epoch();
    input
        .lines()
        .map(|l| {
            let l2 = l.to_string();
            match std::panic::catch_unwind(move || eval(&l2)) {
                Ok(s) => s,
                Err(_) => "PANIC".to_string(),
            }
        })
        .collect()
}
