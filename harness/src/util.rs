//! Line-protocol helpers shared by all modes. Must agree with `Driver/Proto.lean`.
use std::collections::HashMap;

pub fn hex(b: &[u8]) -> String {
    if b.is_empty() {
        return "-".to_string();
    }
    let mut s = String::with_capacity(b.len() * 2);
    for x in b {
        s.push_str(&format!("{:02x}", x));
    }
    s
}

pub fn unhex(s: &str) -> Vec<u8> {
    if s == "-" {
        return Vec::new();
    }
    let b = s.as_bytes();
    let mut out = Vec::with_capacity(b.len() / 2);
    let mut i = 0;
    while i + 1 < b.len() {
        let h = (b[i] as char).to_digit(16).unwrap() as u8;
        let l = (b[i + 1] as char).to_digit(16).unwrap() as u8;
        out.push(h * 16 + l);
        i += 2;
    }
    out
}

/// hex -> String; None if the bytes are not valid UTF-8 (cannot be a proto `string`).
pub fn unhex_str(s: &str) -> Option<String> {
    String::from_utf8(unhex(s)).ok()
}

pub fn list<'a>(s: &'a str, sep: char) -> Vec<&'a str> {
    if s == "-" || s.is_empty() {
        Vec::new()
    } else {
        s.split(sep).collect()
    }
}

pub fn join(items: &[String], sep: &str) -> String {
    if items.is_empty() {
        "-".to_string()
    } else {
        items.join(sep)
    }
}

pub fn attrs_out(a: &HashMap<String, String>) -> String {
    let mut v = a.iter().collect::<Vec<_>>();
    v.sort();
    let items = v
        .into_iter()
        .map(|(k, v)| format!("{}={}", hex(k.as_bytes()), hex(v.as_bytes())))
        .collect::<Vec<_>>();
    join(&items, ";")
}

pub fn attrs_in(s: &str) -> HashMap<String, String> {
    let mut m = HashMap::new();
    for kv in list(s, ';') {
        let mut it = kv.splitn(2, '=');
        let k = it.next().unwrap();
        let v = it.next().unwrap_or("-");
        m.insert(unhex_str(k).unwrap(), unhex_str(v).unwrap());
    }
    m
}

pub fn code_name(c: tonic::Code) -> &'static str {
    use tonic::Code::*;
    match c {
        Ok => "ok",
        Cancelled => "cancelled",
        Unknown => "unknown",
        InvalidArgument => "invalid_argument",
        DeadlineExceeded => "deadline_exceeded",
        NotFound => "not_found",
        AlreadyExists => "already_exists",
        PermissionDenied => "permission_denied",
        ResourceExhausted => "resource_exhausted",
        FailedPrecondition => "failed_precondition",
        Aborted => "aborted",
        OutOfRange => "out_of_range",
        Unimplemented => "unimplemented",
        Internal => "internal",
        Unavailable => "unavailable",
        DataLoss => "data_loss",
        Unauthenticated => "unauthenticated",
    }
}

pub struct SplitMix(pub u64);
impl SplitMix {
    pub fn next(&mut self) -> u64 {
        self.0 = self.0.wrapping_add(0x9E37_79B9_7F4A_7C15);
        let mut z = self.0;
        z = (z ^ (z >> 30)).wrapping_mul(0xBF58_476D_1CE4_E5B9);
        z = (z ^ (z >> 27)).wrapping_mul(0x94D0_49BB_1331_11EB);
        z ^ (z >> 31)
    }
    pub fn below(&mut self, n: u64) -> u64 {
        self.next() % n
    }
}
