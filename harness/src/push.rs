//! `push` mode: the real push loop against a scripted HTTP endpoint on the loopback interface,
//! real clock (reqwest talks to a real socket). One scenario per input file.
use crate::seq::{connect, received_out};
use crate::util::*;
use deltio::pubsub_proto::*;
use deltio::Deltio;
use std::collections::HashMap;
use std::sync::{Arc, Mutex};
use std::time::Duration;
use tokio::io::{AsyncReadExt, AsyncWriteExt};
use tokio::net::TcpListener;

#[derive(Default)]
struct Endpoint {
    /// data (hex) -> remaining outcomes
    scripts: HashMap<String, Vec<String>>,
    /// every POST received: (path, body json, outcome given)
    posts: Vec<(String, String, String)>,
}

fn b64decode(s: &str) -> Vec<u8> {
    let mut out = Vec::new();
    let mut buf = 0u32;
    let mut bits = 0;
    for c in s.bytes() {
        let v = match c {
            b'A'..=b'Z' => c - b'A',
            b'a'..=b'z' => c - b'a' + 26,
            b'0'..=b'9' => c - b'0' + 52,
            b'+' => 62,
            b'/' => 63,
            _ => continue,
        } as u32;
        buf = (buf << 6) | v;
        bits += 6;
        if bits >= 8 {
            bits -= 8;
            out.push(((buf >> bits) & 0xff) as u8);
        }
    }
    out
}

async fn serve(listener: TcpListener, ep: Arc<Mutex<Endpoint>>) {
    loop {
        let (mut sock, _) = match listener.accept().await {
            Ok(x) => x,
            Err(_) => continue,
        };
        let ep = ep.clone();
        tokio::spawn(async move {
            let mut buf = Vec::new();
            loop {
                // read one request
                let header_end;
                loop {
                    if let Some(p) = buf.windows(4).position(|w| w == b"\r\n\r\n") {
                        header_end = p + 4;
                        break;
                    }
                    let mut tmp = [0u8; 4096];
                    match sock.read(&mut tmp).await {
                        Ok(0) | Err(_) => return,
                        Ok(n) => buf.extend_from_slice(&tmp[..n]),
                    }
                }
                let head = String::from_utf8_lossy(&buf[..header_end]).to_string();
                let path = head.split_whitespace().nth(1).unwrap_or("").to_string();
                let clen = head
                    .lines()
                    .find_map(|l| {
                        let l = l.to_ascii_lowercase();
                        l.strip_prefix("content-length:").map(|v| v.trim().parse::<usize>().unwrap_or(0))
                    })
                    .unwrap_or(0);
                while buf.len() < header_end + clen {
                    let mut tmp = [0u8; 4096];
                    match sock.read(&mut tmp).await {
                        Ok(0) | Err(_) => return,
                        Ok(n) => buf.extend_from_slice(&tmp[..n]),
                    }
                }
                let body = String::from_utf8_lossy(&buf[header_end..header_end + clen]).to_string();
                buf.drain(..header_end + clen);
                let data_hex = serde_json::from_str::<serde_json::Value>(&body)
                    .ok()
                    .and_then(|v| v["message"]["data"].as_str().map(|s| hex(&b64decode(s))))
                    .unwrap_or_else(|| "?".into());
                let outcome = {
                    let mut e = ep.lock().unwrap();
                    // a script is keyed by `<tag>:<data>` (the endpoint path without its slash) or by `<data>` alone
                    let keyed = format!("{}:{}", path.trim_start_matches('/'), data_hex);
                    let key = if e.scripts.contains_key(&keyed) { keyed } else { data_hex.clone() };
                    let o = match e.scripts.get_mut(&key) {
                        Some(v) if !v.is_empty() => v.remove(0),
                        _ => "200".to_string(),
                    };
                    e.posts.push((path, body, o.clone()));
                    o
                };
                match outcome.as_str() {
                    "close" => return,
                    "hang" => {
                        tokio::time::sleep(Duration::from_secs(3600)).await;
                        return;
                    }
                    st => {
                        let resp = format!("HTTP/1.1 {} X\r\ncontent-length: 0\r\n\r\n", st);
                        if sock.write_all(resp.as_bytes()).await.is_err() {
                            return;
                        }
                    }
                }
            }
        });
    }
}

pub async fn run(input: &str) -> Vec<String> {
    let listener = TcpListener::bind("127.0.0.1:0").await.unwrap();
    let port = listener.local_addr().unwrap().port();
    let ep = Arc::new(Mutex::new(Endpoint::default()));
    tokio::spawn(serve(listener, ep.clone()));
    let deltio = Deltio::new();
    let (mut publisher, mut subscriber, _server) = connect(&deltio).await;
    let mut interval = 10u64;
    let mut started = false;
    let mut out = Vec::new();
    // the subscription actors' turn log (current-thread runtime: one thread-local log)
    deltio::verif::set_logging(true);
    let _ = deltio::verif::take_log();
    let mut turnlog: Vec<String> = Vec::new();
    for line in input.lines() {
        let toks = line.split_whitespace().collect::<Vec<_>>();
        if toks.is_empty() || toks[0].starts_with('#') {
            out.push(String::new());
            continue;
        }
        if !started && toks[0] != "interval" {
            tokio::spawn(deltio.push_loop(Duration::from_millis(interval)).run());
            started = true;
        }
        let s = |i: usize| unhex_str(toks[i]).unwrap_or_default();
        let r = match toks[0] {
            "interval" => {
                interval = toks[1].parse().unwrap();
                "ok".to_string()
            }
            "ctopic" => match publisher.create_topic(Topic { name: s(1), ..Default::default() }).await {
                Ok(_) => "ok".into(),
                Err(e) => code_name(e.code()).into(),
            },
            // csub <name> <topic> <tag|->  : push endpoint http://127.0.0.1:<port>/<tag>
            "csub" => {
                let push_config = if toks[3] == "-" {
                    None
                } else {
                    // twin subscriptions carry push-config attributes: they configure the endpoint, they are not message attributes
                    let attributes: HashMap<String, String> = if toks[3].starts_with("twin") {
                        [("x-goog-version".to_string(), "v1".to_string())].into_iter().collect()
                    } else {
                        HashMap::new()
                    };
                    Some(PushConfig { push_endpoint: format!("http://127.0.0.1:{}/{}", port, toks[3]), attributes, ..Default::default() })
                };
                match subscriber.create_subscription(Subscription { name: s(1), topic: s(2), ack_deadline_seconds: 10, push_config, ..Default::default() }).await {
                    Ok(_) => "ok".into(),
                    Err(e) => code_name(e.code()).into(),
                }
            }
            "dsub" => match subscriber.delete_subscription(DeleteSubscriptionRequest { subscription: s(1) }).await {
                Ok(_) => "ok".into(),
                Err(e) => code_name(e.code()).into(),
            },
            "script" => {
                ep.lock().unwrap().scripts.insert(toks[1].to_string(), list(toks[2], ',').iter().map(|x| x.to_string()).collect());
                "ok".into()
            }
            "pub" => {
                let messages = list(toks[2], ',')
                    .iter()
                    .map(|m| {
                        let mut it = m.splitn(2, ';');
                        PubsubMessage { data: unhex(it.next().unwrap()), attributes: attrs_in(it.next().unwrap_or("-")), ..Default::default() }
                    })
                    .collect();
                match publisher.publish(PublishRequest { topic: s(1), messages }).await {
                    Ok(p) => format!("ok {}", join(&p.get_ref().message_ids.iter().map(|i| hex(i.as_bytes())).collect::<Vec<_>>(), ",")),
                    Err(e) => code_name(e.code()).into(),
                }
            }
            "pull" => {
                #[allow(deprecated)]
                let r = subscriber.pull(PullRequest { subscription: s(1), max_messages: 1000, return_immediately: true }).await;
                match r {
                    Ok(p) => format!("ok {}", received_out(&p.get_ref().received_messages)),
                    Err(e) => code_name(e.code()).into(),
                }
            }
            // turnlog: every subscription-actor event so far that the dispatch correspondence needs
            "turnlog" => {
                turnlog.extend(deltio::verif::take_log());
                let keep = turnlog
                    .iter()
                    .filter(|l| {
                        let t = l.split(' ').collect::<Vec<_>>();
                        t.len() > 2 && t[0] == "sub" && matches!(t[2], "new" | "pull" | "ack" | "modify")
                    })
                    .cloned()
                    .collect::<Vec<_>>();
                join(&keep, " ~~ ")
            }
            "wait" => {
                tokio::time::sleep(Duration::from_millis(toks[1].parse().unwrap())).await;
                "ok".into()
            }
            // posts: every POST so far: path|subscription|messageId|message_id|datahex|attrs|outcome
            "posts" => {
                let e = ep.lock().unwrap();
                let items = e
                    .posts
                    .iter()
                    .map(|(path, body, o)| {
                        let v: serde_json::Value = serde_json::from_str(body).unwrap_or_default();
                        let attrs = v["message"]["attributes"]
                            .as_object()
                            .map(|m| m.iter().map(|(k, v)| (k.clone(), v.as_str().unwrap_or("").to_string())).collect::<HashMap<_, _>>())
                            .unwrap_or_default();
                        format!(
                            "{}|{}|{}|{}|{}|{}|{}",
                            path,
                            hex(v["subscription"].as_str().unwrap_or("?").as_bytes()),
                            v["message"]["messageId"].as_str().unwrap_or("?"),
                            v["message"]["message_id"].as_str().unwrap_or("?"),
                            hex(&b64decode(v["message"]["data"].as_str().unwrap_or(""))),
                            attrs_out(&attrs),
                            o
                        )
                    })
                    .collect::<Vec<_>>();
                join(&items, " ")
            }
            _ => "bad-op".into(),
        };
        out.push(r);
    }
    out
}
